"""Matrix-side 2D Heisenberg generator quimb.ham_heis_2D(n, m, j, bz) adds
+bz * sum_i S^z_i, whereas every other generator of 'the same model'
(quimb.ham_heis, quimb.tensor.ham_2d_heis, MPO_ham_heis, ham_1d_heis,
quimb.operator.heisenberg_from_edges) uses -bz * sum_i S^z_i: for the same
arguments the matrix-side and tensor-side Hamiltonians differ by 2 * bz * Sz_total."""
import sys
import itertools
import numpy as np
import quimb as qu
import quimb.tensor as qtn
import functools

# ---- independent reference helpers (numpy only) ----
def spin(label, S=0.5):
    D = int(round(2 * S + 1))
    ms = [S - i for i in range(D)]
    sp = np.zeros((D, D), dtype=complex)
    for i in range(D - 1):
        m = ms[i + 1]
        sp[i, i + 1] = np.sqrt(S * (S + 1) - m * (m + 1))
    sm = sp.conj().T
    return {
        "X": (sp + sm) / 2, "Y": (sp - sm) / 2j, "Z": np.diag(ms).astype(complex),
        "+": sp, "-": sm, "I": np.eye(D, dtype=complex),
    }[label]


def embed(ops_sites, dims):
    """kron of identities with op placed on each given site"""
    mats = [np.eye(d, dtype=complex) for d in dims]
    for op, s in ops_sites:
        mats[s] = mats[s] @ np.asarray(op)
    return functools.reduce(np.kron, mats)


def localham_dense(lh, L, D=2):
    """sum of the two-site terms of a LocalHam1D as a dense matrix"""
    tot = np.zeros((D**L, D**L), dtype=complex)
    for (i, j), h in lh.terms.items():
        T = np.asarray(h).reshape(D, D, D, D)
        for a in range(D):
            for b in range(D):
                for c in range(D):
                    for d in range(D):
                        if T[a, b, c, d] != 0:
                            A = np.zeros((D, D)); A[a, c] = 1
                            B = np.zeros((D, D)); B[b, d] = 1
                            tot += T[a, b, c, d] * embed([(A, i), (B, j)], [D] * L)
    return tot
# ----------------------------------------------------


Lx, Ly, j, bz = 2, 3, (0.3, -0.6, 0.9), 0.37
sites = list(itertools.product(range(Lx), range(Ly)))
idx = {s: k for k, s in enumerate(sites)}
n = len(sites)
dims = [2] * n

# tensor-side: LocalHam2D terms summed up
lh = qtn.ham_2d_heis(Lx, Ly, j=j, bz=bz)
tens = np.zeros((2**n, 2**n), dtype=complex)
for (sa, sb), h in lh.terms.items():
    T = np.asarray(h).reshape(2, 2, 2, 2)
    for a, b, c, d in itertools.product(range(2), repeat=4):
        if T[a, b, c, d] != 0:
            A = np.zeros((2, 2)); A[a, c] = 1
            B = np.zeros((2, 2)); B[b, d] = 1
            tens += T[a, b, c, d] * embed([(A, idx[sa]), (B, idx[sb])], dims)

mat = np.asarray(qu.ham_heis_2D(Lx, Ly, j=j, bz=bz))

# independent reference with the documented convention of ham_2d_heis / ham_heis (-bz)
ref = np.zeros((2**n, 2**n), dtype=complex)
for (a, b) in sites:
    for t in [(a + 1, b), (a, b + 1)]:
        if t in idx:
            for jj, s in zip(j, "XYZ"):
                ref += jj * embed([(spin(s), idx[a, b]), (spin(s), idx[t])], dims)
    ref -= bz * embed([(spin("Z"), idx[a, b])], dims)
sztot = sum(embed([(spin("Z"), k)], dims) for k in range(n))

print("ground energy  qu.ham_heis_2D      :", np.linalg.eigvalsh(mat)[0])
print("ground energy  qtn.ham_2d_heis     :", np.linalg.eigvalsh(tens)[0])
print("ground energy  reference (-bz)     :", np.linalg.eigvalsh(ref)[0])
print("ham_2d_heis == reference           :", np.allclose(tens, ref))
print("ham_heis_2D == reference           :", np.allclose(mat, ref))
print("ham_heis_2D == reference + 2*bz*Sz :", np.allclose(mat, ref + 2 * bz * sztot))
# 1D cross-check: a 1 x m 'grid' is a chain
chain = np.asarray(qu.ham_heis(Ly, j=j, b=bz))
row = np.asarray(qu.ham_heis_2D(1, Ly, j=j, bz=bz))
print("ham_heis_2D(1, m) == ham_heis(m) for the same j, bz:", np.allclose(chain, row))
bad = not (np.allclose(mat, tens) and np.allclose(chain, row))
print("VIOLATION" if bad else "agree")
sys.exit(1 if bad else 0)
