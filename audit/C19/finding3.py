"""SparseOperatorBuilder.flatconfig_coupling / config_coupling on more than 64
sites: distinct coupled configurations are merged into one (their coefficients
summed) because duplicates are detected through an int64 'rank' that has
overflowed."""
import sys
import numpy as np
from quimb.operator import SparseOperatorBuilder, HilbertSpace

def reference(terms, fc):
    """apply each term (product of single-site x / z ops) to a basis config"""
    out = {}
    for coeff, ops in terms:
        b = list(fc); c = coeff
        for op, reg in ops:
            if op == "x":
                b[reg] ^= 1
            elif op == "z":
                c *= (1 - 2 * b[reg])
        out[tuple(b)] = out.get(tuple(b), 0.0) + c
    return out

bad = False
for n in (64, 70):
    H = SparseOperatorBuilder(hilbert_space=HilbertSpace(n))
    H += 2.0, ("x", 0)       # flips site 0
    H += 3.0, ("z", 1)       # diagonal
    fc = np.zeros(n, dtype=np.uint8)
    bjs, cs = H.flatconfig_coupling(fc)
    lib = {tuple(int(v) for v in b): float(c) for b, c in zip(bjs, cs)}
    ref = reference([(2.0, (("x", 0),)), (3.0, (("z", 1),))], [0] * n)
    short = lambda d: sorted((k[:3], v) for k, v in d.items())
    print(f"n={n}: library  (first 3 bits, coeff):", short(lib))
    print(f"n={n}: reference(first 3 bits, coeff):", short(ref))
    bad |= lib != ref
print("VIOLATION" if bad else "agree")
sys.exit(1 if bad else 0)
