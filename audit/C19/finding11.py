"""quimb.ikron (the Kronecker embedding used by all matrix-side generators and by
SpinHam1D.build_sparse): an index outside range(len(dims)) - including a negative
one - is silently skipped, the operator meant for it is dropped and identities are
returned in its place. (Root cause of finding 5.)"""
import sys
import functools
import numpy as np
import quimb as qu

rng = np.random.default_rng(0)
A = rng.normal(size=(2, 2)); B = rng.normal(size=(2, 2)); I = np.eye(2)
k = lambda *m: functools.reduce(np.kron, m)
dims = [2, 2, 2]
bad = False

lib = np.asarray(qu.ikron([A, B], dims, [2, 3]))      # site 3 does not exist
print("ikron([A, B], [2,2,2], [2, 3]) == I (x) I (x) A  (B silently dropped):", np.allclose(lib, k(I, I, A)))
bad |= np.allclose(lib, k(I, I, A))                     # a correct library would raise instead

lib = np.asarray(qu.ikron(A, dims, -1))                 # numpy-style 'last site'
print("ikron(A, [2,2,2], -1) == identity:", np.allclose(lib, np.eye(8)), "  == I (x) I (x) A:", np.allclose(lib, k(I, I, A)))
bad |= not np.allclose(lib, k(I, I, A))

lib = np.asarray(qu.ikron(A, dims, 3))
print("ikron(A, [2,2,2], 3)  == identity:", np.allclose(lib, np.eye(8)))
bad |= np.allclose(lib, np.eye(8))
print("VIOLATION (operator silently discarded)" if bad else "agree")
sys.exit(1 if bad else 0)
