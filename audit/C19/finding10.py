"""Sector builds of an operator that does not conserve the requested symmetry:
instead of the full matrix restricted to the sector's basis states (P H P), the
symmetry-breaking terms are folded back INTO the sector with a wrong rank.
Example: transverse-field Ising written as ZZ + X, asked for the Z2 'even' sector
(the builder's Z2 is the parity of the z-basis occupations, which X breaks):
the X field shows up on the diagonal. No error, no warning. For U1 the bogus rank
can fall outside [0, size) (build_dense raises from scipy; matvec would write
out of bounds)."""
import sys
import numpy as np
from quimb.operator import SparseOperatorBuilder, HilbertSpace

n = 3
H = SparseOperatorBuilder(hilbert_space=HilbertSpace(n))
H += 1.0, ("z", 0), ("z", 1)
H += 1.0, ("z", 1), ("z", 2)
H += 0.7, ("x", 2)
full = H.build_dense()
bad = False
for sector in ("even", "odd"):
    hs = HilbertSpace(n, sector=sector)
    basis = [int("".join(str(int(b)) for b in hs.rank_to_flatconfig(r)), 2) for r in range(hs.size)]
    ref = full[np.ix_(basis, basis)]
    lib = H.build_dense(sector=sector)
    print(f"sector {sector}: library diag  ", np.diag(lib), " offdiag max", np.abs(lib - np.diag(np.diag(lib))).max())
    print(f"sector {sector}: reference diag", np.diag(ref), " offdiag max", np.abs(ref - np.diag(np.diag(ref))).max())
    bad |= not np.allclose(lib, ref)
print("VIOLATION" if bad else "agree")
sys.exit(1 if bad else 0)
