"""SparseOperatorBuilder.evaluate_exact_configs / evaluate_exact_flatconfigs
return <psi|H^T|psi> / <psi|psi> instead of <psi|H|psi> / <psi|psi>: wrong for
complex hermitian operators with complex amplitudes (and for any non-symmetric
operator)."""
import sys
import numpy as np
from quimb.operator import SparseOperatorBuilder

bad = False

# (a) H = Y, psi = +1 eigenstate of Y
H = SparseOperatorBuilder()
H += 1.0, ("y", 0)
psi = np.array([1, 1j]) / 2**0.5
lib = H.evaluate_exact_configs(lambda cfg: psi[int(cfg[0])])
lib2 = H.evaluate_exact_flatconfigs(lambda fc: psi[int(fc[0])])
Y = np.array([[0, -1j], [1j, 0]])
ref = (psi.conj() @ Y @ psi) / (psi.conj() @ psi)
print("(a) library evaluate_exact_configs    :", lib)
print("(a) library evaluate_exact_flatconfigs:", lib2)
print("(a) reference <psi|Y|psi>             :", ref)
bad |= not (np.allclose(lib, ref) and np.allclose(lib2, ref))

# (b) hermitian complex hopping on 3 sites, random complex state
rng = np.random.default_rng(0)
H = SparseOperatorBuilder()
for i, j in [(0, 1), (1, 2), (0, 2)]:
    H += 0.3 + 0.8j, ("+", i), ("-", j)
    H += 0.3 - 0.8j, ("+", j), ("-", i)
A = H.build_dense()
assert np.allclose(A, A.conj().T)
psi = rng.normal(size=8) + 1j * rng.normal(size=8)
amp = lambda fc: psi[int("".join(str(int(b)) for b in fc), 2)]
lib = H.evaluate_exact_flatconfigs(amp)
ref = (psi.conj() @ A @ psi) / (psi.conj() @ psi)
print("(b) library  :", lib)
print("(b) reference:", ref, "   <psi|H^T|psi>/<psi|psi> =", (psi.conj() @ A.T @ psi) / (psi.conj() @ psi))
bad |= not np.allclose(lib, ref)
print("VIOLATION" if bad else "agree")
sys.exit(1 if bad else 0)
