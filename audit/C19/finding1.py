"""SparseOperatorBuilder: a term that exactly cancels an existing one is removed
from the raw terms but the cached processed terms / coupling maps are kept, so
every representation built afterwards still contains the cancelled term."""
import sys
import numpy as np
from quimb.operator import SparseOperatorBuilder

X = np.array([[0, 1], [1, 0.0]]); Z = np.diag([1.0, -1.0]); I = np.eye(2)

H = SparseOperatorBuilder()
H += 1.0, ("z", 0), ("z", 1)
H += 0.5, ("x", 0)
H.build_dense()                     # populates the caches
H += -0.5, ("x", 0)                 # cancels the field term exactly
# (same with: H -= 0.5, ("x", 0))

lib = H.build_dense()
lib_mv = H.matvec(np.arange(4.0))
ref = np.kron(Z, Z)                 # only the zz term is left
print("raw terms now      :", H.terms_raw)
print("processed terms    :", H.terms)
print("library build_dense:\n", lib)
print("reference          :\n", ref)
print("library matvec     :", lib_mv, " reference:", ref @ np.arange(4.0))
bad = not (np.allclose(lib, ref) and np.allclose(lib_mv, ref @ np.arange(4.0)))
print("VIOLATION" if bad else "agree")
sys.exit(1 if bad else 0)
