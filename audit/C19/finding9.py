"""Degenerate size L=2 with cyclic=True: MPO_ham_heis / SpinHam1D.build_mpo and the
matrix-side quimb.ham_heis count the bond twice ((0,1) and the wrap-around (1,0)),
ham_1d_heis / SpinHam1D.build_local_ham (LocalHam1D) count it once."""
import sys
import numpy as np
import quimb as qu
import quimb.tensor as qtn
import functools

# ---- independent reference helpers (numpy only) ----
def spin(label, S=0.5):
    D = int(round(2 * S + 1))
    ms = [S - i for i in range(D)]
    sp = np.zeros((D, D), dtype=complex)
    for i in range(D - 1):
        m = ms[i + 1]
        sp[i, i + 1] = np.sqrt(S * (S + 1) - m * (m + 1))
    sm = sp.conj().T
    return {
        "X": (sp + sm) / 2, "Y": (sp - sm) / 2j, "Z": np.diag(ms).astype(complex),
        "+": sp, "-": sm, "I": np.eye(D, dtype=complex),
    }[label]


def embed(ops_sites, dims):
    """kron of identities with op placed on each given site"""
    mats = [np.eye(d, dtype=complex) for d in dims]
    for op, s in ops_sites:
        mats[s] = mats[s] @ np.asarray(op)
    return functools.reduce(np.kron, mats)


def localham_dense(lh, L, D=2):
    """sum of the two-site terms of a LocalHam1D as a dense matrix"""
    tot = np.zeros((D**L, D**L), dtype=complex)
    for (i, j), h in lh.terms.items():
        T = np.asarray(h).reshape(D, D, D, D)
        for a in range(D):
            for b in range(D):
                for c in range(D):
                    for d in range(D):
                        if T[a, b, c, d] != 0:
                            A = np.zeros((D, D)); A[a, c] = 1
                            B = np.zeros((D, D)); B[b, d] = 1
                            tot += T[a, b, c, d] * embed([(A, i), (B, j)], [D] * L)
    return tot
# ----------------------------------------------------


L, j, bz = 2, (0.3, -0.6, 0.9), 0.25
mat = np.asarray(qu.ham_heis(L, j=j, b=bz, cyclic=True))
mpo = np.asarray(qtn.MPO_ham_heis(L, j=j, bz=bz, cyclic=True).to_dense())
lh = localham_dense(qtn.ham_1d_heis(L, j=j, bz=bz, cyclic=True), L)
dims = [2, 2]
bond = sum(jj * embed([(spin(s), 0), (spin(s), 1)], dims) for jj, s in zip(j, "XYZ"))
field = -bz * (embed([(spin("Z"), 0)], dims) + embed([(spin("Z"), 1)], dims))
print("qu.ham_heis      == 2*bond + field:", np.allclose(mat, 2 * bond + field), "  == 1*bond + field:", np.allclose(mat, bond + field))
print("qtn.MPO_ham_heis == 2*bond + field:", np.allclose(mpo, 2 * bond + field), "  == 1*bond + field:", np.allclose(mpo, bond + field))
print("qtn.ham_1d_heis  == 2*bond + field:", np.allclose(lh, 2 * bond + field), "  == 1*bond + field:", np.allclose(lh, bond + field))
print("ground energies  ham_heis / MPO / LocalHam1D:", np.linalg.eigvalsh(mat)[0], np.linalg.eigvalsh(mpo)[0], np.linalg.eigvalsh(lh)[0])
bad = not (np.allclose(mat, mpo) and np.allclose(mpo, lh))
print("VIOLATION" if bad else "agree")
sys.exit(1 if bad else 0)
