"""quimb.operator.builder.pauli_decompose (module-level function) applied directly to
the output of jordan_wigner_transform - the order its docstring prescribes ('Call
`pauli_decompose` after this to get the full decomposition') - returns a different,
non-hermitian operator: the decomposed Paulis are sorted by (register, label), which
reorders NON-commuting Paulis that sit on the same site (z.x -> x.z), flipping signs.
(The SparseOperatorBuilder pipeline is not affected because it calls `simplify`
in between.)"""
import sys
import functools
import numpy as np
from quimb.operator import builder as qb

MATS = {
    "I": np.eye(2), "x": np.array([[0, 1], [1, 0.0]]), "y": np.array([[0, -1j], [1j, 0]]),
    "z": np.diag([1.0, -1.0]), "+": np.array([[0, 0], [1, 0.0]]), "-": np.array([[0, 1], [0, 0.0]]),
}

def dense(terms, n):
    """sum_k coeff_k * ordered product of the single site operators"""
    D = 2**n
    H = np.zeros((D, D), dtype=complex)
    for ops, coeff in terms.items():
        M = np.eye(D, dtype=complex)
        for op, reg in ops:
            mats = [np.eye(2)] * n
            mats[reg] = MATS[op]
            M = M @ functools.reduce(np.kron, mats)
        H += coeff * M
    return H

# fermionic hopping c1^dag c0 + c0^dag c1 on two modes
terms = {(("+", 1), ("-", 0)): 1.0, (("+", 0), ("-", 1)): 1.0}
jw = qb.jordan_wigner_transform(terms)
pd = qb.pauli_decompose(jw, site_to_reg=lambda s: s)
ref = dense(jw, 2)            # the meaning of the Jordan-Wigner transformed terms
lib = dense(pd, 2)            # the meaning of the terms after 'pauli_decompose'
print("JW terms          :", jw)
print("pauli_decompose'd :", pd)
print("reference (JW terms as a matrix):\n", ref.real)
print("library   (decomposed terms as a matrix):\n", lib.real)
print("decomposed operator hermitian:", np.allclose(lib, lib.conj().T))
bad = not np.allclose(lib, ref)
print("VIOLATION" if bad else "agree")
sys.exit(1 if bad else 0)
