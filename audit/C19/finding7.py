"""MPO_ham_bilinear_biquadratic / ham_1d_bilinear_biquadratic (quimb.tensor.tensor_builder):
the 'biquadratic' part is built as sum_{a,b} (S^a S^a)_i (S^b S^b)_{i+1}
= [S(S+1)]^2 * identity, not (S_i . S_{i+1})^2 = sum_{a,b} (S^a S^b)_i (S^a S^b)_{i+1}.
The resulting operator is cos(theta) * Heisenberg + const, not the bilinear-biquadratic
chain of PhysRevB.93.184428 cited in the docstring."""
import sys
import numpy as np
from quimb.tensor.tensor_builder import MPO_ham_bilinear_biquadratic, ham_1d_bilinear_biquadratic
import functools

# ---- independent reference helpers (numpy only) ----
def spin(label, S=0.5):
    D = int(round(2 * S + 1))
    ms = [S - i for i in range(D)]
    sp = np.zeros((D, D), dtype=complex)
    for i in range(D - 1):
        m = ms[i + 1]
        sp[i, i + 1] = np.sqrt(S * (S + 1) - m * (m + 1))
    sm = sp.conj().T
    return {
        "X": (sp + sm) / 2, "Y": (sp - sm) / 2j, "Z": np.diag(ms).astype(complex),
        "+": sp, "-": sm, "I": np.eye(D, dtype=complex),
    }[label]


def embed(ops_sites, dims):
    """kron of identities with op placed on each given site"""
    mats = [np.eye(d, dtype=complex) for d in dims]
    for op, s in ops_sites:
        mats[s] = mats[s] @ np.asarray(op)
    return functools.reduce(np.kron, mats)


def localham_dense(lh, L, D=2):
    """sum of the two-site terms of a LocalHam1D as a dense matrix"""
    tot = np.zeros((D**L, D**L), dtype=complex)
    for (i, j), h in lh.terms.items():
        T = np.asarray(h).reshape(D, D, D, D)
        for a in range(D):
            for b in range(D):
                for c in range(D):
                    for d in range(D):
                        if T[a, b, c, d] != 0:
                            A = np.zeros((D, D)); A[a, c] = 1
                            B = np.zeros((D, D)); B[b, d] = 1
                            tot += T[a, b, c, d] * embed([(A, i), (B, j)], [D] * L)
    return tot
# ----------------------------------------------------


S, L, theta = 1, 3, 0.37
D = 3
dims = [D] * L
ref = np.zeros((D**L, D**L), dtype=complex)
heis = np.zeros_like(ref)
for i in range(L - 1):
    SS = sum(embed([(spin(s, S), i), (spin(s, S), i + 1)], dims) for s in "XYZ")
    ref += np.cos(theta) * SS + np.sin(theta) * SS @ SS
    heis += SS
lib_mpo = np.asarray(MPO_ham_bilinear_biquadratic(L, theta, S=S, compress=False).to_dense())
lib_lh = localham_dense(ham_1d_bilinear_biquadratic(L, theta, S=S), L, D)
const = np.cos(theta) * heis + np.sin(theta) * (L - 1) * (S * (S + 1)) ** 2 * np.eye(D**L)
ev = lambda A: np.round(np.linalg.eigvalsh((A + A.conj().T) / 2)[[0, 1, -1]], 6)
print("library MPO       eigenvalues (min, 2nd, max):", ev(lib_mpo))
print("library LocalHam  eigenvalues (min, 2nd, max):", ev(lib_lh))
print("reference BLBQ    eigenvalues (min, 2nd, max):", ev(ref))
print("library == cos(theta) * Heisenberg + sin(theta) * (L-1) * [S(S+1)]^2 * I :", np.allclose(lib_mpo, const))
bad = not (np.allclose(lib_mpo, ref) and np.allclose(lib_lh, ref))
print("VIOLATION" if bad else "agree")
sys.exit(1 if bad else 0)
