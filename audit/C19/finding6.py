"""SpinHam1D: a bond-specific term registered with the sites in descending order,
`builder[2, 1] += ...`, is accepted (it passes the nearest-neighbour check) but is
stored under the key (2, 1): build_mpo and build_sparse never look that key up and
silently keep the default term on that bond, while build_local_ham does use it.
The representations of one builder then denote different operators."""
import sys
import numpy as np
import quimb.tensor as qtn
import functools

# ---- independent reference helpers (numpy only) ----
def spin(label, S=0.5):
    D = int(round(2 * S + 1))
    ms = [S - i for i in range(D)]
    sp = np.zeros((D, D), dtype=complex)
    for i in range(D - 1):
        m = ms[i + 1]
        sp[i, i + 1] = np.sqrt(S * (S + 1) - m * (m + 1))
    sm = sp.conj().T
    return {
        "X": (sp + sm) / 2, "Y": (sp - sm) / 2j, "Z": np.diag(ms).astype(complex),
        "+": sp, "-": sm, "I": np.eye(D, dtype=complex),
    }[label]


def embed(ops_sites, dims):
    """kron of identities with op placed on each given site"""
    mats = [np.eye(d, dtype=complex) for d in dims]
    for op, s in ops_sites:
        mats[s] = mats[s] @ np.asarray(op)
    return functools.reduce(np.kron, mats)


def localham_dense(lh, L, D=2):
    """sum of the two-site terms of a LocalHam1D as a dense matrix"""
    tot = np.zeros((D**L, D**L), dtype=complex)
    for (i, j), h in lh.terms.items():
        T = np.asarray(h).reshape(D, D, D, D)
        for a in range(D):
            for b in range(D):
                for c in range(D):
                    for d in range(D):
                        if T[a, b, c, d] != 0:
                            A = np.zeros((D, D)); A[a, c] = 1
                            B = np.zeros((D, D)); B[b, d] = 1
                            tot += T[a, b, c, d] * embed([(A, i), (B, j)], [D] * L)
    return tot
# ----------------------------------------------------


L = 4
dims = [2] * L
b = qtn.SpinHam1D(S=1 / 2)
b += 1.0, "Z", "Z"
b[2, 1] += 0.5, "X", "Y"        # intended: replace the (1,2) bond by 0.5 X_2 Y_1

zz = lambda i, j: embed([(spin("Z"), i), (spin("Z"), j)], dims)
ref_override = zz(0, 1) + zz(2, 3) + 0.5 * embed([(spin("X"), 2), (spin("Y"), 1)], dims)
ref_ignored = zz(0, 1) + zz(1, 2) + zz(2, 3)

lib = {
    "build_mpo": np.asarray(b.build_mpo(L).to_dense()),
    "build_sparse": b.build_sparse(L).toarray(),
    "build_local_ham": localham_dense(b.build_local_ham(L), L),
}
for k, v in lib.items():
    print(f"{k:16s} == site-specific term applied: {np.allclose(v, ref_override)!s:5s}  == term ignored (default ZZ kept): {np.allclose(v, ref_ignored)}")
print("max |build_mpo - build_local_ham| =", np.abs(lib["build_mpo"] - lib["build_local_ham"]).max(), "(reference: 0)")
bad = not all(np.allclose(v, ref_override) for v in lib.values())
print("VIOLATION" if bad else "agree")
sys.exit(1 if bad else 0)
