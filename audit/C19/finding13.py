"""quimb.zspin_projector(n, sz) projects onto the subspace with total S^z = -sz
(measured with quimb's own spin_operator('z') / pauli('Z'), where basis state 0 is
spin up): it counts '1' bits as up spins. Restricting a Hamiltonian with a field to
'the sz sector' therefore gives the block of the opposite sector."""
import sys
import functools
import numpy as np
import quimb as qu

n, sz, bz = 3, 0.5, 0.4
P = qu.zspin_projector(n, sz=sz).toarray()
H = np.asarray(qu.ham_heis(n, j=1.0, b=bz))           # sum S.S - bz * sum S^z
lib = P.T @ H @ P

# independent: basis states whose total S^z (|0> = +1/2, |1> = -1/2) equals sz
szdiag = np.array([sum(0.5 - int(b) for b in format(i, f"0{n}b")) for i in range(2**n)])
# (consistency of this convention with quimb's own S^z)
Sz_q = sum(np.asarray(qu.ikron(qu.spin_operator("z"), [2] * n, i)) for i in range(n))
assert np.allclose(np.diag(Sz_q).real, szdiag)
basis = [i for i in range(2**n) if np.isclose(szdiag[i], sz)]
ref = H[np.ix_(basis, basis)]

print("total S^z of the states zspin_projector(n=3, sz=+0.5) keeps:", np.diag(P.T @ Sz_q @ P).real, " (requested +0.5)")
print("library   eigenvalues of P^T H P       :", np.round(np.linalg.eigvalsh(lib), 6))
print("reference eigenvalues of H in Sz=+0.5  :", np.round(np.linalg.eigvalsh(ref), 6))
basis_m = [i for i in range(2**n) if np.isclose(szdiag[i], -sz)]
print("reference eigenvalues of H in Sz=-0.5  :", np.round(np.linalg.eigvalsh(H[np.ix_(basis_m, basis_m)]), 6))
bad = not np.allclose(np.linalg.eigvalsh(lib), np.linalg.eigvalsh(ref))
print("VIOLATION" if bad else "agree")
sys.exit(1 if bad else 0)
