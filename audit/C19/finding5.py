"""SpinHam1D(cyclic=True).build_sparse(L): the wrap-around bond (L-1, 0) is
built as `factor * s1` on site L-1 alone (s2 on site 0 is dropped), so the
sparse matrix differs from build_mpo / build_local_ham of the same builder."""
import sys
import numpy as np
import quimb.tensor as qtn
import functools

# ---- independent reference helpers (numpy only) ----
def spin(label, S=0.5):
    D = int(round(2 * S + 1))
    ms = [S - i for i in range(D)]
    sp = np.zeros((D, D), dtype=complex)
    for i in range(D - 1):
        m = ms[i + 1]
        sp[i, i + 1] = np.sqrt(S * (S + 1) - m * (m + 1))
    sm = sp.conj().T
    return {
        "X": (sp + sm) / 2, "Y": (sp - sm) / 2j, "Z": np.diag(ms).astype(complex),
        "+": sp, "-": sm, "I": np.eye(D, dtype=complex),
    }[label]


def embed(ops_sites, dims):
    """kron of identities with op placed on each given site"""
    mats = [np.eye(d, dtype=complex) for d in dims]
    for op, s in ops_sites:
        mats[s] = mats[s] @ np.asarray(op)
    return functools.reduce(np.kron, mats)


def localham_dense(lh, L, D=2):
    """sum of the two-site terms of a LocalHam1D as a dense matrix"""
    tot = np.zeros((D**L, D**L), dtype=complex)
    for (i, j), h in lh.terms.items():
        T = np.asarray(h).reshape(D, D, D, D)
        for a in range(D):
            for b in range(D):
                for c in range(D):
                    for d in range(D):
                        if T[a, b, c, d] != 0:
                            A = np.zeros((D, D)); A[a, c] = 1
                            B = np.zeros((D, D)); B[b, d] = 1
                            tot += T[a, b, c, d] * embed([(A, i), (B, j)], [D] * L)
    return tot
# ----------------------------------------------------


L = 4
b = qtn.SpinHam1D(S=1 / 2, cyclic=True)
b += 1.0, "Z", "Z"
b += 0.5, "X", "X"
b -= 0.3, "Z"

dims = [2] * L
ref = np.zeros((2**L, 2**L), dtype=complex)
for i in range(L):
    j = (i + 1) % L
    ref += embed([(spin("Z"), i), (spin("Z"), j)], dims) + 0.5 * embed([(spin("X"), i), (spin("X"), j)], dims)
    ref -= 0.3 * embed([(spin("Z"), i)], dims)

lib_sparse = b.build_sparse(L).toarray()
lib_mpo = np.asarray(b.build_mpo(L).to_dense())
lib_lh = localham_dense(b.build_local_ham(L), L)
ev = lambda A: np.round(np.linalg.eigvalsh((A + A.conj().T) / 2)[:3], 6)
print("lowest eigenvalues  build_sparse   :", ev(lib_sparse))
print("lowest eigenvalues  build_mpo      :", ev(lib_mpo))
print("lowest eigenvalues  build_local_ham:", ev(lib_lh))
print("lowest eigenvalues  reference      :", ev(ref))
print("max|build_sparse - reference| =", np.abs(lib_sparse - ref).max())
# what it actually built: open chain + the lone left operators on site L-1
lone = ref - embed([(spin("Z"), L - 1), (spin("Z"), 0)], dims) - 0.5 * embed([(spin("X"), L - 1), (spin("X"), 0)], dims) \
    + embed([(spin("Z"), L - 1)], dims) + 0.5 * embed([(spin("X"), L - 1)], dims)
print("build_sparse == open chain + (Z + 0.5 X) on site L-1 alone:", np.allclose(lib_sparse, lone))
bad = not (np.allclose(lib_sparse, ref) and np.allclose(lib_mpo, ref) and np.allclose(lib_lh, ref))
print("VIOLATION" if bad else "agree")
sys.exit(1 if bad else 0)
