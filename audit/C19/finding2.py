"""SparseOperatorBuilder.matvec(x, out=buf): the serial path accumulates A @ x
into whatever `buf` holds (returns buf_old + A @ x), the parallel path
overwrites it with A @ x. `out` is documented as 'an array to store the result
in'."""
import sys
import numpy as np
from quimb.operator import SparseOperatorBuilder

H = SparseOperatorBuilder()
H += 1.0, ("z", 0), ("z", 1)
H += 0.5, ("x", 0)
A = H.build_dense()
x = np.arange(4.0)
ref = A @ x

buf = np.ones(4)                       # e.g. a reused work buffer
lib_serial = H.matvec(x, out=buf).copy()
buf = np.ones(4)
lib_parallel = H.matvec(x, out=buf, parallel=2).copy()

print("library serial   matvec(x, out=ones):", lib_serial)
print("library parallel matvec(x, out=ones):", lib_parallel)
print("reference A @ x                     :", ref)
bad = not (np.allclose(lib_serial, ref) and np.allclose(lib_parallel, ref))
print("VIOLATION" if bad else "agree")
sys.exit(1 if bad else 0)
