import sys
import warnings
from collections import Counter

import numpy as np

warnings.filterwarnings("ignore")


def dense_contract(arrays, inds_list, output):
    """Independent reference: greedy pairwise contraction, two-operand
    np.einsum only (no quimb / cotengra contraction machinery)."""
    ts = [(np.asarray(a), tuple(i)) for a, i in zip(arrays, inds_list)]
    output = tuple(output)
    if not ts:
        return np.array(1.0)
    while len(ts) > 1:
        cnt = Counter(ix for _, inds in ts for ix in set(inds))
        best = None
        for p in range(len(ts)):
            ap, ip = ts[p]
            sp = set(ip)
            for q in range(p + 1, len(ts)):
                aq, iq = ts[q]
                shared = sp & set(iq)
                if not shared and best is not None:
                    continue
                union = list(dict.fromkeys(ip + iq))
                keep = [
                    ix
                    for ix in union
                    if (ix in output) or cnt[ix] > ((ix in sp) + (ix in iq))
                ]
                dims = {**dict(zip(iq, aq.shape)), **dict(zip(ip, ap.shape))}
                size = 1
                for ix in keep:
                    size *= dims[ix]
                score = (0 if shared else 1, size - ap.size - aq.size)
                if best is None or score < best[0]:
                    best = (score, p, q, keep)
        _, p, q, keep = best
        (ap, ip), (aq, iq) = ts[p], ts[q]
        sym = {}
        lab = lambda ix: sym.setdefault(ix, len(sym))
        new = np.einsum(
            ap, [lab(i) for i in ip], aq, [lab(i) for i in iq], [lab(i) for i in keep]
        )
        ts = [t for k, t in enumerate(ts) if k not in (p, q)] + [(new, tuple(keep))]
    a, inds = ts[0]
    sym = {ix: k for k, ix in enumerate(inds)}
    return np.einsum(a, [sym[i] for i in inds], [sym[i] for i in output])


def ref_value(tn, output_inds=None):
    """value denoted by a quimb tensor network: raw arrays + labels + stored exponent"""
    if output_inds is None:
        output_inds = tn.outer_inds()
    v = dense_contract(
        [t.data for t in tn.tensors], [t.inds for t in tn.tensors], output_inds
    )
    return v * 10.0 ** float(np.real(tn.exponent))


# finding 2: plaquette environments (2D) and cell environments (3D) silently
# drop the exponent accumulated by equalize_norms: environment | plaquette no
# longer denotes the whole network.
import quimb.tensor as qtn

bad = False

# ---- 2D: compute_plaquette_environments(..., equalize_norms=1.0)
tn = qtn.TN2D_rand(4, 4, 2, seed=1, dist="normal")
ref = float(ref_value(tn))
for eq in (False, 1.0):
    envs = tn.compute_plaquette_environments(
        2, 2, max_bond=64, cutoff=0.0, equalize_norms=eq
    )
    for ((i0, j0), (bx, by)), env in sorted(envs.items())[:4]:
        tags = [tn.site_tag(i, j) for i in range(i0, i0 + bx) for j in range(j0, j0 + by)]
        lib = float(ref_value(env | tn.select_any(tags)))
        print(
            f"2D equalize_norms={eq!r} plaquette {(i0, j0)}: library env|plaquette = {lib:.8g}  "
            f"reference = {ref:.8g}  ratio = {lib / ref:.6g}  env.exponent = {env.exponent}"
        )
        if abs(lib / ref - 1) > 1e-6:
            bad = True

# ---- 3D: PEPS3D.partial_trace(normalized=False, equalize_norms=1.0)
ps = qtn.PEPS3D.rand(2, 2, 4, 2, seed=3)
keep = (1, 1, 1)
kix = ps.site_ind(*keep)
arrays, inds = [], []
for t in ps.tensors:
    arrays.append(t.data)
    inds.append(t.inds)
    arrays.append(np.conj(t.data))
    inds.append(tuple("B" + ix if (ix == kix or not ix.startswith("k")) else ix for ix in t.inds))
rho_ref = dense_contract(arrays, inds, [kix, "B" + kix])
for eq in (False, 1.0):
    rho = ps.partial_trace(
        keep, max_bond=256, cutoff=0.0, normalized=False, equalize_norms=eq
    )
    print(
        f"3D equalize_norms={eq!r}: library tr(rho) = {np.trace(rho):.8g}  "
        f"reference tr(rho) = {np.trace(rho_ref):.8g}  ratio = {np.trace(rho) / np.trace(rho_ref):.6g}"
    )
    if abs(np.trace(rho) / np.trace(rho_ref) - 1) > 1e-6:
        bad = True


# ---- downstream effect: PEPS.compute_local_expectation(normalized=False)
ps2 = qtn.PEPS.rand(4, 4, 2, seed=5)
sites = [(i, j) for i in range(4) for j in range(4)]
psi = dense_contract(
    [t.data for t in ps2.tensors], [t.inds for t in ps2.tensors],
    [ps2.site_ind(*c) for c in sites],
)
Z = np.diag([1.0, -1.0])
where = (1, 2)
ax = sites.index(where)
Zpsi = np.moveaxis(np.tensordot(Z, psi, axes=[[1], [ax]]), 0, ax)
expec_ref = np.vdot(psi, Zpsi)
for eq in (False, 1.0):
    lib = ps2.compute_local_expectation(
        {where: Z}, max_bond=256, cutoff=0.0, normalized=False, equalize_norms=eq
    )
    print(
        f"<psi|Z_12|psi> (normalized=False) equalize_norms={eq!r}: library = {lib:.8g}  "
        f"reference = {expec_ref:.8g}"
    )
    if abs(lib / expec_ref - 1) > 1e-6:
        bad = True

print("VIOLATION" if bad else "ok")
sys.exit(1 if bad else 0)
