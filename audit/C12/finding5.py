import sys
import warnings
from collections import Counter

import numpy as np

warnings.filterwarnings("ignore")


def dense_contract(arrays, inds_list, output):
    """Independent reference: greedy pairwise contraction, two-operand
    np.einsum only (no quimb / cotengra contraction machinery)."""
    ts = [(np.asarray(a), tuple(i)) for a, i in zip(arrays, inds_list)]
    output = tuple(output)
    if not ts:
        return np.array(1.0)
    while len(ts) > 1:
        cnt = Counter(ix for _, inds in ts for ix in set(inds))
        best = None
        for p in range(len(ts)):
            ap, ip = ts[p]
            sp = set(ip)
            for q in range(p + 1, len(ts)):
                aq, iq = ts[q]
                shared = sp & set(iq)
                if not shared and best is not None:
                    continue
                union = list(dict.fromkeys(ip + iq))
                keep = [
                    ix
                    for ix in union
                    if (ix in output) or cnt[ix] > ((ix in sp) + (ix in iq))
                ]
                dims = {**dict(zip(iq, aq.shape)), **dict(zip(ip, ap.shape))}
                size = 1
                for ix in keep:
                    size *= dims[ix]
                score = (0 if shared else 1, size - ap.size - aq.size)
                if best is None or score < best[0]:
                    best = (score, p, q, keep)
        _, p, q, keep = best
        (ap, ip), (aq, iq) = ts[p], ts[q]
        sym = {}
        lab = lambda ix: sym.setdefault(ix, len(sym))
        new = np.einsum(
            ap, [lab(i) for i in ip], aq, [lab(i) for i in iq], [lab(i) for i in keep]
        )
        ts = [t for k, t in enumerate(ts) if k not in (p, q)] + [(new, tuple(keep))]
    a, inds = ts[0]
    sym = {ix: k for k, ix in enumerate(inds)}
    return np.einsum(a, [sym[i] for i in inds], [sym[i] for i in output])


def ref_value(tn, output_inds=None):
    """value denoted by a quimb tensor network: raw arrays + labels + stored exponent"""
    if output_inds is None:
        output_inds = tn.outer_inds()
    v = dense_contract(
        [t.data for t in tn.tensors], [t.inds for t in tn.tensors], output_inds
    )
    return v * 10.0 ** float(np.real(tn.exponent))


# finding 5: tensor_network_1d_compress(method="fit"/"fit-*", inplace=True) on
# a network that carries a stored exponent returns a network scaled by an
# extra factor 10**exponent (the exponent is counted twice), although nothing
# is truncated.
import quimb.tensor as qtn
from quimb.tensor.tn1d.compress import tensor_network_1d_compress

bad = False
mps = qtn.MPS_rand_state(5, 3, seed=4, dtype="complex128")
mpo = qtn.MPO_rand_herm(5, 3, seed=5, dtype="complex128")
tn = qtn.tensor_network_apply_op_vec(mpo, mps, contract=False)  # lazy MPO|MPS>
tn.exponent = 1.3
out = tn.outer_inds()
ref = ref_value(tn, out)

for method in ("fit", "fit-zipup", "fit-projector", "fit-oversample", "dm", "direct", "zipup"):
    for inplace in (False, True):
        t = tn.copy()
        kw = dict(max_iterations=300, tol=1e-14) if method.startswith("fit") else {}
        c = tensor_network_1d_compress(
            t, max_bond=16, cutoff=0.0, method=method, inplace=inplace, **kw
        )
        lib = ref_value(c, out)
        ratio = np.vdot(ref, lib) / np.vdot(ref, ref)
        err = np.linalg.norm(lib - ref) / np.linalg.norm(ref)
        flag = "" if err < 1e-6 else "   <-- wrong (10**1.3 = %.5g)" % 10**1.3
        print(
            f"method={method:15s} inplace={inplace!s:5s}: |library - reference|/|reference| = {err:.3g}, "
            f"library/reference = {ratio.real:.6g}, result.exponent = {c.exponent}{flag}"
        )
        if err > 1e-6:
            bad = True

print("VIOLATION" if bad else "ok")
sys.exit(1 if bad else 0)
