import sys
import warnings
from collections import Counter

import numpy as np

warnings.filterwarnings("ignore")


def dense_contract(arrays, inds_list, output):
    """Independent reference: greedy pairwise contraction, two-operand
    np.einsum only (no quimb / cotengra contraction machinery)."""
    ts = [(np.asarray(a), tuple(i)) for a, i in zip(arrays, inds_list)]
    output = tuple(output)
    if not ts:
        return np.array(1.0)
    while len(ts) > 1:
        cnt = Counter(ix for _, inds in ts for ix in set(inds))
        best = None
        for p in range(len(ts)):
            ap, ip = ts[p]
            sp = set(ip)
            for q in range(p + 1, len(ts)):
                aq, iq = ts[q]
                shared = sp & set(iq)
                if not shared and best is not None:
                    continue
                union = list(dict.fromkeys(ip + iq))
                keep = [
                    ix
                    for ix in union
                    if (ix in output) or cnt[ix] > ((ix in sp) + (ix in iq))
                ]
                dims = {**dict(zip(iq, aq.shape)), **dict(zip(ip, ap.shape))}
                size = 1
                for ix in keep:
                    size *= dims[ix]
                score = (0 if shared else 1, size - ap.size - aq.size)
                if best is None or score < best[0]:
                    best = (score, p, q, keep)
        _, p, q, keep = best
        (ap, ip), (aq, iq) = ts[p], ts[q]
        sym = {}
        lab = lambda ix: sym.setdefault(ix, len(sym))
        new = np.einsum(
            ap, [lab(i) for i in ip], aq, [lab(i) for i in iq], [lab(i) for i in keep]
        )
        ts = [t for k, t in enumerate(ts) if k not in (p, q)] + [(new, tuple(keep))]
    a, inds = ts[0]
    sym = {ix: k for k, ix in enumerate(inds)}
    return np.einsum(a, [sym[i] for i in inds], [sym[i] for i in output])


def ref_value(tn, output_inds=None):
    """value denoted by a quimb tensor network: raw arrays + labels + stored exponent"""
    if output_inds is None:
        output_inds = tn.outer_inds()
    v = dense_contract(
        [t.data for t in tn.tensors], [t.inds for t in tn.tensors], output_inds
    )
    return v * 10.0 ** float(np.real(tn.exponent))


# finding 6 (numerical robustness, lower confidence): the simple-update
# pre-gauging used by the projector based schemes (canonize=True: default of
# contract_boundary(mode="projector"), optional in contract_hotrg /
# contract_ctmrg) silently destroys part of the network on near-"GHZ"
# networks (e.g. a ferromagnetic Ising partition function at low temperature
# in a small field, or copy-tensor networks): the result is wrong at the
# 1e-5 .. 5e-2 level although max_bond is far above every bond that occurs
# and cutoff=0.  The identical calls with canonize=False are exact to 1e-14.
import quimb.tensor as qtn

bad = False


def report(label, lib, ref, tol=1e-8):
    global bad
    err = abs(lib - ref) / abs(ref)
    print(f"{label}: library = {lib:.12g}  reference = {ref:.12g}  rel.err = {err:.3g}")
    if err > tol:
        bad = True


# (a) 5x5 classical Ising model, beta=2, h=0.05 (quimb's own builder)
tn = qtn.TN2D_classical_ising_partition_function(5, 5, beta=2.0, h=0.05)
ref = float(ref_value(tn))
report("Ising 5x5 beta=2 h=0.05  contract_hotrg(canonize=True,  chi=32, cutoff=0)",
       tn.contract_hotrg(max_bond=32, cutoff=0.0, canonize=True), ref)
report("Ising 5x5 beta=2 h=0.05  contract_hotrg(canonize=False, chi=32, cutoff=0)",
       tn.contract_hotrg(max_bond=32, cutoff=0.0, canonize=False), ref)

tn = qtn.TN2D_classical_ising_partition_function(5, 5, beta=4.0, h=0.05)
ref = float(ref_value(tn))
report("Ising 5x5 beta=4 h=0.05  contract_boundary(mode='projector') [default canonize=True]",
       tn.contract_boundary(mode="projector", max_bond=32, cutoff=0.0), ref)
report("Ising 5x5 beta=4 h=0.05  contract_boundary(mode='projector', canonize=False)",
       tn.contract_boundary(mode="projector", max_bond=32, cutoff=0.0, canonize=False), ref)


# (b) copy-tensor ("delta") network with weights (1, 1.2): value 1 + 1.2**16
def delta(shape):
    a = np.zeros(shape)
    a[(0,) * len(shape)] = 1.0
    a[(1,) * len(shape)] = 1.2
    return a


tn = qtn.TN2D_from_fill_fn(delta, 4, 4, 2)
ref = float(ref_value(tn))
assert abs(ref - (1 + 1.2**16)) < 1e-9
report("delta(1,1.2) 4x4  contract_boundary(mode='projector') [default canonize=True]",
       tn.contract_boundary(mode="projector", max_bond=16, cutoff=0.0), ref)
report("delta(1,1.2) 4x4  contract_boundary(mode='projector', canonize=False)",
       tn.contract_boundary(mode="projector", max_bond=16, cutoff=0.0, canonize=False), ref)

print("VIOLATION" if bad else "ok")
sys.exit(1 if bad else 0)
