import sys
import warnings
from collections import Counter

import numpy as np

warnings.filterwarnings("ignore")


def dense_contract(arrays, inds_list, output):
    """Independent reference: greedy pairwise contraction, two-operand
    np.einsum only (no quimb / cotengra contraction machinery)."""
    ts = [(np.asarray(a), tuple(i)) for a, i in zip(arrays, inds_list)]
    output = tuple(output)
    if not ts:
        return np.array(1.0)
    while len(ts) > 1:
        cnt = Counter(ix for _, inds in ts for ix in set(inds))
        best = None
        for p in range(len(ts)):
            ap, ip = ts[p]
            sp = set(ip)
            for q in range(p + 1, len(ts)):
                aq, iq = ts[q]
                shared = sp & set(iq)
                if not shared and best is not None:
                    continue
                union = list(dict.fromkeys(ip + iq))
                keep = [
                    ix
                    for ix in union
                    if (ix in output) or cnt[ix] > ((ix in sp) + (ix in iq))
                ]
                dims = {**dict(zip(iq, aq.shape)), **dict(zip(ip, ap.shape))}
                size = 1
                for ix in keep:
                    size *= dims[ix]
                score = (0 if shared else 1, size - ap.size - aq.size)
                if best is None or score < best[0]:
                    best = (score, p, q, keep)
        _, p, q, keep = best
        (ap, ip), (aq, iq) = ts[p], ts[q]
        sym = {}
        lab = lambda ix: sym.setdefault(ix, len(sym))
        new = np.einsum(
            ap, [lab(i) for i in ip], aq, [lab(i) for i in iq], [lab(i) for i in keep]
        )
        ts = [t for k, t in enumerate(ts) if k not in (p, q)] + [(new, tuple(keep))]
    a, inds = ts[0]
    sym = {ix: k for k, ix in enumerate(inds)}
    return np.einsum(a, [sym[i] for i in inds], [sym[i] for i in output])


def ref_value(tn, output_inds=None):
    """value denoted by a quimb tensor network: raw arrays + labels + stored exponent"""
    if output_inds is None:
        output_inds = tn.outer_inds()
    v = dense_contract(
        [t.data for t in tn.tensors], [t.inds for t in tn.tensors], output_inds
    )
    return v * 10.0 ** float(np.real(tn.exponent))


# finding 4: the lazy 2-norm-BP compressor ("l2bp" / "l2bp3d") is not exact
# when untruncated (max_bond >> every bond, cutoff=0) whenever the piece it
# compresses is a closed network (no dangling indices) whose regions form a
# loop: the converged messages are rank deficient and the "projectors" built
# from them discard part of the support.
import quimb.tensor as qtn
from quimb.tensor.tnag.compress import tensor_network_ag_compress

bad = False


def report(label, lib, ref):
    global bad
    err = abs(lib - ref) / abs(ref)
    print(f"{label}: library = {lib:.10g}   reference = {ref:.10g}   rel.err = {err:.3g}")
    if err > 1e-6:
        bad = True


# (a) 3D boundary contraction down to a single plane (max_separation=0)
for dims, seed in (((2, 2, 2), 2), ((3, 2, 2), 2), ((4, 2, 2), 2)):
    tn = qtn.TN3D_rand(*dims, 2, seed=seed, dist="normal")
    ref = float(ref_value(tn))
    for mode in ("l2bp3d", "l2bp"):
        lib = tn.contract_boundary(
            mode=mode, max_bond=4096, cutoff=0.0, sequence=["xmin"], max_separation=0
        )
        report(f"TN3D{dims} contract_boundary(mode={mode!r}, max_separation=0)", lib, ref)
    ctl = tn.contract_boundary(
        mode="projector3d", max_bond=4096, cutoff=0.0, sequence=["xmin"], max_separation=0
    )
    assert abs(ctl / ref - 1) < 1e-8  # same call, other mode: exact

# (b) periodic 2D lattice, boundary contraction down to a single row
tn = qtn.TN2D_rand(4, 4, 2, seed=2, cyclic=True, dist="normal")
ref = float(ref_value(tn))
lib = tn.contract_boundary(
    mode="l2bp", max_bond=4096, cutoff=0.0, sequence=["ymin"], max_separation=0
)
report("TN2D(4x4, cyclic) contract_boundary(mode='l2bp', max_separation=0)", lib, ref)

# (c) the arbitrary-geometry compressor itself on a closed two-layer network
norm = qtn.PEPS.rand(2, 3, 2, seed=10).make_norm()
ref = float(ref_value(norm))
c = tensor_network_ag_compress(norm, max_bond=10**6, cutoff=0.0, method="l2bp")
report("tensor_network_ag_compress(<psi|psi> 2x3, method='l2bp', max_bond=1e6, cutoff=0)",
       float(ref_value(c)), ref)

print("VIOLATION" if bad else "ok")
sys.exit(1 if bad else 0)
