import sys
import warnings
from collections import Counter

import numpy as np

warnings.filterwarnings("ignore")


def dense_contract(arrays, inds_list, output):
    """Independent reference: greedy pairwise contraction, two-operand
    np.einsum only (no quimb / cotengra contraction machinery)."""
    ts = [(np.asarray(a), tuple(i)) for a, i in zip(arrays, inds_list)]
    output = tuple(output)
    if not ts:
        return np.array(1.0)
    while len(ts) > 1:
        cnt = Counter(ix for _, inds in ts for ix in set(inds))
        best = None
        for p in range(len(ts)):
            ap, ip = ts[p]
            sp = set(ip)
            for q in range(p + 1, len(ts)):
                aq, iq = ts[q]
                shared = sp & set(iq)
                if not shared and best is not None:
                    continue
                union = list(dict.fromkeys(ip + iq))
                keep = [
                    ix
                    for ix in union
                    if (ix in output) or cnt[ix] > ((ix in sp) + (ix in iq))
                ]
                dims = {**dict(zip(iq, aq.shape)), **dict(zip(ip, ap.shape))}
                size = 1
                for ix in keep:
                    size *= dims[ix]
                score = (0 if shared else 1, size - ap.size - aq.size)
                if best is None or score < best[0]:
                    best = (score, p, q, keep)
        _, p, q, keep = best
        (ap, ip), (aq, iq) = ts[p], ts[q]
        sym = {}
        lab = lambda ix: sym.setdefault(ix, len(sym))
        new = np.einsum(
            ap, [lab(i) for i in ip], aq, [lab(i) for i in iq], [lab(i) for i in keep]
        )
        ts = [t for k, t in enumerate(ts) if k not in (p, q)] + [(new, tuple(keep))]
    a, inds = ts[0]
    sym = {ix: k for k, ix in enumerate(inds)}
    return np.einsum(a, [sym[i] for i in inds], [sym[i] for i in output])


def ref_value(tn, output_inds=None):
    """value denoted by a quimb tensor network: raw arrays + labels + stored exponent"""
    if output_inds is None:
        output_inds = tn.outer_inds()
    v = dense_contract(
        [t.data for t in tn.tensors], [t.inds for t in tn.tensors], output_inds
    )
    return v * 10.0 ** float(np.real(tn.exponent))


# finding 1: compute_{x,y}_environments(dense=True, equalize_norms=...) returns
# environments that are inconsistent with the rows they exclude.
import quimb.tensor as qtn

tn = qtn.TN2D_rand(4, 3, 2, seed=1, dist="normal")
ref = float(ref_value(tn))

bad = False
for eq in (1.0, True):
    envs = tn.compute_x_environments(dense=True, equalize_norms=eq)
    for i in range(tn.Lx):
        whole = envs["xmin", i] | tn.select(tn.x_tag(i)) | envs["xmax", i]
        lib = float(ref_value(whole))  # env | row | env, exponent included
        print(
            f"equalize_norms={eq!r} row {i}: library (env|row|env) = {lib:.10g}   "
            f"reference (whole network) = {ref:.10g}   ratio = {lib / ref:.6g}"
        )
        if abs(lib / ref - 1) > 1e-8:
            bad = True

# control: the same call without dense is consistent
envs = tn.compute_x_environments(dense=False, equalize_norms=1.0)
for i in range(tn.Lx):
    whole = envs["xmin", i] | tn.select(tn.x_tag(i)) | envs["xmax", i]
    assert abs(float(ref_value(whole)) / ref - 1) < 1e-8

print("VIOLATION" if bad else "ok")
sys.exit(1 if bad else 0)
