# finding 7 (cap clause, lower confidence): on a lattice that is periodic
# along the boundary, the default mode="mps" of contract_boundary /
# contract_boundary_from never compresses the bond that closes the boundary
# ring: it grows as D**k with the number of absorbed rows and ends up far above
# max_bond, while every other mode ("dm", "zipup", "projector", ...) handed
# the same call returns a boundary that obeys the cap.
import sys
import warnings

import numpy as np

warnings.filterwarnings("ignore")
import quimb.tensor as qtn

chi = 3
tn = qtn.TN2D_rand(5, 5, 2, seed=7, cyclic=(False, True), dist="normal")


def worst_pair_bond(r):
    """largest total bond (product of the sizes of all shared indices) between
    two tensors that both belong to the contracted boundary"""
    worst, where = 0, None
    seen = set()
    for ix in r.inner_inds():
        tids = tuple(sorted(r.ind_map[ix]))
        if len(tids) != 2 or tids in seen:
            continue
        seen.add(tids)
        ta, tb = (r.tensor_map[t] for t in tids)
        sites_a = [t for t in ta.tags if t.startswith("I")]
        sites_b = [t for t in tb.tags if t.startswith("I")]
        if len(sites_a) < 2 or len(sites_b) < 2:
            continue  # not both boundary tensors
        size = int(np.prod([ta.ind_size(i) for i in ta.inds if i in tb.inds]))
        if size > worst:
            worst, where = size, (sorted(sites_a)[-1], sorted(sites_b)[-1])
    return worst, where


bad = False
for mode in ("mps", "dm", "zipup", "direct", "projector", "local-late"):
    r = tn.contract_boundary(
        max_bond=chi, cutoff=0.0, mode=mode, sequence=["xmin"], final_contract=False
    )
    worst, where = worst_pair_bond(r)
    print(f"mode={mode:11s}: largest bond inside the returned boundary = {worst:3d} "
          f"(cap max_bond = {chi}) between {where}")
    if worst > chi:
        bad = True

print("VIOLATION" if bad else "ok")
sys.exit(1 if bad else 0)
