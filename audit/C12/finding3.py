import sys
import warnings
from collections import Counter

import numpy as np

warnings.filterwarnings("ignore")


def dense_contract(arrays, inds_list, output):
    """Independent reference: greedy pairwise contraction, two-operand
    np.einsum only (no quimb / cotengra contraction machinery)."""
    ts = [(np.asarray(a), tuple(i)) for a, i in zip(arrays, inds_list)]
    output = tuple(output)
    if not ts:
        return np.array(1.0)
    while len(ts) > 1:
        cnt = Counter(ix for _, inds in ts for ix in set(inds))
        best = None
        for p in range(len(ts)):
            ap, ip = ts[p]
            sp = set(ip)
            for q in range(p + 1, len(ts)):
                aq, iq = ts[q]
                shared = sp & set(iq)
                if not shared and best is not None:
                    continue
                union = list(dict.fromkeys(ip + iq))
                keep = [
                    ix
                    for ix in union
                    if (ix in output) or cnt[ix] > ((ix in sp) + (ix in iq))
                ]
                dims = {**dict(zip(iq, aq.shape)), **dict(zip(ip, ap.shape))}
                size = 1
                for ix in keep:
                    size *= dims[ix]
                score = (0 if shared else 1, size - ap.size - aq.size)
                if best is None or score < best[0]:
                    best = (score, p, q, keep)
        _, p, q, keep = best
        (ap, ip), (aq, iq) = ts[p], ts[q]
        sym = {}
        lab = lambda ix: sym.setdefault(ix, len(sym))
        new = np.einsum(
            ap, [lab(i) for i in ip], aq, [lab(i) for i in iq], [lab(i) for i in keep]
        )
        ts = [t for k, t in enumerate(ts) if k not in (p, q)] + [(new, tuple(keep))]
    a, inds = ts[0]
    sym = {ix: k for k, ix in enumerate(inds)}
    return np.einsum(a, [sym[i] for i in inds], [sym[i] for i in output])


def ref_value(tn, output_inds=None):
    """value denoted by a quimb tensor network: raw arrays + labels + stored exponent"""
    if output_inds is None:
        output_inds = tn.outer_inds()
    v = dense_contract(
        [t.data for t in tn.tensors], [t.inds for t in tn.tensors], output_inds
    )
    return v * 10.0 ** float(np.real(tn.exponent))


# finding 3: the row/column/plaquette environment builders with
# mode="projector2d" hand back environments whose tensors were rewired *after*
# they were stored: the stored environment no longer connects to the row it
# is the environment of (dangling indices), so env | row | env does not denote
# the (scalar) whole; compute_local_expectation silently returns a 16-index
# Tensor instead of a number.
import quimb as qu
import quimb.tensor as qtn

bad = False
tn = qtn.TN2D_rand(4, 3, 2, seed=3, dist="normal")
ref = float(ref_value(tn))

# direct boundary contraction in this mode is fine (control):
ctl = tn.contract_boundary(mode="projector2d", max_bond=64, cutoff=0.0)
print(f"control contract_boundary(mode='projector2d'): {ctl:.10g}  reference: {ref:.10g}")
assert abs(ctl / ref - 1) < 1e-8

envs = tn.compute_x_environments(mode="projector2d", max_bond=64, cutoff=0.0)
for i in range(tn.Lx):
    whole = envs["xmin", i] | tn.select(tn.x_tag(i)) | envs["xmax", i]
    out = whole.outer_inds()
    lib = ref_value(whole)
    print(
        f"row {i}: env|row|env has {len(out)} dangling indices, library value shape "
        f"{np.shape(lib)} (reference: scalar {ref:.8g})"
        + ("" if out else f", value {float(lib):.8g}")
    )
    if out or abs(float(lib) / ref - 1) > 1e-8:
        bad = True

# same call with the (documented) default mode is consistent:
envs = tn.compute_x_environments(mode="mps", max_bond=64, cutoff=0.0)
for i in range(tn.Lx):
    whole = envs["xmin", i] | tn.select(tn.x_tag(i)) | envs["xmax", i]
    assert not whole.outer_inds() and abs(float(ref_value(whole)) / ref - 1) < 1e-8

# downstream: local expectation
ps = qtn.PEPS.rand(3, 3, 2, seed=5)
terms = {(1, 1): qu.pauli("Z")}
e_ref = ps.compute_local_expectation(terms, max_bond=64, cutoff=0.0, mode="mps", normalized=True)
e_lib = ps.compute_local_expectation(terms, max_bond=64, cutoff=0.0, mode="projector2d", normalized=True)
print("compute_local_expectation mode='mps'        ->", e_ref)
print("compute_local_expectation mode='projector2d' ->", type(e_lib).__name__, getattr(e_lib, "shape", ""))
if not np.isscalar(e_lib) and getattr(e_lib, "shape", ()) != ():
    bad = True

print("VIOLATION" if bad else "ok")
sys.exit(1 if bad else 0)
