# finding 8 (minor, not a wrong number): TensorNetwork3D.contract_boundary_from
# returns None for every mode, also for inplace=False where the contracted
# copy is the only product of the call and is thrown away.  (The 2D method of
# the same name returns the network.)
import sys
import warnings

warnings.filterwarnings("ignore")
import quimb.tensor as qtn

bad = False
tn2 = qtn.TN2D_rand(3, 3, 2, seed=1)
r2 = tn2.contract_boundary_from((0, 1), (0, 2), "xmin", max_bond=8)
print("2D contract_boundary_from(...)            ->", type(r2).__name__)

tn3 = qtn.TN3D_rand(3, 3, 3, 2, seed=1)
for mode in ("peps", "projector3d", "l2bp3d", "projector"):
    r3 = tn3.contract_boundary_from((0, 1), (0, 2), (0, 2), "xmin", max_bond=8, mode=mode)
    print(f"3D contract_boundary_from(..., mode={mode!r}) -> {type(r3).__name__}   (reference: a TensorNetwork3D)")
    if r3 is None:
        bad = True

print("VIOLATION" if bad else "ok")
sys.exit(1 if bad else 0)
