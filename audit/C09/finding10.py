"""MatrixProductOperator.fill_empty_sites on an MPO whose present sites are not
joined by a bond: the loop `for k in range(si, sj - 1)` is off by one, the last
filled site stays disconnected and a long-range bond is created, although the
method promises nearest-neighbour bonds only (dense value is still right)."""
import sys
import warnings
import numpy as np
import quimb.tensor as qtn

warnings.filterwarnings("ignore")
rng = np.random.default_rng(0)
L, sites = 4, (0, 3)
ops = [rng.normal(size=(2, 2)) for _ in sites]
# product operator on sites 0 and 3 without any bond (e.g. after squeeze)
A = qtn.MPO_product_operator(ops, sites=sites, L=L)
A.squeeze_()
print("input bonds:", [ix for ix, tids in A.ind_map.items() if len(tids) == 2])

F = A.fill_empty_sites("full")
bonds = []
for ix, tids in F.ind_map.items():
    if len(tids) == 2:
        s = sorted(int(next(t for t in F.tensor_map[tid].tags if t.startswith("I"))[1:]) for tid in tids)
        bonds.append(tuple(s))
bonds.sort()
ref_bonds = [(i, i + 1) for i in range(L - 1)]
print("library bonds between sites  :", bonds)
print("reference (nearest neighbour):", ref_bonds)
dense_ok = np.allclose(np.asarray(F.to_dense()), np.kron(np.kron(ops[0], np.eye(4)), ops[1]))
print("dense value correct:", dense_ok)

ok = bonds == ref_bonds
print("AGREE" if ok else "DIFFER")
sys.exit(0 if ok else 1)
