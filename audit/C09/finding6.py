"""MPS-specific queries drop the stored `exponent` (the state is
10**exponent * tensors), while the generic ones honour it.  Such an exponent is
produced by the library itself, e.g. tensor_network_1d_compress(...,
equalize_norms=1.0)."""
import sys
import warnings
import numpy as np
import quimb as qu
import quimb.tensor as qtn

warnings.filterwarnings("ignore")
L = 4
psi0 = qtn.MPS_rand_state(L, 3, seed=1, normalize=False) * 3.0
psi = qtn.tensor_network_1d_compress(psi0, method="direct", cutoff=0.0, equalize_norms=1.0)
v = np.asarray(psi.to_dense()).ravel()
print("exponent left by the compression:", psi.exponent)
print("compressed state == input state :", np.allclose(v, np.asarray(psi0.to_dense()).ravel()))

Z = np.diag([1.0, -1.0])
full = np.kron(np.kron(np.eye(2), Z), np.eye(4))       # Z on site 1
ref_expec = v.conj() @ full @ v                          # unnormalised <psi|Z_1|psi>

res = {}
res["local_expectation_exact   (generic)"] = psi.local_expectation_exact(Z, (1,), normalized=False)
res["local_expectation_canonical"] = psi.copy().local_expectation_canonical(Z, (1,), normalized=False)
res["compute_local_expectation envs"] = psi.compute_local_expectation({(1,): Z}, normalized=False, method="envs")
res["compute_local_expectation canonical"] = psi.compute_local_expectation({(1,): Z}, normalized=False, method="canonical")
ok = True
print("reference <psi|Z_1|psi> =", ref_expec)
for k, x in res.items():
    good = abs(x - ref_expec) < 1e-8 * abs(ref_expec)
    print(f"  {k:38s} = {x:.10f}  {'ok' if good else 'WRONG'}")
    if "generic" not in k:
        ok &= good

# singular values across the middle cut
s_lib = np.sort(np.asarray(psi.copy().singular_values(2)))[::-1]
s_ref = np.linalg.svd(v.reshape(4, 4), compute_uv=False)
print("singular_values(2) library  :", s_lib)
print("singular values   reference :", s_ref[: len(s_lib)])
ok &= np.allclose(s_lib, s_ref[: len(s_lib)])

# normalize=True of the canonicalization
c = psi.right_canonicalize(normalize=True)
n_lib = abs(c.H @ c)
print("norm^2 after right_canonicalize(normalize=True): library", n_lib, " reference 1.0")
ok &= abs(n_lib - 1) < 1e-8

print("AGREE" if ok else "DIFFER")
sys.exit(0 if ok else 1)
