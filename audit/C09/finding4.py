"""All 'fit' flavours of tensor_network_1d_compress with inplace=True count the
exponent of the input network twice: the emptied input keeps its exponent and
add_tensor_network adds the (equal) exponent of the fitted network again."""
import sys
import warnings
import numpy as np
import quimb.tensor as qtn

warnings.filterwarnings("ignore")
L = 4
ok = True
for method in ["fit", "fit-zipup", "fit-oversample"]:
    psi = qtn.MPS_rand_state(L, 2, seed=1)
    psi.exponent = 0.5                       # psi represents 10**0.5 * (tensors)
    ref = np.asarray(psi.to_dense()).ravel().copy()

    not_inplace = qtn.tensor_network_1d_compress(
        psi, method=method, max_bond=8, cutoff=0.0, seed=3, inplace=False)
    e0 = np.linalg.norm(np.asarray(not_inplace.to_dense()).ravel() - ref) / np.linalg.norm(ref)

    out = qtn.tensor_network_1d_compress(
        psi, method=method, max_bond=8, cutoff=0.0, seed=3, inplace=True)
    lib = np.asarray(out.to_dense()).ravel()
    e1 = np.linalg.norm(lib - ref) / np.linalg.norm(ref)
    print(f"{method:15s} inplace=False rel.err={e0:.2e}   inplace=True rel.err={e1:.6f}"
          f"   exponent={out.exponent}  |lib|/|ref|={np.linalg.norm(lib)/np.linalg.norm(ref):.6f}")
    ok &= (e0 < 1e-8) and (e1 < 1e-8)

print("AGREE" if ok else "DIFFER")
sys.exit(0 if ok else 1)
