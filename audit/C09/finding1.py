"""MatrixProductState(arrays, sites=..., L=...) sets L = len(arrays) instead of
the requested L, so sites >= len(arrays) are treated as absent: to_dense()
silently sums over their physical indices."""
import sys
import numpy as np
import quimb.tensor as qtn

rng = np.random.default_rng(0)
# a 3-site sub-MPS living on sites 1, 3, 4 of a 6-site register
a0 = rng.normal(size=(2, 2))      # (r, p)
a1 = rng.normal(size=(2, 3, 2))   # (l, r, p)
a2 = rng.normal(size=(3, 2))      # (l, p)
mps = qtn.MatrixProductState([a0, a1, a2], sites=[1, 3, 4], L=6)

# independent reference: contract the three arrays
ref = np.einsum("ap,abq,br->pqr", a0, a1, a2).reshape(-1)

lib = np.asarray(mps.to_dense()).reshape(-1)
print("library  L        :", mps.L, " (requested 6)")
print("library  sites    :", list(mps.gen_sites_present()), " (tensors tagged", sorted(mps.tags), ")")
print("library  to_dense :", lib.shape, lib[:4])
print("reference vector  :", ref.shape, ref[:4])

ok = (mps.L == 6) and lib.shape == ref.shape and np.allclose(lib, ref)
print("AGREE" if ok else "DIFFER")
sys.exit(0 if ok else 1)
