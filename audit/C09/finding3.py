"""tensor_network_1d_compress(method='fit') ignores the stored exponents
whenever their average is exactly zero: (a) a sum of two networks with
exponents +1 and -1, (b) a single target with exponent 0 and an initial guess
`tn_fit` that carries a non-zero exponent."""
import sys
import warnings
import numpy as np
import quimb.tensor as qtn

warnings.filterwarnings("ignore")
L = 5
a = qtn.MPS_rand_state(L, 2, seed=1, normalize=False)
b = qtn.MPS_rand_state(L, 2, seed=2, normalize=False)
va = np.asarray(a.to_dense()).ravel()
vb = np.asarray(b.to_dense()).ravel()

# (a) sum with exponents +1 / -1
a1, b1 = a.copy(), b.copy()
a1.exponent = 1.0    # represents 10 * a
b1.exponent = -1.0   # represents 0.1 * b
ref = 10.0 * va + 0.1 * vb
out = qtn.tensor_network_1d_compress(
    [a1, b1], method="fit", max_bond=8, cutoff=0.0, seed=7, max_iterations=6
)
lib = np.asarray(out.to_dense()).ravel()
err_a = np.linalg.norm(lib - ref) / np.linalg.norm(ref)
print("(a) sum, exponents (+1,-1): rel. error library vs dense =", err_a)
print("    library[:3]  ", lib[:3])
print("    reference[:3]", ref[:3])

# control: exponents (+1, 0) are handled fine
a2, b2 = a.copy(), b.copy()
a2.exponent = 1.0
out = qtn.tensor_network_1d_compress(
    [a2, b2], method="fit", max_bond=8, cutoff=0.0, seed=7, max_iterations=6
)
ctl = np.linalg.norm(np.asarray(out.to_dense()).ravel() - (10 * va + vb)) / np.linalg.norm(10 * va + vb)
print("    control exponents (+1,0): rel. error =", ctl)

# (b) guess carrying an exponent
guess = qtn.MPS_rand_state(L, 4, seed=3)
guess.exponent = 0.5
out = qtn.tensor_network_1d_compress(
    a, method="fit", max_bond=4, cutoff=0.0, tn_fit=guess, max_iterations=6
)
lib_b = np.asarray(out.to_dense()).ravel()
err_b = np.linalg.norm(lib_b - va) / np.linalg.norm(va)
print("(b) guess with exponent 0.5: rel. error library vs dense =", err_b,
      "(10**0.5 - 1 = %.6f)" % (10**0.5 - 1))

ok = err_a < 1e-8 and err_b < 1e-8
print("AGREE" if ok else "DIFFER")
sys.exit(0 if ok else 1)
