"""MPO_identity(L, sites=...) ignores L (the MPO gets L = max(sites)+1), and
MPO_identity_like / mpo.identity() / MPO_zeros_like use the physical dimension
of the first site for every site, so for site-dependent dimensions they return
an operator of the wrong size."""
import sys
import warnings
import numpy as np
import quimb.tensor as qtn

warnings.filterwarnings("ignore")
ok = True

I = qtn.MPO_identity(6, sites=[1, 3])
full = I.fill_empty_sites("full")
print("MPO_identity(6, sites=[1,3]).L : library", I.L, " reference 6")
print("  fill_empty_sites('full') -> tensors: library", full.num_tensors, " reference 6")
ok &= I.L == 6 and full.num_tensors == 6

A = qtn.MPO_rand(3, 2, phys_dim=[2, 3], seed=1)      # dims (2, 3, 2)
dims = [A.phys_dim(i) for i in range(3)]
D = int(np.prod(dims))
Id = np.asarray(A.identity().to_dense())
Zd = np.asarray(qtn.MPO_zeros_like(A).to_dense())
print("A phys dims", dims, " A.to_dense shape", np.asarray(A.to_dense()).shape)
print("A.identity().to_dense() shape : library", Id.shape, " reference", (D, D))
print("MPO_zeros_like(A) shape       : library", Zd.shape, " reference", (D, D))
ok &= Id.shape == (D, D) and Zd.shape == (D, D)

print("AGREE" if ok else "DIFFER")
sys.exit(0 if ok else 1)
