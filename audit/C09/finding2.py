"""MatrixProductOperator.from_fill_fn(..., sites=subset) (and hence
MPO_rand(L, D, sites=subset)) gives the last present site a dangling right
bond, because the 'r' test uses the total length L instead of the number of
present sites.  to_dense() silently sums over that dangling index."""
import sys
import numpy as np
import quimb.tensor as qtn

L, D, sites = 6, 2, [1, 3]
mpo = qtn.MatrixProductOperator.from_fill_fn(
    lambda shape: np.ones(shape), L=L, bond_dim=D, sites=sites
)
outer = set(mpo.outer_inds())
expected_outer = {f"k{s}" for s in sites} | {f"b{s}" for s in sites}
lib = np.asarray(mpo.to_dense())

# reference: two all-ones tensors joined by one bond of size D
t0 = np.ones((D, 2, 2))  # (r, u, d)
t1 = np.ones((D, 2, 2))  # (l, u, d)
ref = np.einsum("aud,avw->uvdw", t0, t1).reshape(4, 4)

print("library outer inds :", sorted(outer))
print("expected outer inds:", sorted(expected_outer))
print("library to_dense[0,0]  :", lib[0, 0])
print("reference to_dense[0,0]:", ref[0, 0])

# same thing through the public random generator
r = qtn.MPO_rand(L, D, sites=sites, seed=1, normalize=False)
print("MPO_rand(sites=...) outer inds:", sorted(r.outer_inds()))

ok = (outer == expected_outer) and np.allclose(lib, ref) and set(r.outer_inds()) == expected_outer
print("AGREE" if ok else "DIFFER")
sys.exit(0 if ok else 1)
