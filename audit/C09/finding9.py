"""SpinHam1D: a bond-specific term registered with the two sites in descending
order, builder[j, i] with j = i + 1, passes the nearest-neighbour check (which
sorts the pair) but is stored under the unsorted key and then silently ignored
by build_mpo / build_sparse."""
import sys
import warnings
import numpy as np
import quimb as qu
import quimb.tensor as qtn

warnings.filterwarnings("ignore")
L = 4
X = np.asarray(qu.spin_operator("X"))
Z = np.asarray(qu.spin_operator("Z"))
I = np.eye(2)

def kron(*ops):
    out = np.eye(1)
    for o in ops:
        out = np.kron(out, o)
    return out

b = qtn.SpinHam1D(S=1 / 2)
b += 1.0, "Z", "Z"
b[2, 1] += 5.0, "X", "X"          # bond (1, 2) gets an XX coupling instead of ZZ

lib = np.asarray(b.build_mpo(L).to_dense())
ref = kron(Z, Z, I, I) + 5.0 * kron(I, X, X, I) + kron(I, I, Z, Z)
plain = kron(Z, Z, I, I) + kron(I, Z, Z, I) + kron(I, I, Z, Z)

b2 = qtn.SpinHam1D(S=1 / 2)
b2 += 1.0, "Z", "Z"
b2[1, 2] += 5.0, "X", "X"
print("ascending key  builder[1,2]: |mpo - reference| =", np.linalg.norm(np.asarray(b2.build_mpo(L).to_dense()) - ref))
print("descending key builder[2,1]: |mpo - reference| =", np.linalg.norm(lib - ref))
print("descending key builder[2,1]: |mpo - (term dropped)| =", np.linalg.norm(lib - plain))
print("build_sparse same           :", np.linalg.norm(b.build_sparse(L).toarray() - plain))

ok = np.allclose(lib, ref)
print("AGREE" if ok else "DIFFER")
sys.exit(0 if ok else 1)
