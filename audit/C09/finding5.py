"""Scalar multiplication of a tensor network by a numpy zero gives NaN instead
of the zero state (python 0.0 raises ZeroDivisionError): multiply() computes
sign = x / abs(x)."""
import sys
import warnings
import numpy as np
import quimb.tensor as qtn

warnings.filterwarnings("ignore")
psi = qtn.MPS_rand_state(4, 2, seed=1)
v = np.asarray(psi.to_dense()).ravel()

coeffs = np.array([0.5, -0.5])
c = coeffs.sum()               # numpy float64 zero, e.g. an expansion coefficient
lib = np.asarray((psi * c).to_dense()).ravel()
ref = c * v
print("library  (psi * np.float64(0))[:4]:", lib[:4])
print("reference                    [:4]:", ref[:4])

A = qtn.MPO_rand(3, 2, seed=2)
libA = np.asarray((A * np.float64(0.0)).to_dense())
print("library  (MPO * 0).max():", np.abs(libA).max() if not np.isnan(libA).any() else "nan")

try:
    psi * 0.0
    print("python float zero: no exception")
except ZeroDivisionError as e:
    print("python float zero raises:", repr(e))

ok = np.allclose(lib, ref) and np.allclose(libA, 0.0)
print("AGREE" if ok else "DIFFER")
sys.exit(0 if ok else 1)
