"""MPO_ham_bilinear_biquadratic (and ham_1d_bilinear_biquadratic, same builder)
does not build  sum_i cos(t) S_i.S_{i+1} + sin(t) (S_i.S_{i+1})^2 : the
biquadratic part is built as sum_{a,b} (S^a)^2 (x) (S^b)^2 instead of
sum_{a,b} S^a S^b (x) S^a S^b.  For S=1, theta=pi/2 the library operator is a
multiple of the identity."""
import sys
import warnings
import numpy as np
import quimb as qu
from quimb.tensor.tensor_builder import MPO_ham_bilinear_biquadratic

warnings.filterwarnings("ignore")
S, L, theta = 1.0, 3, 0.7
d = int(2 * S + 1)
ops = [np.asarray(qu.spin_operator(x, S=S)) for x in "XYZ"]
SS = sum(np.kron(o, o) for o in ops)                # S_i . S_j
h2 = np.cos(theta) * SS + np.sin(theta) * SS @ SS   # documented two-site term
I = np.eye(d)
ref = np.kron(h2, I) + np.kron(I, h2)

lib = np.asarray(MPO_ham_bilinear_biquadratic(L, theta, S=S).to_dense())
err = np.linalg.norm(lib - ref) / np.linalg.norm(ref)
print("spectrum library  :", np.round(np.linalg.eigvalsh(lib)[:5], 6))
print("spectrum reference:", np.round(np.linalg.eigvalsh(ref)[:5], 6))
print("relative difference library vs reference:", err)

# what the library actually builds
sq = [o @ o for o in ops]
wrong2 = np.cos(theta) * SS + np.sin(theta) * sum(np.kron(a, b) for a in sq for b in sq)
wrong = np.kron(wrong2, I) + np.kron(I, wrong2)
print("difference to sum_ab (S^a)^2 (S^b)^2 formula:", np.linalg.norm(lib - wrong) / np.linalg.norm(wrong))

# theta = 0 (pure Heisenberg) agrees
lib0 = np.asarray(MPO_ham_bilinear_biquadratic(L, 0.0, S=S).to_dense())
ref0 = np.kron(SS, I) + np.kron(I, SS)
print("theta=0 control:", np.linalg.norm(lib0 - ref0))

ok = err < 1e-8
print("AGREE" if ok else "DIFFER")
sys.exit(0 if ok else 1)
