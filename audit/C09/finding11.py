"""Dense1D.rand(n, phys_dim=d) drops phys_dim when constructing the object, so
for d a power of two it silently returns a qubit register of the wrong length
(for other d it raises); MPS_w_state(1) returns a two-site state."""
import sys
import warnings
import numpy as np
import quimb.tensor as qtn

warnings.filterwarnings("ignore")
ok = True
d1 = qtn.Dense1D.rand(2, phys_dim=4)
print("Dense1D.rand(2, phys_dim=4): library L =", d1.L, "site dims", [d1.ind_size(ix) for ix in d1.site_inds],
      "  reference L = 2, dims [4, 4]")
ok &= d1.L == 2

w = qtn.MPS_w_state(1)
print("MPS_w_state(1): library L =", w.L, " dense", np.asarray(w.to_dense()).ravel(), "  reference L = 1, dense [0, 1]")
ok &= w.L == 1

print("AGREE" if ok else "DIFFER")
sys.exit(0 if ok else 1)
