"""C16 finding 1: threaded csr mat-vec is wrong for every non-square matrix.

`quimb.core.par_dot_csr_matvec(A, x)` allocates the output with `x.size`
entries (the number of COLUMNS of A) and loops over `range(x.size)` rows, so
for an (m x n) csr matrix with m != n it returns a length-n vector instead of
the length-m vector `A @ x`:

* m > n : rows n..m-1 of the product are silently dropped,
* m < n : `indptr[i + 1]` is read out of bounds (garbage values / segfault) -
  NOT exercised here, to keep this script safe to run.

quimb monkey-patches `scipy.sparse.csr_matrix._matmul_vector` at import, so
with more than one thread worker (the default on any multi-core machine; forced
here with QUIMB_NUM_THREAD_WORKERS=2) plain `A @ x` / `A.dot(x)` / `qu.dot(A, x)`
of ANY rectangular csr matrix with nnz > 50000 silently returns the truncated
vector.  The single threaded form (scipy's own kernel, used when
_NUM_THREAD_WORKERS == 1 or nnz <= 50000) returns the right answer.

Exit code 1 when the library value differs from the reference.
"""

import os
import sys

os.environ["QUIMB_NUM_THREAD_WORKERS"] = "2"  # public quimb setting, read at import

import numpy as np
import scipy.sparse as sp

import quimb as qu
from quimb import core

print("quimb from:", qu.__file__, "| thread workers:", core._NUM_THREAD_WORKERS)

rng = np.random.default_rng(0)
bad = False

# ---- (a) direct call, any size / thread count ---------------------------
m, n = 30, 20
A = sp.random(m, n, density=0.3, format="csr", random_state=1)
x = rng.standard_normal(n)
ref = A.toarray() @ x
for nt in (1, 2, 3):
    y = core.par_dot_csr_matvec(A, x, num_threads=nt)
    ok = (y.shape == ref.shape) and np.allclose(y, ref)
    print(
        f"par_dot_csr_matvec  A:{A.shape} num_threads={nt}: "
        f"library shape {y.shape}, reference shape {ref.shape} -> "
        f"{'ok' if ok else 'WRONG'}"
    )
    bad |= not ok

# ---- (b) the public operator path: A @ x ----------------------------------
m, n = 3000, 2000
A = sp.random(m, n, density=0.02, format="csr", random_state=2)  # nnz = 120000
x = rng.standard_normal(n)
ref = A.toarray() @ x
for name, f in [
    ("A @ x", lambda: A @ x),
    ("A.dot(x)", lambda: A.dot(x)),
    ("qu.dot(A, x)", lambda: qu.dot(A, x)),
]:
    y = np.asarray(f())
    ok = (y.shape == ref.shape) and np.allclose(y, ref)
    print(
        f"{name:13s} A:{A.shape} nnz={A.nnz}: library shape {y.shape}, "
        f"reference shape {ref.shape} -> {'ok' if ok else 'WRONG'}"
    )
    bad |= not ok

# same matrix just under the dispatch threshold -> scipy's serial kernel
B = sp.random(m, n, density=0.008, format="csr", random_state=3)  # nnz = 48000
yb = B @ x
print(
    f"A @ x (serial, nnz={B.nnz}): library shape {yb.shape}, "
    f"reference shape {(B.toarray() @ x).shape}"
)

sys.exit(1 if bad else 0)
