"""C16 finding 4: an error inside a worker thread is swallowed - the threaded
form returns uninitialised / untouched memory where the single-call form of
the very same routine raises.

`quimb.core.maybe_multithread` only does `cf.wait(futures)` and
`quimb.gen.rand.randn` only `wait(fs)`; neither ever calls `.result()` /
`.exception()`, so anything raised by the kernel in the pool is lost and the
`np.empty(...)` output buffer (or the un-modified in-place operand) is handed
back.  Which behaviour you get depends only on problem size / thread count:

  size <= target_block_size  (direct call)  -> exception
  size >  target_block_size  (thread pool)  -> silent garbage

(The special case "zero blocks -> ZeroDivisionError" was patched in
threading_choose_num_blocks, but the swallowing itself is still there.)

Three independent demonstrations, all with default options:

  A. randn(d, dist=<typo>)           num_threads=1 raises, num_threads=2 returns junk
  B. complex_array(x2d, y2d)         100 elements raises, 40000 elements returns junk
  C. subtract_update_(Xreal, 1j, Y)  10 elements raises, 40000 elements silently no-op

Exit code 1 when a threaded call neither raises nor returns the numpy value.
"""

import sys

import numpy as np

import quimb as qu
from quimb import core

print("quimb from:", qu.__file__)
rng = np.random.default_rng(0)
bad = False


def attempt(f):
    try:
        return "returned", f()
    except Exception as e:  # noqa
        return "raised " + type(e).__name__, None


# ---- A: randn with an unknown distribution name ---------------------------
sa, _ = attempt(lambda: qu.randn(100000, dist="gaussian", num_threads=1))
sb, vb = attempt(lambda: qu.randn(100000, dist="gaussian", num_threads=2))
print(f"A randn(dist='gaussian') num_threads=1: {sa}")
print(f"A randn(dist='gaussian') num_threads=2: {sb}", "" if vb is None else f"first values {vb[:3]}, std {np.std(vb):.3g} (reference: an exception, as serial)")
bad |= sb == "returned"

# ---- B: complex_array on 2-d input ------------------------------------------
for shape in [(10, 10), (200, 200)]:
    x = rng.standard_normal(shape)
    y = rng.standard_normal(shape)
    ref = x + 1j * y
    s, z = attempt(lambda: core.complex_array(x, y))
    if z is None:
        print(f"B complex_array {shape}: {s}")
    else:
        ok = z.size == ref.size and np.allclose(np.reshape(z, shape), ref)
        print(
            f"B complex_array {shape}: {s}, library[:2] = {np.ravel(z)[:2]}, "
            f"reference[:2] = {np.ravel(ref)[:2]} -> {'ok' if ok else 'WRONG'}"
        )
        bad |= not ok

# ---- C: in-place fused update that cannot be represented --------------------
for n in [10, 40000]:
    X = rng.standard_normal(n)
    Y = rng.standard_normal(n)
    X0 = X.copy()
    c = 0.5 + 0.5j
    s, _ = attempt(lambda: core.subtract_update_(X, c, Y))
    if s == "returned":
        ref = X0 - c * Y
        ok = np.allclose(X, ref)
        print(
            f"C subtract_update_ n={n}: {s}, library X[0] = {X[0]:.6f}, "
            f"reference (X - c*Y)[0] = {ref[0]:.6f} -> {'ok' if ok else 'WRONG (X untouched)'}"
        )
        bad |= not ok
    else:
        print(f"C subtract_update_ n={n}: {s}")

sys.exit(1 if bad else 0)
