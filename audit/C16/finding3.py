"""C16 finding 3: `kron(..., parallel=True)` / `par_reduce` never returns for
small thread counts (dead-lock) - the serial form returns immediately.

`par_reduce` runs `kron_dispatch` on pairs of operands inside the cached
thread pool (`pool.map`).  For dense operands with more than 128 result rows
`kron_dense -> maybe_multithread` then submits `num_threads` sub-tasks to THE
SAME cached pool and blocks in `cf.wait`.  As soon as `num_threads` pairs are
being reduced at once every worker is blocked waiting for sub-tasks that no
worker is left to run.

With 2 thread workers (e.g. OMP_NUM_THREADS=2) four kets of dimension >= 12
are enough; with 3 workers six such kets.

The library call is run in a daemon thread with a 20 s limit.
Exit code 1 when it hangs or differs from the numpy reference.
"""

import os
import sys
import threading
import functools

os.environ["QUIMB_NUM_THREAD_WORKERS"] = "2"  # public quimb setting, read at import

import numpy as np

import quimb as qu
from quimb import core

print("quimb from:", qu.__file__, "| thread workers:", core._NUM_THREAD_WORKERS)

rng = np.random.default_rng(0)
kets = [rng.standard_normal((12, 1)) for _ in range(4)]
ref = functools.reduce(np.kron, kets)

serial = qu.kron(*kets)
print("serial   kron: shape", serial.shape, " max|err| =", float(abs(serial - ref).max()))

res = {}


def run():
    res["v"] = qu.kron(*kets, parallel=True)


t = threading.Thread(target=run, daemon=True)
t.start()
t.join(20)
if t.is_alive():
    print("parallel kron: NO RESULT after 20 s (dead-lock);  reference shape", ref.shape)
    sys.stdout.flush()
    os._exit(1)

err = float(abs(res["v"] - ref).max())
print("parallel kron: shape", res["v"].shape, " max|err| =", err)
sys.exit(1 if err > 1e-12 else 0)
