"""C16 finding 5 (low severity): the threaded csr mat-vec computes integer
products in float32.

`par_dot_csr_matvec` allocates its output with `common_type(A, x)`, and
`common_type` only knows float32/float64/complex64/complex128 - every other
dtype (all integer types, bool) falls through to "float32".  Because quimb
replaces `scipy.sparse.csr_matrix._matmul_vector` at import, an integer csr
matrix with nnz > 50000 times an integer vector returns a rounded float32
vector as soon as there is more than one thread worker, while the
single-threaded form (scipy's kernel: 1 worker or nnz <= 50000) returns the
exact int64 result.  (int matrix @ float32 vector likewise gives float32 where
scipy gives float64.)

Exit code 1 when the library value differs from the exact reference.
"""

import os
import sys

os.environ["QUIMB_NUM_THREAD_WORKERS"] = "2"  # public quimb setting, read at import

import numpy as np
import scipy.sparse as sp

import quimb as qu
from quimb import core

print("quimb from:", qu.__file__, "| thread workers:", core._NUM_THREAD_WORKERS)

n = 4000
rng = np.random.default_rng(0)
rows = rng.integers(0, n, 60000)
cols = rng.integers(0, n, 60000)
vals = rng.integers(1, 1000, 60000)
A = sp.csr_matrix((vals, (rows, cols)), shape=(n, n), dtype=np.int64)
x = rng.integers(1, 10**6, n).astype(np.int64)

# exact reference with python-int arithmetic via object arrays / dense int64
ref = A.toarray() @ x  # dense int64 matmul, exact (values ~1e10 << 2**63)

y = A @ x
i = int(np.argmax(np.abs(ref - y.astype(np.float64))))
print(f"A @ x  (int64 csr, nnz={A.nnz}) library dtype {y.dtype}, reference dtype {ref.dtype}")
print(f"  library  y[{i}] = {int(y[i])}")
print(f"  reference y[{i}] = {int(ref[i])}")
print(f"  max |library - reference| = {np.abs(ref - y.astype(np.float64)).max():.0f}")

# serial form of the same product (below the nnz dispatch threshold, split in two halves)
A1 = A[:, : n // 2].tocsr()
A2 = A[:, n // 2 :].tocsr()
ys = A1 @ x[: n // 2] + A2 @ x[n // 2 :]
print(f"serial form (two csr halves, nnz {A1.nnz}+{A2.nnz}): dtype {ys.dtype}, exact: {np.array_equal(ys, ref)}")

ok = (y.dtype == ref.dtype) and np.array_equal(y, ref)
sys.exit(0 if ok else 1)
