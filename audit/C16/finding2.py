"""C16 finding 2: SparseOperatorBuilder.matvec(x, out=buf) - the serial and
the parallel form disagree whenever `buf` is not zero on entry.

serial   (parallel=False): the numba kernels do `out[cj] += hij * x[ci]` and
                           `out` is never cleared -> returns  buf_old + H @ x
parallel (parallel=k)    : `np.sum(out_i, axis=0, out=out)` -> returns H @ x

The docstring says `out` is "An array to store the result in", so the natural
`out=np.empty_like(x)` / a re-used work buffer gives a wrong answer in the
single-threaded form only.

Exit code 1 when serial and parallel (and the dense reference) differ.
"""

import sys

import numpy as np

import quimb as qu
from quimb.operator import SparseOperatorBuilder

print("quimb from:", qu.__file__)

n = 6
H = SparseOperatorBuilder()
for i in range(n - 1):
    H += 1.0, ("sx", i), ("sx", i + 1)
    H += 0.8, ("sy", i), ("sy", i + 1)
    H += 0.6, ("sz", i), ("sz", i + 1)
for i in range(n):
    H += -0.3, ("sz", i)

# independent dense reference
sx = np.array([[0, 0.5], [0.5, 0]], dtype=complex)
sy = np.array([[0, -0.5j], [0.5j, 0]], dtype=complex)
sz = np.array([[0.5, 0], [0, -0.5]], dtype=complex)
I2 = np.eye(2, dtype=complex)


def site_op(op, i):
    mats = [I2] * n
    mats[i] = op
    out = mats[0]
    for mth in mats[1:]:
        out = np.kron(out, mth)
    return out


A = np.zeros((2**n, 2**n), dtype=complex)
for i in range(n - 1):
    A += 1.0 * site_op(sx, i) @ site_op(sx, i + 1)
    A += 0.8 * site_op(sy, i) @ site_op(sy, i + 1)
    A += 0.6 * site_op(sz, i) @ site_op(sz, i + 1)
for i in range(n):
    A += -0.3 * site_op(sz, i)

rng = np.random.default_rng(0)
x = rng.standard_normal(2**n) + 1j * rng.standard_normal(2**n)
ref = A @ x

results = {}
for par in (False, 1, 2, 3):
    buf = np.full(2**n, 7.0 + 0.0j)  # a re-used / dirty work buffer
    y = H.matvec(x, out=buf, parallel=par)
    err = float(np.abs(y - ref).max())
    results[par] = err
    print(
        f"parallel={par!s:5s}: y[0] = {y[0]:.6f}   reference (H@x)[0] = {ref[0]:.6f}"
        f"   max|y - H@x| = {err:.3e}"
    )

bad = any(e > 1e-10 for e in results.values())
print("serial == parallel == reference:", not bad)
sys.exit(1 if bad else 0)
