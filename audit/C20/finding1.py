"""quantum_discord ignores which subsystem is 'A' and which is 'B'.

Quantum discord is asymmetric: D(A|B) (measurement performed on B) differs in
general from D(B|A).  ``quimb.quantum_discord(p, dims, sysa, sysb)`` always
measures the subsystem with the *larger index* (and for ``len(dims) == 2`` it
ignores ``sysa`` / ``sysb`` completely), so swapping ``sysa`` and ``sysb``
returns the very same number.

Test state: classical-quantum state (A classical, B quantum)
    rho = 1/2 |0><0| (x) |0><0|  +  1/2 |1><1| (x) |+><+|
for which measuring B gives a non-zero discord while measuring A gives
exactly zero.

Relabelling check: swapping the two qubits of the state *and* swapping the
labels (sysa=1, sysb=0) describes the same physical situation, so the result
must be unchanged.
"""

import sys

import numpy as np
from scipy.optimize import minimize

import quimb as qu


def entropy(r):
    w = np.linalg.eigvalsh(r)
    w = w[w > 1e-15]
    return float(-(w * np.log2(w)).sum())


def ptr2(r, keep):
    t = np.asarray(r).reshape(2, 2, 2, 2)
    if keep == 0:
        return np.einsum("ijkj->ik", t)
    return np.einsum("ijil->jl", t)


def discord_ref(rho, measured):
    """Textbook two-qubit discord, optimised over projective measurements
    on qubit ``measured`` (0 or 1), plain numpy."""
    rho = np.asarray(rho)
    other = 1 - measured
    iab = entropy(ptr2(rho, 0)) + entropy(ptr2(rho, 1)) - entropy(rho)
    s_other = entropy(ptr2(rho, other))

    def f(x):
        t, p = x
        v = np.array([np.cos(t / 2), np.exp(1j * p) * np.sin(t / 2)])
        P0 = np.outer(v, v.conj())
        cond = 0.0
        for P in (P0, np.eye(2) - P0):
            M = np.kron(np.eye(2), P) if measured == 1 else np.kron(P, np.eye(2))
            x_ = M @ rho @ M
            pr = np.trace(x_).real
            if pr > 1e-14:
                cond += pr * entropy(ptr2(x_, other) / pr)
        return iab - (s_other - cond)

    grid = sorted(
        (f((t, p)), t, p)
        for t in np.linspace(0, np.pi, 25)
        for p in np.linspace(0, 2 * np.pi, 48, endpoint=False)
    )
    best = grid[0][0]
    for _, t, p in grid[:5]:
        o = minimize(
            f, (t, p), method="Nelder-Mead",
            options=dict(xatol=1e-10, fatol=1e-13),
        )
        best = min(best, o.fun)
    return max(best, 0.0)


up, down, plus = qu.up(), qu.down(), qu.plus()
rho = 0.5 * qu.kron(qu.dop(up), qu.dop(up)) + 0.5 * qu.kron(
    qu.dop(down), qu.dop(plus)
)
rho_swapped = qu.permute(rho, (2, 2), (1, 0))

ref_meas_B = discord_ref(rho, measured=1)
ref_meas_A = discord_ref(rho, measured=0)

lib_01 = qu.quantum_discord(rho, (2, 2), 0, 1)
lib_10 = qu.quantum_discord(rho, (2, 2), 1, 0)
lib_swapped_10 = qu.quantum_discord(rho_swapped, (2, 2), 1, 0)

# same thing with a spectator third qubit so that the `ptr` branch is used
rho3 = qu.kron(rho, qu.dop(up))
lib3_01 = qu.quantum_discord(rho3, (2, 2, 2), 0, 1)
lib3_10 = qu.quantum_discord(rho3, (2, 2, 2), 1, 0)

print("reference discord, measurement on qubit 1 :", ref_meas_B)
print("reference discord, measurement on qubit 0 :", ref_meas_A)
print("library  (sysa=0, sysb=1)                 :", lib_01)
print("library  (sysa=1, sysb=0)                 :", lib_10)
print("library  swapped state, (sysa=1, sysb=0)  :", lib_swapped_10,
      " (relabelling: should equal the (0, 1) value of the original)")
print("library 3-qubit (sysa=0, sysb=1)          :", lib3_01)
print("library 3-qubit (sysa=1, sysb=0)          :", lib3_10)

tol = 1e-6
bad = False
# the two label orders must give the two different textbook values
if not (
    (abs(lib_01 - ref_meas_B) < tol and abs(lib_10 - ref_meas_A) < tol)
    or (abs(lib_01 - ref_meas_A) < tol and abs(lib_10 - ref_meas_B) < tol)
):
    bad = True
# relabelling invariance
if abs(lib_swapped_10 - lib_01) > tol:
    bad = True
if abs(lib3_10 - lib3_01) < tol and abs(ref_meas_A - ref_meas_B) > tol:
    bad = True

print("VIOLATION" if bad else "ok")
sys.exit(1 if bad else 0)
