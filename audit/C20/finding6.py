"""The pure-state shortcut of logneg / negativity / logneg_subsys is only
accurate to ~sqrt(machine eps) and disagrees with the operator path.

For a ket, ``partial_transpose_norm`` (and ``tr_sqrt_subsys``) use
    || rho^{T_A} ||_1 = ( sum_i sqrt(lambda_i) )**2 ,
with lambda_i the EIGENVALUES of the reduced density matrix obtained from
``eigvalsh``.  Null eigenvalues come out as +-1e-17 noise and each positive
one contributes sqrt(1e-17) ~ 3e-9 to the sum, so for Schmidt-rank deficient
states the result is off by 1e-8 ... 1e-5 (growing with the subsystem size),
e.g. a product state gets a strictly positive logarithmic negativity which is
not removed by ``zeroify`` (threshold 1e-14).  The density-operator path of
the same functions (explicit partial transpose) and the textbook formula via
the singular values of the reshaped ket are accurate to ~1e-14, i.e. "ket vs
projector" and "shortcut vs exact" disagree by many orders of magnitude more
than the library's own 1e-14 test tolerance for separable inputs.
"""

import sys

import numpy as np

import quimb as qu

rng = np.random.default_rng(1)


def rand_ket(d):
    v = rng.normal(size=d) + 1j * rng.normal(size=d)
    return qu.qarray((v / np.linalg.norm(v)).reshape(-1, 1))


tol = 1e-10
bad = False

# 1. product states: every entanglement measure must vanish
for da, db in [(2, 2), (4, 4), (16, 16), (64, 16)]:
    psi = qu.kron(rand_ket(da), rand_ket(db))
    dims = (da, db)
    s = np.linalg.svd(np.asarray(psi).reshape(da, db), compute_uv=False)
    ref = max(0.0, float(np.log2(s.sum() ** 2)))
    ln_ket = qu.logneg(psi, dims, 0)
    ln_dop = qu.logneg(qu.dop(psi), dims, 0)
    ng_ket = qu.negativity(psi, dims, 0)
    ln_sub = qu.logneg_subsys(psi, dims, 0, 1)
    print(
        f"product {da}x{db}: logneg ket={ln_ket:.3e} dop={ln_dop:.3e} "
        f"logneg_subsys={ln_sub:.3e} negativity ket={ng_ket:.3e} "
        f"reference={ref:.3e}"
    )
    if abs(ln_ket - ref) > tol or abs(ln_sub - ref) > tol or ng_ket > tol:
        bad = True

# 2. Schmidt rank 2 state in 32 x 32: shortcut vs operator path vs SVD
d = 32
psi = qu.kron(rand_ket(d), rand_ket(d)) + 0.5 * qu.kron(rand_ket(d), rand_ket(d))
psi = qu.qarray(psi / np.linalg.norm(psi))
s = np.linalg.svd(np.asarray(psi).reshape(d, d), compute_uv=False)
ref = float(np.log2(s.sum() ** 2))
ln_ket = qu.logneg(psi, (d, d), 0)
ln_dop = qu.logneg(qu.dop(psi), (d, d), 0)
print("rank-2 32x32 : logneg(ket)      =", repr(ln_ket))
print("               logneg(dop(ket)) =", repr(ln_dop))
print("               reference (SVD)  =", repr(ref))
if abs(ln_ket - ref) > tol or abs(ln_ket - ln_dop) > tol:
    bad = True

print("VIOLATION" if bad else "ok")
sys.exit(1 if bad else 0)
