"""Sparse (csr) matrix @ dense vector gives a truncated result for a
rectangular operator once quimb is imported with more than one thread worker.

``quimb.core`` monkey-patches ``scipy.sparse.csr_matrix._matmul_vector`` so
that, when ``nnz > 50000`` and the number of thread workers is > 1 (the
default on any multi-core machine unless OMP_NUM_THREADS=1 is exported), the
product is done by ``par_dot_csr_matvec``.  That routine takes the number of
ROWS of ``A`` to be ``x.size`` (the number of columns), so for a tall
``M x N`` operator (M > N, e.g. an isometry / Kraus-type embedding) only the
first N rows are computed and a length-N vector is returned, silently.  (For a
wide operator, M < N, ``indptr`` is read out of bounds: garbage / segfault -
not exercised here.)

The dense computation and scipy without the patch return the length-M result.

Run as is: the script forces 2 thread workers via QUIMB_NUM_THREAD_WORKERS
before importing quimb (OMP_NUM_THREADS may stay at 1).
"""

import os
import sys

os.environ["QUIMB_NUM_THREAD_WORKERS"] = "2"

import numpy as np
import scipy.sparse as sp

import quimb as qu  # noqa: E402  (applies the monkey patch)

rng = np.random.default_rng(0)
M, N = 5000, 3000
A = sp.random(M, N, density=0.01, format="csr", random_state=1, dtype=float)
A = qu.qu(A, sparse=True)  # complex csr, public constructor
x = rng.normal(size=N) + 1j * rng.normal(size=N)

ref = A.toarray() @ x  # dense reference, shape (M,)

bad = False

y = A @ x
print("nnz =", A.nnz, " thread workers =", os.environ["QUIMB_NUM_THREAD_WORKERS"])
print("library  (sparse @ vec) shape:", y.shape)
print("reference (dense @ vec) shape:", ref.shape)
if y.shape != ref.shape or not np.allclose(y, ref):
    bad = True

# same through the public quimb entry point, ket given as a column qarray
ket = qu.qarray(x.reshape(-1, 1))
y2 = qu.dot(A, ket)
print("qu.dot(A, ket) shape         :", y2.shape, " reference:", (M, 1))
if y2.shape != (M, 1) or not np.allclose(np.asarray(y2).ravel(), ref):
    bad = True

# norm of the mapped state: dense vs sparse representation of the same map
n_sparse = float(np.linalg.norm(np.asarray(y2)))
n_dense = float(np.linalg.norm(ref))
print("|A x| sparse path:", n_sparse, "  dense path:", n_dense)
if abs(n_sparse - n_dense) > 1e-9 * n_dense:
    bad = True

print("VIOLATION" if bad else "ok")
sys.exit(1 if bad else 0)
