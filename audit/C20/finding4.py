"""dephase(rho, p, rand_rank=1) mixes with the FULL identity instead of a
rank-1 random diagonal operator.

Documented: "rand_rank : int or float -- If given, dephase with a random
diagonal operator with this many non-zero entries. If float, proportion of
full size."   The integer 1 therefore means "one non-zero entry", but the
guard ``rand_rank == 1.0`` (meant for the float 1.0 == 100 %) is also true
for the integer 1, so the full maximally mixed state is used.

Reference (plain numpy): for p = 1 the output is exactly the dephasing
operator, which must be diagonal with exactly ``rand_rank`` non-zero entries
each equal to 1 / rand_rank.
"""

import sys

import numpy as np

import quimb as qu

np.random.seed(0)
d = 4
rho = qu.rand_rho(d)

bad = False
for rand_rank in (1, 2, 3):
    out = np.asarray(qu.dephase(rho, 1.0, rand_rank=rand_rank))
    diag = np.diag(out).real
    nnz = int(np.count_nonzero(np.abs(diag) > 1e-14))
    offdiag = np.abs(out - np.diag(np.diag(out))).max()
    ok = (
        nnz == rand_rank
        and np.allclose(diag[np.abs(diag) > 1e-14], 1 / rand_rank)
        and offdiag < 1e-14
    )
    print(
        f"rand_rank={rand_rank}: library diag = {np.round(diag, 4)}  "
        f"-> {nnz} non-zero entries, reference: {rand_rank} entries of "
        f"{1 / rand_rank:.4f}  [{'ok' if ok else 'WRONG'}]"
    )
    if not ok:
        bad = True

# consequence for a measure: dephasing with a rank-1 diagonal and p = 1 must
# give a pure (zero entropy) state, the library returns log2(d) bits
S = qu.entropy(qu.dephase(rho, 1.0, rand_rank=1))
print("entropy of dephase(rho, 1.0, rand_rank=1): library", S, " reference 0.0")
if abs(S) > 1e-9:
    bad = True

print("VIOLATION" if bad else "ok")
sys.exit(1 if bad else 0)
