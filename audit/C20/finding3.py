"""simulate_counts(p, C, phys_dim=d) labels outcomes in BINARY even when the
subsystems are not qubits.

The documented ``phys_dim`` option gives the local dimension of each measured
subsystem.  The sampled basis-state index is however always formatted with
``"{:0>nb}"`` (base 2), so for qutrits etc. the returned keys are not the
per-site outcomes (they are not even of length ``n`` in general).

Reference: the computational basis state |2, 2> of two qutrits (flat index 8)
must always be reported as the outcome string '22'.
"""

import sys

import numpy as np

import quimb as qu

bad = False

# two qutrits in |2,2>
psi = qu.basis_vec(8, 9)
counts = qu.simulate_counts(psi, 20, phys_dim=3, seed=0)
ref = {"22": 20}
print("two qutrits |2,2>  library  :", counts)
print("                   reference:", ref)
if counts != ref:
    bad = True

# a superposition (|0,1> + |2,0>)/sqrt(2): allowed outcome strings '01', '20'
psi = (qu.basis_vec(1, 9) + qu.basis_vec(6, 9)) / np.sqrt(2)
counts = qu.simulate_counts(psi, 200, phys_dim=3, seed=1)
print("(|01>+|20>)/sqrt2  library keys  :", sorted(counts))
print("                   reference keys:", ["01", "20"])
if not set(counts) <= {"01", "20"}:
    bad = True

# control: qubits are fine
counts = qu.simulate_counts(qu.basis_vec(2, 4), 5, seed=0)
print("control two qubits |1,0>:", counts)
if counts != {"10": 5}:
    bad = True

print("VIOLATION" if bad else "ok")
sys.exit(1 if bad else 0)
