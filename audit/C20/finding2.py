"""fidelity(rho, sigma) loses ~4 digits when the FIRST argument is rank
deficient (e.g. the projector of a ket).

``quimb.fidelity`` computes  tr sqrtm( sqrtm(rho) sigma sqrtm(rho) )  with
``sqrtm(herm=True)``, which takes ``np.sqrt(evals.astype(complex))``.  A null
eigenvalue that comes out of ``eigh`` as ``-1e-16`` becomes ``1e-8j``, the
sandwiched matrix is then no longer hermitian, and the second (hermitian)
``sqrtm`` turns a ~1e-9 spurious eigenvalue into a ~3e-5 contribution.

Consequences shown here (all far above the 1e-6 absolute tolerance the
library's own test-suite uses for fidelity):
  * ket vs projector:  fidelity(|a><a|, |b><b|) != fidelity(a, b) = |<a|b>|
  * symmetry:          fidelity(rho, sigma)     != fidelity(sigma, rho)
"""

import sys

import numpy as np

import quimb as qu


def psd_sqrt(r):
    w, v = np.linalg.eigh(np.asarray(r))
    w = np.clip(w, 0.0, None)
    return (v * np.sqrt(w)) @ v.conj().T


def fidelity_ref(a, b):
    s = psd_sqrt(a)
    w = np.linalg.eigvalsh(s @ np.asarray(b) @ s)
    return float(np.sqrt(np.clip(w, 0.0, None)).sum())


rng = np.random.default_rng(0)


def rand_ket(d):
    v = rng.normal(size=d) + 1j * rng.normal(size=d)
    v /= np.linalg.norm(v)
    return qu.qarray(v.reshape(-1, 1))


def rand_rho(d):
    A = rng.normal(size=(d, d)) + 1j * rng.normal(size=(d, d))
    r = A @ A.conj().T
    return qu.qarray(r / np.trace(r).real)


tol = 1e-6
bad = False

# 1. deterministic example, ket vs projector
a = qu.qu([1, 2, 3, 4], normalized=True)
b = qu.qu([1j, 2, -1, 0.5], normalized=True)
f_ket = qu.fidelity(a, b)
f_dop = qu.fidelity(qu.dop(a), qu.dop(b))
f_ref = abs(np.vdot(np.asarray(a), np.asarray(b)))
print("deterministic kets : fidelity(a, b)           =", f_ket)
print("                     fidelity(dop(a), dop(b)) =", f_dop)
print("                     reference |<a|b>|        =", f_ref)
if abs(f_dop - f_ref) > tol:
    bad = True

# 2. random pure states: projector path vs ket path
worst = 0.0
for _ in range(200):
    x, y = rand_ket(4), rand_ket(4)
    lib = qu.fidelity(qu.dop(x), qu.dop(y))
    ref = abs(np.vdot(np.asarray(x), np.asarray(y)))
    worst = max(worst, abs(lib - ref))
print("random pure states : max |F(dop,dop) - |<a|b>||   =", worst)
if worst > tol:
    bad = True

# 3. symmetry: rank-1 state vs full rank state
worst_sym, worst_ref = 0.0, 0.0
for _ in range(200):
    rho = qu.dop(rand_ket(3))
    sig = rand_rho(3)
    f1 = qu.fidelity(rho, sig)
    f2 = qu.fidelity(sig, rho)
    ref = fidelity_ref(rho, sig)
    worst_sym = max(worst_sym, abs(f1 - f2))
    worst_ref = max(worst_ref, abs(f1 - ref))
print("rank-1 vs full rank: max |F(rho,sig) - F(sig,rho)| =", worst_sym)
print("                     max |F(rho,sig) - reference|  =", worst_ref)
if worst_sym > tol or worst_ref > tol:
    bad = True

print("VIOLATION" if bad else "ok")
sys.exit(1 if bad else 0)
