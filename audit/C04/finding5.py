"""C04 finding 5: full_simplify (default options) turns a network whose value is
exactly zero into a network of NaNs.  Here the zero comes from a disconnected
factor <u|v> = 0 next to a ring of three rank-3 tensors that cannot be
rank-simplified: column_reduce ('C') slices u and v down to the 0-d scalars 1.0
and 0.0, rank_simplify ('R') collects them and calls ``tn *= prod(scalars)``;
TensorNetwork.multiply spreads the factor over the tensors via
``x_sign = x / abs(x)`` which is 0/0 = nan for a numpy scalar (a python float 0.0
raises ZeroDivisionError instead, as rank_simplify() alone does here and as
Circuit.amplitude does for an amplitude that is exactly zero).
public API + numpy only."""
import sys
import warnings
import numpy as np
import quimb.tensor as qtn

rng = np.random.default_rng(0)
T1 = qtn.Tensor(rng.normal(size=(2, 2, 2)), ('a', 'b', 'x'))
T2 = qtn.Tensor(rng.normal(size=(2, 2, 2)), ('b', 'c', 'y'))
T3 = qtn.Tensor(rng.normal(size=(2, 2, 2)), ('c', 'a', 'z'))
u = qtn.Tensor(np.array([1.0, 0.0]), ('k',))
v = qtn.Tensor(np.array([0.0, 1.0]), ('k',))
tn = qtn.TensorNetwork([T1, T2, T3, u, v])

ref = np.einsum('abx,bcy,caz,k,k->xyz', T1.data, T2.data, T3.data, u.data, v.data)  # all zeros

with warnings.catch_warnings():
    warnings.simplefilter('ignore')
    r = tn.full_simplify(output_inds=('x', 'y', 'z'))
    got = r.contract(all, output_inds=('x', 'y', 'z'))
    got = np.asarray(got.data if hasattr(got, 'data') else got) * 10.0 ** float(r.exponent)

print("reference value (max abs):", np.abs(ref).max())
print("library value after full_simplify:", got.ravel()[:4], "...")
ok = np.all(np.isfinite(got)) and np.abs(got - ref).max() == 0.0
try:
    tn.rank_simplify(output_inds=('x', 'y', 'z'))
    print("rank_simplify alone: no error")
except ZeroDivisionError as e:
    print("rank_simplify alone raises ZeroDivisionError:", e)
sys.exit(0 if ok else 1)
