"""C04 finding 1: TensorNetwork.replace_with_svd(..., eps=0.0, inplace=False)
(an untruncated re-factorisation of a section of the network) silently drops
the stored ``exponent`` of the network; the inplace=True variant keeps it.
Root cause: TensorNetwork.partition(inplace=False) rebuilds both halves with
``TensorNetwork(ts)`` (exponent 0.0) and ``view_like_`` only copies the
subclass properties.  public API + numpy only."""
import sys
import numpy as np
import quimb.tensor as qtn

rng = np.random.default_rng(7)
# a 4-tensor open chain  A-B-C-D with one physical leg each
dims = dict(a=2, b=2, c=2, d=2, x=3, y=3, z=3)
def T(inds, tag):
    return qtn.Tensor(rng.normal(size=[dims[i] for i in inds]), inds, tags=tag)
tn = qtn.TensorNetwork([T('ax', 'A'), T('xby', 'B'), T('ycz', 'C'), T('zd', 'D')])
tn.exponent = 2.0          # network denotes 10**2 * (contraction of the arrays)

# independent reference: plain einsum on the raw arrays, times 10**exponent
A, B, C, D = (tn[t].data for t in 'ABCD')
ref = np.einsum('ax,xby,ycz,zd->abcd', A, B, C, D) * 10.0 ** 2.0

def value(net):
    out = ('a', 'b', 'c', 'd')
    arrays = [t.data for t in net]
    subs = [t.inds for t in net]
    labels = {}
    for s in subs:
        for ix in s:
            labels.setdefault(ix, len(labels))
    args = []
    for x, s in zip(arrays, subs):
        args += [x, [labels[i] for i in s]]
    return np.einsum(*args, [labels[i] for i in out]) * 10.0 ** float(net.exponent)

bad = False
for inplace in (True, False):
    t = tn.copy()
    r = t.replace_with_svd(['B', 'C'], left_inds=['x', 'b'], eps=0.0, method='svd',
                           which='any', inplace=inplace)
    got = value(r)
    err = np.abs(got - ref).max() / np.abs(ref).max()
    print(f"replace_with_svd(inplace={inplace}): exponent={r.exponent}  "
          f"|library|={np.linalg.norm(got):.6g}  |reference|={np.linalg.norm(ref):.6g}  relerr={err:.3g}")
    bad |= not err < 1e-9

p1, p2 = tn.partition(['B', 'C'], inplace=False)
print("partition(inplace=False) exponents:", p1.exponent, p2.exponent, "(original 2.0)")
sys.exit(1 if bad else 0)
