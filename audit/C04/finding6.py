"""C04 finding 6 (form promise, untrue / stale ``left_inds`` claim trusted):
canonize_between / tensor_canonize_bond return immediately when the tensor to be
isometrised carries ``left_inds`` equal to its non-bond labels ("tensor is already
isometric").  Two public-API ways to reach that state with a tensor that is NOT an
isometry:

 (a) Tensor.normalize() explicitly keeps ``left_inds`` although dividing an
     isometry with k>1 columns by its Frobenius norm sqrt(k) destroys it;
 (b) gate_inds / MPS.gate(..., contract=False) attaches the gate tensor with
     ``left_inds`` = its input labels for ANY operator G, unitary or not.

In both cases  tn.canonize_between(X, Y)  (documented: X "will become an isometry")
leaves X untouched and non-isometric.  The denoted value is unchanged; the
promised form / the left_inds claim is wrong.  public API + numpy only."""
import sys
import numpy as np
import quimb.tensor as qtn

rng = np.random.default_rng(0)

def iso_defect(t, lix):
    rix = [i for i in t.inds if i not in lix]
    M = t.transpose(*lix, *rix).data
    M = M.reshape(int(np.prod([t.ind_size(i) for i in lix])), -1)
    return np.abs(M.T.conj() @ M - np.eye(M.shape[1])).max()

# ---- (a) normalize keeps the claim
A = qtn.Tensor(rng.normal(size=(4, 3)), ('a', 'x'), tags='A')
B = qtn.Tensor(rng.normal(size=(3, 4)), ('x', 'b'), tags='B')
tn = qtn.TensorNetwork([A, B])
tn.canonize_between('A', 'B')
print("(a) after canonize_between:        defect =", iso_defect(tn['A'], ['a']), " left_inds =", tn['A'].left_inds)
tn['A'].normalize_()
print("(a) after A.normalize_():          defect =", iso_defect(tn['A'], ['a']), " left_inds =", tn['A'].left_inds)
tn.canonize_between('A', 'B')
da = iso_defect(tn['A'], ['a'])
print("(a) after canonize_between again:  defect =", da, " (reference: 0)")

# ---- (b) non-unitary operators attached lazily
psi = qtn.MPS_rand_state(3, 2, seed=0)
psi.gate_(rng.normal(size=(2, 2)), 1, contract=False, tags='G1')
psi.gate_(rng.normal(size=(2, 2)), 1, contract=False, tags='G2')
ref = psi.to_dense()
psi.canonize_between('G1', 'G2')
g1 = psi['G1']
bond = list(qtn.bonds(psi['G1'], psi['G2']))
db = iso_defect(g1, [i for i in g1.inds if i not in bond])
print("(b) canonize_between('G1','G2') on lazily applied non-unitary gates: defect of G1 =", db,
      " (reference: 0); value change =", np.abs(psi.to_dense() - ref).max())
sys.exit(0 if max(da, db) < 1e-10 else 1)
