"""C04 finding 8 (form promise, wrong isometry flag): tensor_compress_bond /
compress_between decide which tensor to flag as isometric (``left_inds``) from the
``absorb`` option alone.  The polar split methods ignore ``absorb`` (polar_left
always returns P @ U, i.e. the *right* factor is the isometry), so

    tn.compress_between('A', 'B', cutoff=0.0, method='polar_left', absorb='right')

flags A as an isometry although A^dag A is far from the identity
(tensor_split itself gets this right via parse_split_left_right_isom).  A later
canonize_between('A', 'B') trusts the flag and returns without doing anything.
The denoted value is preserved; only the promised form / flag is wrong.
public API + numpy only."""
import sys
import numpy as np
import quimb.tensor as qtn

rng = np.random.default_rng(0)
A = qtn.Tensor(rng.normal(size=(5, 3, 4)), ('a', 'p', 'x'), tags='A')
B = qtn.Tensor(rng.normal(size=(4, 3, 5)), ('x', 'q', 'b'), tags='B')
tn = qtn.TensorNetwork([A, B])
ref = np.einsum('apx,xqb->apqb', A.data, B.data)

def defect(t, lix):
    rix = [i for i in t.inds if i not in lix]
    M = t.transpose(*lix, *rix).data.reshape(int(np.prod([t.ind_size(i) for i in lix])), -1)
    return np.abs(M.conj().T @ M - np.eye(M.shape[1])).max()

tn.compress_between('A', 'B', max_bond=None, cutoff=0.0, method='polar_left', absorb='right')
tA, tB = tn['A'], tn['B']
val = np.einsum('apx,xqb->apqb', tA.transpose('a', 'p', 'x').data, tB.transpose('x', 'q', 'b').data)
print("value relerr:", np.abs(val - ref).max() / np.abs(ref).max())
print("A.left_inds =", tA.left_inds, " B.left_inds =", tB.left_inds)
d1 = defect(tA, list(tA.left_inds)) if tA.left_inds else 0.0
print("isometry defect of the flagged tensor A (reference 0):", d1)
tn.canonize_between('A', 'B')      # should make A an isometry
d2 = defect(tn['A'], ['a', 'p'])
print("isometry defect of A after canonize_between('A','B') (reference 0):", d2)
sys.exit(0 if max(d1, d2) < 1e-8 else 1)
