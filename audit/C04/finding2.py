"""C04 finding 2: TensorNetwork.gauge_local(..., equalize_norms=<number>) with the
default method='canonize', and gauge_local(..., method='simple',
equalize_norms=True), rescale the tensors of the local region but the factor
that was stripped off is accumulated in the ``exponent`` of the *temporary local
view* (``_select_local_tids(virtual=True)``) which is then thrown away, so the
returned network denotes a different tensor (wrong overall scale), silently.
public API + numpy only."""
import sys
import numpy as np
import quimb.tensor as qtn

rng = np.random.default_rng(3)
# 2x2 plaquette, one open leg per tensor
sz = dict(a=2, b=3, c=2, d=3, p=2, q=2, r=2, s=2)
def T(inds, tag):
    return qtn.Tensor(rng.normal(size=[sz[i] for i in inds]), inds, tags=tag)
tn = qtn.TensorNetwork([T('abp', 'T0'), T('bcq', 'T1'), T('cdr', 'T2'), T('das', 'T3')])

def value(net):
    labels = {}
    args = []
    for t in net:
        for ix in t.inds:
            labels.setdefault(ix, len(labels))
        args += [t.data, [labels[i] for i in t.inds]]
    return np.einsum(*args, [labels[i] for i in 'pqrs']) * 10.0 ** float(net.exponent)

ref = value(tn)
bad = False
for kw in (dict(method='canonize'),
           dict(method='canonize', equalize_norms=True),
           dict(method='canonize', equalize_norms=1.0),
           dict(method='simple'),
           dict(method='simple', equalize_norms=True)):
    r = tn.gauge_local('T0', max_distance=1, **kw)
    got = value(r)
    err = np.abs(got - ref).max() / np.abs(ref).max()
    print(f"gauge_local('T0', {kw}): exponent={r.exponent}  |library|={np.linalg.norm(got):.6g} "
          f" |reference|={np.linalg.norm(ref):.6g}  relerr={err:.3g}")
    bad |= not err < 1e-9
sys.exit(1 if bad else 0)
