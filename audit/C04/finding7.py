"""C04 finding 7: an *untruncated* compression request (tolerance 0, no max_bond)
routed through the iterative SVD drivers silently returns a rank-1 (method
'isvd', which is the DEFAULT of TensorNetwork.replace_with_svd) or rank d-1
('svds') factorisation:

    tn.replace_with_svd(where, left_inds, eps=0.0)                      # default method='isvd'
    tn.compress_between(a, b, max_bond=None, cutoff=0.0, method='isvd')

Cause: decomp._choose_k computes ``k = min(d, max_bond)`` with max_bond == -1
(meaning "no limit") when cutoff == 0.0, i.e. k = -1, which scipy's interpolative
svd interprets as a precision and which svds turns into d-1.  With eps=1e-14 the
same calls are exact.  public API + numpy only."""
import sys
import warnings
import numpy as np
import quimb.tensor as qtn

warnings.simplefilter('ignore')
rng = np.random.default_rng(5)
sz = dict(a=3, b=3, c=3, d=3, x=4, y=6, z=4)
def T(inds, tag):
    return qtn.Tensor(rng.normal(size=[sz[i] for i in inds]), inds, tags=tag)
tn = qtn.TensorNetwork([T('ax', 'A'), T('xby', 'B'), T('ycz', 'C'), T('zd', 'D')])
A, B, C, D = (tn[t].data for t in 'ABCD')
ref = np.einsum('ax,xby,ycz,zd->abcd', A, B, C, D)

def value(net):
    labels, args = {}, []
    for t in net:
        for ix in t.inds:
            labels.setdefault(ix, len(labels))
        args += [t.data, [labels[i] for i in t.inds]]
    return np.einsum(*args, [labels[i] for i in 'abcd']) * 10.0 ** float(net.exponent)

bad = False
for eps in (1e-14, 0.0):
    r = tn.copy().replace_with_svd(['B', 'C'], left_inds=['x', 'b'], eps=eps, which='any', inplace=True)
    err = np.abs(value(r) - ref).max() / np.abs(ref).max()
    new_bond = [d for t in r.select(['B', 'C'], 'any') for ix, d in zip(t.inds, t.shape) if ix not in sz]
    print(f"replace_with_svd(eps={eps}) [default method]: new bond sizes {new_bond}  relerr vs reference = {err:.3g}")
    bad |= (eps == 0.0) and not err < 1e-9

for method in ('svd', 'isvd'):
    t = tn.copy()
    t.compress_between('B', 'C', max_bond=None, cutoff=0.0, method=method)
    err = np.abs(value(t) - ref).max() / np.abs(ref).max()
    print(f"compress_between(max_bond=None, cutoff=0.0, method={method!r}): bond y -> {t.ind_size('y')}  relerr = {err:.3g}")
    bad |= not err < 1e-9
sys.exit(1 if bad else 0)
