"""C04 finding 3: TensorNetwork.gauge_all_simple(damping>0) returns a network whose
value is an integer multiple (2x, 4x, ...) of the original when a bond shrinks to
size 1 during the gauging (a bond that was larger than needed).
Cause: tensor_gauge_simple_bond blends the freshly conditioned gauge of a
neighbouring bond with the *previous sweep's* conditioned gauge
(`damping * gauges_conditioned[ix] + (1 - damping) * s`); when that bond has
changed size in between, a size-1 vector is silently broadcast against the old
size-d vector and `multiply_index_diagonal_` then broadcasts the size-1 axis of
the tensors up to d (d identical copies after the inverse is applied).  If the sizes
are not broadcastable the same line raises instead.  public API + numpy only."""
import sys
import numpy as np
import quimb.tensor as qtn

rng = np.random.default_rng(0)
# open chain W - M - N - Z ; bond x (size 4) hangs off a tensor whose other
# leg has size 1, so x and then y can be reduced to size 1 by the gauging
W = qtn.Tensor(rng.normal(size=(1, 4)), ('w', 'x'), tags='W')
M = qtn.Tensor(rng.normal(size=(4, 2)), ('x', 'y'), tags='M')
N = qtn.Tensor(rng.normal(size=(2, 4, 3)), ('y', 'z', 'p'), tags='N')
Z = qtn.Tensor(rng.normal(size=(4, 5)), ('z', 'q'), tags='Z')
tn = qtn.TensorNetwork([M, N, W, Z])

ref = np.einsum('wx,xy,yzp,zq->wpq', W.data, M.data, N.data, Z.data)

def value(net):
    labels = {}
    args = []
    for t in net:
        for ix in t.inds:
            labels.setdefault(ix, len(labels))
        args += [t.data, [labels[i] for i in t.inds]]
    return np.einsum(*args, [labels[i] for i in 'wpq']) * 10.0 ** float(net.exponent)

bad = False
for damping in (0.0, 0.3):
    for its in (1, 2, 3):
        r = tn.gauge_all_simple(max_iterations=its, damping=damping)
        shapes = {t.inds: t.shape for t in r}
        got = value(r)
        # also the library's own contraction of its own result
        own = r.contract(all, output_inds=('w', 'p', 'q')).data
        ratio = float((got / ref).ravel()[0])
        err = np.abs(got - ref).max() / np.abs(ref).max()
        print(f"damping={damping} max_iterations={its}: library/reference ratio={ratio:.6f} "
              f"(own contract ratio={float((own / ref).ravel()[0]):.6f}) relerr={err:.3g} shapes={list(shapes.values())}")
        bad |= not err < 1e-9
sys.exit(1 if bad else 0)
