"""C04 finding 4: TensorNetwork.insert_gauge(U, ...) is documented to insert
``U^-1 @ U`` on a bond (a pure gauge change).  For a perfectly invertible but
moderately ill-conditioned U (condition number > 1e5, e.g. U = diag(1, 1e-6), whose
inverse is exactly representable) `_insert_gauge_tids` silently replaces the inverse
by a pseudo-inverse with rcond = sqrt(tol) = 1e-5, i.e. inserts the *projector*
pinv(U) @ U and so discards part of the bond - the network value changes by O(1)
without any error or warning.  public API + numpy only."""
import sys
import numpy as np
import quimb.tensor as qtn

rng = np.random.default_rng(1)
A = qtn.Tensor(rng.normal(size=(3, 2)), ('a', 'b'), tags='A')
B = qtn.Tensor(rng.normal(size=(2, 3)), ('b', 'c'), tags='B')
tn = qtn.TensorNetwork([A, B])
ref = A.data @ B.data

bad = False
for eps in (1e-3, 1e-5 * 1.01, 1e-6, 1e-8):
    U = np.diag([1.0, eps])
    t = tn.copy()
    t.insert_gauge(U, 'A', 'B')
    got = np.einsum('ab,bc->ac', t['A'].transpose('a', 'b').data, t['B'].transpose('b', 'c').data)
    err = np.abs(got - ref).max() / np.abs(ref).max()
    # what an exact gauge gives
    exact = (A.data @ np.linalg.inv(U)) @ (U @ B.data)
    print(f"U=diag(1,{eps:g}) cond={1/eps:.3g}: library relerr={err:.3g}   "
          f"(explicit A U^-1 U B relerr={np.abs(exact - ref).max() / np.abs(ref).max():.3g})")
    bad |= not err < 1e-6
sys.exit(1 if bad else 0)
