"""eigh(A, k) on a *complex* Hermitian operator with a degenerate eigenvalue,
SCIPY backend (also what backend='auto' picks for this size): the returned
eigenvectors are not orthonormal.  scipy's eigsh hands complex problems to the
general (non-symmetric) ARPACK driver, whose eigenvectors inside a degenerate
eigenspace are not orthogonalised, and quimb returns them as they come."""
import sys
import numpy as np
import scipy.sparse as sp
import quimb as qu

n = 8
H = qu.ham_heis(n, sparse=True, cyclic=True)
rng = np.random.default_rng(0)
# diagonal gauge transformation -> complex Hermitian, same spectrum
ph = np.exp(1j * rng.uniform(0, 2 * np.pi, size=2**n))
Hc = sp.csr_matrix(sp.diags(ph) @ H @ sp.diags(ph.conj()))
ev = np.linalg.eigvalsh(Hc.toarray())
print("lowest exact eigenvalues:", np.round(ev[:6], 6))

k = 6
v0 = rng.normal(size=2**n) + 1j * rng.normal(size=2**n)
bad = False
for bk in ("auto", "scipy", "numpy"):
    l, v = qu.eigh(Hc, k=k, backend=bk, v0=v0)
    res = np.abs(Hc @ v - v * l).max()
    orth = np.abs(v.conj().T @ v - np.eye(k)).max()
    print(f"backend={bk}: residual {res:.1e}, max|V^H V - 1| = {orth:.2e}"
          "   (reference: 0)")
    if orth > 1e-8:
        bad = True
sys.exit(1 if bad else 0)
