"""rsvd(mode='adapt') / estimate_rank: once the adaptive loop switches from
'QB' to 'SVD-continuation' blocks (rank >= use_qb, default 20, or
use_qb=False) the result is not an SVD any more.

(a) exactly rank-19 matrix: O(1)-sized spurious singular values, a
    non-orthonormal V, O(|A|) reconstruction error, rank estimate 71.
(b) smoothly decaying spectrum, eps small enough that *all* min(m, n)
    triplets are returned: U s VH should then equal A, but is off by ~0.3|A|
    (with use_qb=True, i.e. QB blocks only, the same call is exact)."""
import sys
import numpy as np
import quimb as qu

rng = np.random.default_rng(0)
bad = False

# (a)
m, n, r = 200, 150, 19
U = np.linalg.qr(rng.normal(size=(m, r)))[0]
V = np.linalg.qr(rng.normal(size=(n, r)))[0]
s = np.linspace(10, 1, r)
A = (U * s) @ V.T

qu.seed_rand(0)
Ux, sx, VHx = qu.rsvd(A, 1e-8, mode="adapt")  # all defaults
k = sx.size
rec = np.linalg.norm((Ux * sx) @ VHx - A, 2)
orthV = np.abs(VHx @ VHx.conj().T - np.eye(k)).max()
nsig = int((sx > 1e-6 * sx[0]).sum())
print("(a) library : #singular values > 1e-6*s0 =", nsig,
      " ||U s VH - A||_2 =", f"{rec:.2e}", " max|V V^H - 1| =", f"{orthV:.2e}")
print("(a) reference: #singular values > 1e-6*s0 =", r,
      " error ~1e-15, V orthonormal")
bad |= (nsig > r + 1) or rec > 1e-6 or orthV > 1e-6

qu.seed_rand(0)
rk = qu.estimate_rank(A, 1e-8, use_sli=False)
qu.seed_rand(0)
rk_qb = qu.estimate_rank(A, 1e-8, use_sli=False, use_qb=True)
print("(a) library estimate_rank (default use_qb=20):", rk,
      "| with use_qb=True:", rk_qb, "| true rank:", r)
bad |= abs(rk - r) > 10

# (b)
m, n = 120, 100
U = np.linalg.qr(rng.normal(size=(m, n)))[0]
V = np.linalg.qr(rng.normal(size=(n, n)))[0]
s = 0.9 ** np.arange(n)
A = (U * s) @ V.T
for use_qb in (20, True):
    qu.seed_rand(0)
    Ux, sx, VHx = qu.rsvd(A, 1e-6, mode="adapt", use_qb=use_qb)
    rec = np.linalg.norm((Ux * sx) @ VHx - A, 2)
    serr = np.abs(sx - s[: sx.size]).max()
    print(f"(b) use_qb={use_qb}: k={sx.size}  ||U s VH - A||_2 = {rec:.2e}"
          f"  max|s - s_exact| = {serr:.2e}   (reference: <~1e-6)")
    if use_qb == 20:
        bad |= rec > 1e-4
sys.exit(1 if bad else 0)
