"""IdentityLinearOperator(size, factor) with a complex factor: the adjoint
action (``.H @ v`` / ``rmatvec``) multiplies by ``factor`` instead of
``conj(factor)``."""
import sys
import numpy as np
from quimb.linalg.base_linalg import IdentityLinearOperator

c = 1 + 2j
I = IdentityLinearOperator(5, c)
v = np.arange(5.0) + 1j
lib = I.H @ v
ref = (c * np.eye(5)).conj().T @ v
print("library  I.H @ v :", lib)
print("reference        :", ref)
sys.exit(0 if np.allclose(lib, ref) else 1)
