"""rsvd(A, eps, compute_uv=False, mode='adapt') returns the 3-tuple (U, s, s)
instead of the array of singular values (operator-precedence slip in
rsvd_iterate's return statement)."""
import sys
import numpy as np
import quimb as qu

rng = np.random.default_rng(0)
U = np.linalg.qr(rng.normal(size=(60, 8)))[0]
V = np.linalg.qr(rng.normal(size=(40, 8)))[0]
s = np.array([10, 8, 6, 5, 4, 3, 2, 1.0])
A = (U * s) @ V.T

qu.seed_rand(0)
out = qu.rsvd(A, 1e-6, compute_uv=False, mode="adapt")
ref = np.linalg.svd(A, compute_uv=False)[:8]

print("library return type:", type(out).__name__,
      [np.shape(o) for o in out] if isinstance(out, tuple) else np.shape(out))
print("reference: 1D array of singular values", ref)

# same call in the other (default) mode returns a plain array
qu.seed_rand(0)
out2 = qu.rsvd(A, 1e-6, compute_uv=False, mode="adapt+block")
print("mode='adapt+block' return type:", type(out2).__name__, np.shape(out2))

ok = (not isinstance(out, tuple)) and np.allclose(np.asarray(out)[:8], ref)
# wide matrix: even worse, returns (s, s, U.T)
qu.seed_rand(0)
out3 = qu.rsvd(A.T.copy(), 1e-6, compute_uv=False, mode="adapt")
print("wide matrix return:", type(out3).__name__,
      [np.shape(o) for o in out3] if isinstance(out3, tuple) else np.shape(out3))
sys.exit(0 if ok else 1)
