"""(Root cause in scipy's ARPACK, listed because the property is violated
through the SCIPY backend.)  eigh(H, k=4, which='SA') on the 8-site
Heisenberg ring - ground state followed by a 3-fold degenerate level - quite
often (about 60% of random start vectors) returns only two copies of the
triplet plus the *next* level, i.e. not the 4 smallest eigenvalues.  Identical
to calling scipy.sparse.linalg.eigsh directly."""
import sys
import numpy as np
import quimb as qu

H = qu.ham_heis(8, sparse=True, cyclic=True)
ref = np.linalg.eigvalsh(H.toarray())[:4]
print("reference 4 smallest:", ref)
nbad = 0
for seed in range(10):
    v0 = np.random.default_rng(seed).normal(size=H.shape[0])
    l = qu.eigvalsh(H, k=4, which="SA", backend="scipy", v0=v0)
    ok = np.allclose(l, ref)
    nbad += not ok
    print(f"v0 seed {seed}: library {l} {'ok' if ok else 'WRONG'}")
print("wrong in", nbad, "of 10 runs")
sys.exit(1 if nbad else 0)
