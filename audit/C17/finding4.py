"""With a target ``sigma`` the selected part of the spectrum depends on the
backend (and hence, with backend='auto', on the size of the operator):

(a) Hermitian, which='LM' + sigma (the scipy idiom for 'nearest sigma'):
    SCIPY (and SLEPc, which forces which='TR') -> eigenvalues nearest sigma,
    NUMPY -> largest-magnitude eigenvalues, sigma ignored.
(b) non-Hermitian, which='TI' (documented: imaginary part closest to sigma):
    NUMPY follows the documented rule, SCIPY maps every 'T*' rule to
    shift-invert 'LM' = nearest in the complex plane."""
import sys
import numpy as np
import quimb as qu

rng = np.random.default_rng(0)
bad = False

# (a) same spectrum, sizes on either side of the auto threshold d**2/k < 10000
for d in (60, 300):
    X = rng.normal(size=(d, d)) + 1j * rng.normal(size=(d, d))
    Q = np.linalg.qr(X)[0]
    ev = np.linspace(-3, 5, d)
    A = (Q * ev) @ Q.conj().T
    A = (A + A.conj().T) / 2
    lib = qu.eigvalsh(A, k=3, sigma=0.52, which="LM")  # backend='auto'
    ref = np.sort(ev[np.argsort(abs(ev - 0.52))[:3]])
    print(f"(a) d={d}: library(auto) {lib}  nearest-sigma reference {ref}")
    for bk in ("numpy", "scipy"):
        print(f"      backend={bk}:",
              qu.eigvalsh(A, k=3, sigma=0.52, which="LM", backend=bk))
    if not np.allclose(lib, ref):
        bad = True

# (b)
d = 50
A = rng.normal(size=(d, d)) + 1j * rng.normal(size=(d, d))
ev = np.linalg.eigvals(A)
ref = np.sort_complex(ev[np.argsort(abs(ev.imag - 0.5))[:3]])
for bk in ("numpy", "scipy"):
    lib = np.sort_complex(qu.eigvals(A, k=3, sigma=0.5, which="TI", backend=bk))
    print(f"(b) backend={bk}: library {np.round(lib, 4)}")
    if not np.allclose(lib, ref):
        bad = True
print(f"(b) reference (imag part closest to 0.5): {np.round(ref, 4)}")
sys.exit(1 if bad else 0)
