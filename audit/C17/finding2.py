"""rsvd(A, eps, mode='adapt', k_start=1) returns wrong singular values.

QB_to_svd calls scipy.linalg.svd(B, overwrite_a=True).  When B has a single
row (first adaptive block with k_start=1) it is simultaneously C- and
F-contiguous, so LAPACK really overwrites it; rsvd_iterate then re-uses the
destroyed B in the next adaptive step."""
import sys
import numpy as np
import quimb as qu

rng = np.random.default_rng(0)
m, n, r = 50, 40, 6
U = np.linalg.qr(rng.normal(size=(m, r)))[0]
V = np.linalg.qr(rng.normal(size=(n, r)))[0]
s = np.array([9.0, 7.0, 5.0, 3.0, 2.0, 1.0])
A = (U * s) @ V.T
ref = np.linalg.svd(A, compute_uv=False)[:r]

bad = False
for k_start in (1, 2):
    qu.seed_rand(1)
    Ux, sx, VHx = qu.rsvd(A, 1e-8, mode="adapt", k_start=k_start)
    rec = np.abs((Ux * sx) @ VHx - A).max()
    print(f"k_start={k_start}: library s[:6] = {np.round(sx[:r], 6)}")
    print(f"            reference s  = {ref}")
    print(f"            max|U s VH - A| = {rec:.2e}")
    if k_start == 1 and (rec > 1e-6 or np.abs(sx[:r] - ref).max() > 1e-6):
        bad = True
sys.exit(1 if bad else 0)
