"""eigh_window / eigvalsh_window ignore ``k`` for dense input (and for
backend='numpy'): every eigenvalue in the window is returned, whereas the same
operator given as a sparse matrix yields (at most) the k eigenpairs nearest
the window centre."""
import sys
import numpy as np
import scipy.sparse as sp
import quimb as qu

rng = np.random.default_rng(0)
d = 60
Q = np.linalg.qr(rng.normal(size=(d, d)))[0]
ev = np.linspace(-3, 5, d)
A = (Q * ev) @ Q.T
A = (A + A.T) / 2

k = 2
dense = qu.eigvalsh_window(A, 0.5, k, w_sz=0.3)
sparse = qu.eigvalsh_window(sp.csr_matrix(A), 0.5, k, w_sz=0.3)
centre = ev[0] + 0.5 * (ev[-1] - ev[0])
ref = np.sort(ev[np.argsort(abs(ev - centre - 1e-4))[:k]])
print("library dense  :", dense.size, "eigenvalues", np.round(dense, 4))
print("library sparse :", sparse.size, "eigenvalues", np.round(sparse, 4))
print("reference (k=2 nearest the centre, inside window):", np.round(ref, 4))
sys.exit(0 if dense.size == k and np.allclose(dense, ref) else 1)
