"""norm(A, 'fro') for sparse A is computed from the raw ``A.data`` array, which
is wrong for formats whose data array is not the set of matrix entries: COO
with duplicate (i, j) entries (summed implicitly by scipy) and DIA with
out-of-band padding."""
import sys
import numpy as np
import scipy.sparse as sp
import quimb as qu

bad = False
A = sp.coo_matrix(([1.0, 1.0, 2.0], ([0, 0, 1], [0, 0, 1])), shape=(3, 3))
lib, ref = qu.norm(A, "fro"), np.linalg.norm(A.toarray())
print("COO with duplicates: library", lib, "reference", ref)
bad |= abs(lib - ref) > 1e-12

B = sp.spdiags(np.arange(1, 5.0)[None, :], [1], 4, 4)
lib, ref = qu.norm(B, "fro"), np.linalg.norm(B.toarray())
print("DIA with padding   : library", lib, "reference", ref)
bad |= abs(lib - ref) > 1e-12
sys.exit(1 if bad else 0)
