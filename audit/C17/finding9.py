"""Lazy.__imul__ has no return statement, so ``H *= x`` rebinds H to None."""
import sys
import numpy as np
import quimb as qu

H = qu.Lazy(qu.ham_heis, 4, sparse=True, shape=(16, 16))
H2 = H * 2.0
H *= 2.0
ref = np.linalg.eigvalsh(2.0 * qu.ham_heis(4))[0]
print("library  `H *= 2.0` ->", H)
print("library  `H * 2.0`  ->", H2, " groundenergy", qu.groundenergy(H2, backend="numpy"))
print("reference groundenergy of 2*H:", ref)
sys.exit(0 if H is not None else 1)
