"""C13 finding 2: PEPS.compute_local_expectation(..., equalize_norms=True, normalized=False)
(equalize_norms is a pure conditioning option forwarded to the boundary contraction) returns
an unnormalised value that is wrong by many orders of magnitude: the exponent that the
row/column environments accumulate is dropped when the plaquette environments are cut out
of them with select_any().  max_bond / cutoff are untruncating, so the route is exact."""
import sys
import numpy as np
import quimb.tensor as qtn

Lx, Ly = 3, 3
peps = qtn.PEPS.rand(Lx, Ly, 2, seed=5, dtype="complex128")
sites = list(peps.sites)
psi = np.asarray(peps.to_dense()).reshape([2] * (Lx * Ly))

rng = np.random.default_rng(0)
G = rng.normal(size=(4, 4)) + 1j * rng.normal(size=(4, 4))
where = ((0, 0), (0, 1))


def dense_unnormalised(psi, G, where):
    ax = [sites.index(s) for s in where]
    Gt = G.reshape(2, 2, 2, 2)
    phi = np.tensordot(Gt, psi, axes=([2, 3], ax))
    phi = np.moveaxis(phi, [0, 1], ax)
    return np.vdot(psi, phi)


ref = dense_unnormalised(psi, G, where)
kw = dict(max_bond=256, cutoff=0.0, normalized=False)
plain = peps.compute_local_expectation({where: G}, **kw)
eqn = peps.compute_local_expectation({where: G}, equalize_norms=True, **kw)
eqn1 = peps.compute_local_expectation({where: G}, equalize_norms=1.0, **kw)
# the same option is handled correctly by compute_norm
n2 = peps.compute_norm(max_bond=256, cutoff=0.0, equalize_norms=True)

print("dense <psi|G|psi>                          ", complex(ref))
print("library, default options                   ", complex(plain))
print("library, equalize_norms=True               ", complex(eqn))
print("library, equalize_norms=1.0                ", complex(eqn1))
print("(compute_norm with equalize_norms=True     ", complex(n2), " dense", np.vdot(psi, psi).real, ")")

tol = 1e-8 * abs(ref)
bad = abs(eqn - ref) > tol or abs(eqn1 - ref) > tol or abs(plain - ref) > tol
print("VIOLATION" if bad else "agree")
sys.exit(1 if bad else 0)
