"""C13 finding 1: the `info` cache of the loop-expansion expectation routes is keyed by
(region, where) only - not by the operator.  Reusing one `info` dict (the documented way
to share work between calls on the same network + gauges) for a second operator at the
same sites silently returns the FIRST operator's expectation value.

The loop set used here spans the whole (ring) network, so the expansion is exact and must
equal the dense value."""
import sys
import numpy as np
import quimb as qu
import quimb.tensor as qtn

n = 5
edges = [(i, (i + 1) % n) for i in range(n)]
tn = qtn.TN_from_edges_rand(edges, D=3, phys_dim=2, seed=1, dtype="complex128")
gauges = {}
tn.gauge_all_simple_(100, 1e-12, gauges=gauges)

# independent dense reference: state = tensors x bond gauges
z = tn.copy()
z.gauge_simple_insert(gauges)
psi = np.asarray(z.to_dense()).reshape([2] * n)


def dense_expec_site0(op):
    phi = np.tensordot(op, psi, axes=(1, 0))
    return np.vdot(psi, phi) / np.vdot(psi, psi)


X = np.array([[0, 1], [1, 0]], dtype=complex)
Z = np.array([[1, 0], [0, -1]], dtype=complex)

bad = False
for name, kw in [
    ("local_expectation_gloop_expand", dict(gloops=n)),
    ("local_expectation_sloop_expand", dict(sloops=n)),
]:
    f = getattr(tn, name)
    info = {}
    vx = f(X, (0,), gauges=gauges, info=info, autoreduce=False, **kw)
    vz = f(Z, (0,), gauges=gauges, info=info, autoreduce=False, **kw)  # same info, new operator
    vz_fresh = f(Z, (0,), gauges=gauges, info={}, autoreduce=False, **kw)
    rx, rz = dense_expec_site0(X), dense_expec_site0(Z)
    print(f"{name}:")
    print(f"   <X_0>  library {complex(vx):.12f}   dense {complex(rx):.12f}")
    print(f"   <Z_0>  library (info reused) {complex(vz):.12f}   dense {complex(rz):.12f}"
          f"   library (fresh info) {complex(vz_fresh):.12f}")
    if abs(vz - rz) > 1e-8 * max(1, abs(rz)) or abs(vx - rx) > 1e-8 * max(1, abs(rx)):
        bad = True

print("VIOLATION" if bad else "agree")
sys.exit(1 if bad else 0)
