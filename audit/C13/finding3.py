"""C13 finding 3: MatrixProductState.partial_trace_compress(sysa, sysb, renorm=True) promises
tr(rho_AB) == 1.  When sysa + sysb cover the whole open chain it takes a shortcut
(bipartite_schmidt_state) that ignores `renorm`: for an unnormalised MPS the returned density
operator has trace <psi|psi>, and logneg_subsys (same shortcut) returns a wrong logarithmic
negativity, although both are right for every other choice of blocks of the same state."""
import sys
import numpy as np
import quimb as qu
import quimb.tensor as qtn

L = 6
mps = qtn.MPS_rand_state(L, 3, dtype="complex128", seed=3, normalize=False)
psi = np.asarray(mps.to_dense()).reshape(-1)
n2 = np.vdot(psi, psi).real
print("<psi|psi> =", n2)


def dense_logneg(psi, na):
    # pure state, bipartition: E_N = 2 log2(sum of normalised Schmidt coefficients)
    s = np.linalg.svd((psi / np.linalg.norm(psi)).reshape(2**na, -1), compute_uv=False)
    return 2 * np.log2(s.sum())


bad = False
for sysa, sysb in [([0, 1, 2], [3, 4, 5]), ([0, 1], [3, 4, 5])]:
    rho = mps.partial_trace_compress(sysa, sysb)  # renorm=True is the default
    m = np.asarray(rho.to_dense(["kA", "kB"], ["bA", "bB"]))
    tr = np.trace(m).real
    print(f"sysa={sysa} sysb={sysb}: library tr(rho_AB) = {tr:.12f}   requested 1.0")
    if abs(tr - 1) > 1e-8:
        bad = True

ln = mps.logneg_subsys([0, 1, 2], [3, 4, 5])
ref = dense_logneg(psi, 3)
print(f"logneg_subsys([0,1,2],[3,4,5]): library {ln:.12f}   dense {ref:.12f}")
if abs(ln - ref) > 1e-8:
    bad = True

print("VIOLATION" if bad else "agree")
sys.exit(1 if bad else 0)
