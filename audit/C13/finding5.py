"""C13 finding 5: compute_local_expectation_gloop_expand(..., normalized='global') divides the
expectation by a norm from norm_gloop_expand, which (through normalize_simple) first rescales
every bond gauge to unit norm WITHOUT accounting for the discarded scale, while the numerator is
computed with the gauges as given.  With gauges that are not unit-norm - exactly what
gate_simple_(..., renorm=False) produces - the 'global'-normalised expectation is wrong by
prod |g|^2 although the generalized loop used spans the whole network (route is exact, and
normalized=True on the same call is right)."""
import sys
import numpy as np
import quimb as qu
import quimb.tensor as qtn

n = 5
edges = [(i, (i + 1) % n) for i in range(n)]
tn = qtn.TN_from_edges_rand(edges, D=2, phys_dim=2, seed=1, dtype="complex128")
gauges = {}
tn.gauge_all_simple_(100, 1e-12, gauges=gauges)
U = qu.rand_uni(4, seed=7)
tn.gate_simple_(U, (0, 1), gauges=gauges, renorm=False, max_bond=None, cutoff=0.0)
print("gauge norms:", sorted(round(float(np.linalg.norm(g)), 4) for g in gauges.values()))

z = tn.copy()
z.gauge_simple_insert(gauges)            # the state: tensors x gauges
psi = np.asarray(z.to_dense()).reshape([2] * n)

rng = np.random.default_rng(1)
G = rng.normal(size=(2, 2)) + 1j * rng.normal(size=(2, 2))
phi = np.moveaxis(np.tensordot(G, psi, axes=(1, 2)), 0, 2)
ref = np.vdot(psi, phi) / np.vdot(psi, psi)

allsites = tuple(range(n))
kw = dict(gloops=(allsites,), gauges=gauges, autoreduce=False)
v_true = tn.compute_local_expectation_gloop_expand({(2,): G}, normalized=True, **kw)
v_glob = tn.compute_local_expectation_gloop_expand({(2,): G}, normalized="global", **kw)
nrm = tn.norm_gloop_expand(gloops=(allsites,), gauges=gauges, autoreduce=False)

print("dense <G_2>/<psi|psi>              ", complex(ref))
print("library normalized=True            ", complex(v_true))
print("library normalized='global'        ", complex(v_glob))
print("norm_gloop_expand", complex(nrm), "  dense |psi|", np.linalg.norm(psi))

bad = abs(v_glob - ref) > 1e-8 * abs(ref) or abs(v_true - ref) > 1e-8 * abs(ref)
print("VIOLATION" if bad else "agree")
sys.exit(1 if bad else 0)
