"""C13 finding 6 (input-domain edge): MPS site labels wrap modulo L (mps[-1], site_ind(-1),
site_tag(-1) all address the last site).  With a wrapped / negative site in a multi-site
`where`, local_expectation_canonical / partial_trace_to_dense_canonical /
compute_local_expectation_canonical silently return a wrong number (every other route raises
for the same input): the block self[min(where):max(where)+1] and the canonicalisation range
are formed from the unwrapped integers."""
import sys
import numpy as np
import quimb.tensor as qtn

L = 5
mps = qtn.MPS_rand_state(L, 3, dtype="complex128", seed=3, normalize=True)
psi = np.asarray(mps.to_dense()).reshape([2] * L)
rng = np.random.default_rng(7)
G = rng.normal(size=(4, 4)) + 1j * rng.normal(size=(4, 4))


def dense(where):
    ax = [w % L for w in where]
    phi = np.tensordot(G.reshape(2, 2, 2, 2), psi, axes=([2, 3], ax))
    phi = np.moveaxis(phi, [0, 1], ax)
    return np.vdot(psi, phi) / np.vdot(psi, psi)


bad = False
for where in [(0, 4), (0, -1), (-1, 0), (1, -2)]:
    ref = dense(where)
    try:
        got = mps.copy().local_expectation_canonical(G, where)
        got2 = mps.compute_local_expectation_canonical({where: G})
    except Exception as e:  # raising would be fine
        print(where, "raised", type(e).__name__)
        continue
    flag = abs(got - ref) > 1e-8
    bad |= flag
    print(f"where={where}: library {complex(got):.10f} (compute_: {complex(got2):.10f})   "
          f"dense (sites mod L) {complex(ref):.10f}   {'WRONG' if flag else 'ok'}")

print("VIOLATION" if bad else "agree")
sys.exit(1 if bad else 0)
