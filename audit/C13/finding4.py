"""C13 finding 4: a non-zero stored `exponent` (the 10**exponent prefactor that e.g.
tn.equalize_norms_(1.0) or strip_exponent leave on a network, and which to_dense / contract /
local_expectation_exact honour) is silently ignored by the *unnormalised* local routes:
  - TensorNetworkGenVector.local_expectation_cluster / partial_trace_cluster
  - MatrixProductState.local_expectation_canonical / compute_local_expectation_via_envs
  - PEPS.compute_local_expectation          (2D boundary / plaquette route)
  - PEPS3D.compute_local_expectation / partial_trace
All clusters span the network and all bond caps are untruncating, so every route is exact."""
import sys
import numpy as np
import quimb.tensor as qtn

rng = np.random.default_rng(1)


def randop(d):
    return rng.normal(size=(d, d)) + 1j * rng.normal(size=(d, d))


def dense_unnormalised(psi, G, ax):
    k = len(ax)
    Gt = G.reshape([2] * (2 * k))
    phi = np.tensordot(Gt, psi, axes=(list(range(k, 2 * k)), list(ax)))
    phi = np.moveaxis(phi, list(range(k)), list(ax))
    return np.vdot(psi, phi)


results = []


def report(name, got, ref):
    ok = abs(got - ref) <= 1e-8 * abs(ref)
    results.append(ok)
    print(f"{name:58s} library {complex(got):.6e}   dense {complex(ref):.6e}   {'ok' if ok else 'WRONG'}")


# ---- arbitrary geometry ------------------------------------------------------------
edges = [(0, 1), (1, 2), (2, 3), (3, 0), (1, 3), (3, 4)]
tn = qtn.TN_from_edges_rand(edges, D=3, phys_dim=2, seed=1, dtype="complex128")
tn.equalize_norms_(1.0)          # conditioning call -> tn.exponent != 0
print("generic TN exponent:", tn.exponent)
psi = np.asarray(tn.to_dense()).reshape([2] * 5)
G = randop(4)
ref = dense_unnormalised(psi, G, (4, 2))
report("TNGenVector.local_expectation_exact (control)", tn.local_expectation_exact(G, (4, 2), normalized=False), ref)
report("TNGenVector.local_expectation_cluster(max_distance=5)",
       tn.local_expectation_cluster(G, (4, 2), max_distance=5, normalized=False), ref)
rho = tn.partial_trace_cluster((4, 2), max_distance=5, normalized=False)
report("TNGenVector.partial_trace_cluster -> tr(G rho)", np.trace(G @ rho), ref)

# ---- MPS ---------------------------------------------------------------------------
mps = qtn.MPS_rand_state(5, 3, dtype="complex128", seed=3, normalize=False)
mps.exponent = 0.5
psi = np.asarray(mps.to_dense()).reshape([2] * 5)
ref = dense_unnormalised(psi, G, (3, 0))
report("MPS.local_expectation_exact (control)", mps.local_expectation_exact(G, (3, 0), normalized=False), ref)
report("MPS.local_expectation_canonical", mps.copy().local_expectation_canonical(G, (3, 0), normalized=False), ref)
report("MPS.compute_local_expectation_via_envs",
       mps.compute_local_expectation_via_envs({(3, 0): G}, normalized=False), ref)

# ---- PEPS --------------------------------------------------------------------------
peps = qtn.PEPS.rand(3, 3, 2, seed=5, dtype="complex128")
peps.exponent = 0.3
sites = list(peps.sites)
psi = np.asarray(peps.to_dense()).reshape([2] * 9)
w = ((0, 1), (1, 1))
ref = dense_unnormalised(psi, G, [sites.index(s) for s in w])
report("PEPS.compute_local_expectation(max_bond=256, cutoff=0)",
       peps.compute_local_expectation({w: G}, max_bond=256, cutoff=0.0, normalized=False), ref)

# ---- PEPS3D ------------------------------------------------------------------------
p3 = qtn.PEPS3D.rand(2, 2, 2, 2, seed=5, dtype="complex128")
p3.exponent = 0.2
sites = list(p3.sites)
psi = np.asarray(p3.to_dense()).reshape([2] * 8)
w = ((0, 0, 0), (0, 0, 1))
ref = dense_unnormalised(psi, G, [sites.index(s) for s in w])
report("PEPS3D.compute_local_expectation(max_bond=None, cutoff=0)",
       p3.compute_local_expectation({w: G}, max_bond=None, cutoff=0.0, normalized=False), ref)

bad = not all(results)
print("VIOLATION" if bad else "agree")
sys.exit(1 if bad else 0)
