#!/venv/bin/python
"""findhang.py <Cxx> <seed> <shard> [nshards] : run the cases of one shard in
process with a 20 s alarm per case, report hanging / slow cases."""
import importlib
import signal
import sys
import time

sys.path.insert(0, "/verif")
sys.path.insert(0, "/verif/.deps")
from qmon.core import Recorder  # noqa
from qmon import shard  # noqa

prop, seed, sh = sys.argv[1], int(sys.argv[2]), int(sys.argv[3])
nsh = int(sys.argv[4]) if len(sys.argv) > 4 else 16
mod = importlib.import_module(f"qmon.props.{prop.lower()}")
rec = Recorder(prop)
rec.case_descs = []
mod.install(rec)


class TO(Exception):
    pass


def h(*a):
    raise TO()


signal.signal(signal.SIGALRM, h)
import faulthandler
for idx in range(sh, mod.NCASES["quick"], nsh):
    name, fn = shard.pick_workload(mod.WORKLOADS, idx)
    signal.alarm(20)
    faulthandler.dump_traceback_later(40, exit=True)
    print('case', idx, name, flush=True)
    t0 = time.time()
    try:
        shard.run_case(mod, rec, name, fn, seed, idx, "quick")
    except TO:
        print("HANG", idx, name)
        break
    signal.alarm(0)
    faulthandler.cancel_dump_traceback_later()
    if time.time() - t0 > 3:
        print("slow", idx, name, round(time.time() - t0, 1))
print("done")
