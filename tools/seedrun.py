#!/venv/bin/python
"""seedrun.py <seeded-dir> [--props C01,C02] [--tier quick] [--seed N]

Apply /verif/seeded/<id>/patch.diff to /repo, run the named checks (default:
the property in meta.json), restore /repo, and append the outcome to
meta.json["checks"].  Never leaves /repo modified (restores in ``finally``).
"""
import argparse
import json
import os
import subprocess
import sys

ROOT = os.path.dirname(os.path.dirname(os.path.abspath(__file__)))


def sh(cmd, **k):
    return subprocess.run(cmd, shell=True, text=True, capture_output=True, **k)


def main():
    ap = argparse.ArgumentParser()
    ap.add_argument("dir")
    ap.add_argument("--props", default=None)
    ap.add_argument("--tier", default="quick")
    ap.add_argument("--seed", default="0")
    ap.add_argument("--budget-scale", default=None)
    ap.add_argument("--only", default=None)
    ap.add_argument("--worktree", default=None,
                    help="apply the patch in this scratch worktree and run the checks against it "
                         "(QMON_REPO) instead of patching /repo")
    args = ap.parse_args()
    d = os.path.abspath(args.dir)
    meta = json.load(open(os.path.join(d, "meta.json")))
    props = args.props.split(",") if args.props else [meta["property"]]
    repo = args.worktree or "/repo"
    st = sh(f"git -C {repo} status --porcelain --untracked-files=no").stdout.strip()
    if st:
        sys.exit(f"refusing: {repo} is dirty:\n" + st)
    r = sh(f"git -C {repo} apply {d}/patch.diff")
    if r.returncode:
        sys.exit("patch does not apply: " + r.stderr)
    results = []
    try:
        for p in props:
            cmd = f"/venv/bin/python {ROOT}/check.py {p} --tier {args.tier} --seed {args.seed} --no-evidence"
            if args.budget_scale:
                cmd += f" --budget-scale {args.budget_scale}"
            if args.only:
                cmd += f" --only {args.only}"
            env = dict(os.environ)
            if args.worktree:
                env["QMON_REPO"] = args.worktree
            r = sh(cmd, timeout=7200, env=env)
            lines = [l for l in r.stdout.splitlines() if l.startswith(("VIOLATION", "[C", "KNOWN", "INCONCLUSIVE"))]
            mechs = sorted({l.split("mech=")[1].split(" events")[0] for l in lines if "mech=" in l})
            print(f"{os.path.basename(d)} {p} tier={args.tier} seed={args.seed} exit={r.returncode}")
            for m in mechs[:12]:
                print("   ", m)
            results.append({"check": p, "tier": args.tier, "seed": args.seed, "exit": r.returncode,
                            "tree": repo,
                            "caught": r.returncode == 1, "mechanisms": mechs[:20]})
    finally:
        sh(f"git -C {repo} checkout -- .")
    meta.setdefault("checks", [])
    meta["checks"] = [c for c in meta["checks"]
                      if not any(c["check"] == r["check"] and c["tier"] == r["tier"] for r in results)] + results
    json.dump(meta, open(os.path.join(d, "meta.json"), "w"), indent=1)


if __name__ == "__main__":
    main()
