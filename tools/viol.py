#!/venv/bin/python
import json,glob,collections,sys
prop=sys.argv[1]; pat=sys.argv[2] if len(sys.argv)>2 else ''
by=collections.defaultdict(list)
for f in glob.glob(f'/verif/.work/{prop}/*.json'):
    if 'replay' in f: continue
    r=json.load(open(f))
    for v in r['violations']:
        by[v['mech']].append(v)
for m,vs in sorted(by.items()):
    if pat not in m: continue
    print('==',m,len(vs))
    for v in vs[:int(sys.argv[3]) if len(sys.argv)>3 else 2]:
        print('   ',json.dumps(v['detail'])[:600], v['case']['workload'], v['case']['idx'])
