#!/venv/bin/python
"""Regenerate MANIFEST.json from the table below + which property modules exist."""
import json, os
ROOT = os.path.dirname(os.path.dirname(os.path.abspath(__file__)))
PY = "/venv/bin/python"

import importlib, sys
sys.path.insert(0, ROOT)

def table():
    out = {}
    for i in range(1, 21):
        pid = f"C{i:02d}"
        try:
            mod = importlib.import_module(f"qmon.props.{pid.lower()}")
        except ModuleNotFoundError:
            continue
        if hasattr(mod, "MANIFEST"):
            out[pid] = mod.MANIFEST
    return out

TABLE = table()

def main():
    checks, na = [], []
    props = [json.loads(l) for l in open(os.path.join(ROOT, "properties.jsonl"))]
    for p in props:
        pid = p["id"]
        modfile = os.path.join(ROOT, "qmon", "props", pid.lower() + ".py")
        if pid in TABLE and os.path.exists(modfile):
            t = TABLE[pid]
            checks.append({
                "property_id": pid,
                "quick_cmd": f"{PY} check.py {pid} --tier quick",
                "thorough_cmd": f"{PY} check.py {pid} --tier thorough",
                "evidence_file": f"evidence/{pid}.json",
                "replay_cmd_template": f"{PY} check.py {pid} --replay {{path}}",
                "engine": "qmon",
                "level_claimed": {"category": "exploration", "text": t["text"],
                                  "design_ref": "DESIGN.md section " + t["ref"]},
                "level_note": t["note"],
                "technique": t["technique"],
            })
        else:
            na.append({"property_id": pid,
                       "reason": TABLE.get(pid, {}).get("na_reason",
                                 "monitor not built yet in this session (work in progress; applicable in principle, see DESIGN.md section 3)")})
    man = {
        "version": 1,
        "setup_cmd": f"{PY} -m pip install -q --no-index --find-links /opt/veriftools/wheels --target /verif/.deps --upgrade icontract jsonschema networkx || true",
        "hooks": {
            "guard": "QUIMB_VERIF",
            "enable": "no source hooks: monitors are attached from /verif at run time (qmon/attach.py); the guard variable is set by check.py for its worker processes and read by nothing in /repo",
            "baseline_off_cmd": "cd /repo && env -u QUIMB_VERIF /venv/bin/python -m pytest -ra -q -p no:cacheprovider --timeout=900 --continue-on-collection-errors",
            "source_commits": [],
            "add_only": True,
        },
        "engines": [{"name": "qmon", "path": "qmon/", "serves_properties": [c["property_id"] for c in checks],
                     "kind_free_text": "runtime monitoring: wrappers on the real quimb callables + independent reference models + sharded seeded workloads; verdict/evidence by check.py"}],
        "checks": checks,
        "not_applicable": na,
        "notes": "All checks: exit 0 held on what was observed; exit 1 + VIOLATION line; exit 2 + INCONCLUSIVE line when a deciding monitor observed nothing. Known findings in known_findings.json (keyed by mechanism). Repairs of genuine defects are unguarded 'fix:' commits in /repo, listed as 'fixed:' there.",
    }
    with open(os.path.join(ROOT, "MANIFEST.json"), "w") as f:
        json.dump(man, f, indent=1)
    print("claimed", [c["property_id"] for c in checks], "n/a", len(na))

if __name__ == "__main__":
    main()
