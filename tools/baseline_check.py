#!/venv/bin/python
"""Run the repository's pinned test suite with the guard OFF (xdist for speed)
and compare with BASELINE.json's stable_pass list. Prints only a summary."""
import json, os, subprocess, sys, xml.etree.ElementTree as ET
out = sys.argv[1] if len(sys.argv) > 1 else "/tmp/baseline_run.xml"
env = dict(os.environ)
env.pop("QUIMB_VERIF", None)
cmd = ["/venv/bin/python", "-m", "pytest", "-q", "-p", "no:cacheprovider", "--timeout=900",
       "--continue-on-collection-errors", *((["-n", os.environ["BASELINE_WORKERS"]]) if os.environ.get("BASELINE_WORKERS") else []),
       f"--junitxml={out}"]
r = subprocess.run(cmd, cwd="/repo", env=env, stdout=subprocess.PIPE, stderr=subprocess.STDOUT, text=True)
print(r.stdout.strip().splitlines()[-1])
b = json.load(open("/root/.vp/BASELINE.json"))
stable = set(b["stable_pass"])
passed = set()
failed = set()
for tc in ET.parse(out).getroot().iter("testcase"):
    name = f"{tc.get('classname')}::{tc.get('name')}"
    bad = any(ch.tag in ("failure", "error") for ch in tc)
    skipped = any(ch.tag == "skipped" for ch in tc)
    if bad:
        failed.add(name)
    elif not skipped:
        passed.add(name)
missing = sorted(stable - passed)
print(f"stable_pass={len(stable)} passed_now={len(passed)} stable_not_passing={len(missing)}")
for m in missing[:40]:
    print("  NOT PASSING:", m, "(failed)" if m in failed else "(missing/skipped)")
sys.exit(1 if missing else 0)
