#!/venv/bin/python
"""mutverify.py <worktree> <i> <seeded-id> [--workers N]

Confirm a candidate seeded change produced in <worktree>/out/ (patch<i>.diff,
demo<i>.py, meta<i>.json):
  1. worktree clean; demo exits 0 on the clean tree
  2. patch applies; demo exits non-zero on the patched tree
  3. the repository's pinned suite, run in the patched worktree, still passes
     every test of BASELINE.json's stable_pass list
then store it as /verif/seeded/<seeded-id>/ {patch.diff, demo.py, meta.json}.
The worktree is always restored (git checkout -- .).
"""
import json
import os
import shutil
import subprocess
import sys
import xml.etree.ElementTree as ET

ROOT = os.path.dirname(os.path.dirname(os.path.abspath(__file__)))


def sh(cmd, cwd=None, env=None, timeout=None):
    return subprocess.run(cmd, shell=True, text=True, capture_output=True, cwd=cwd, env=env,
                          timeout=timeout)


def main():
    wt, i, sid = sys.argv[1], sys.argv[2], sys.argv[3]
    workers = "10"
    if "--workers" in sys.argv:
        workers = sys.argv[sys.argv.index("--workers") + 1]
    out = os.path.join(wt, "out")
    patch, demo, metaf = (os.path.join(out, f"{n}{i}.{e}") for n, e in
                          (("patch", "diff"), ("demo", "py"), ("meta", "json")))
    env = dict(os.environ)
    env.pop("QUIMB_VERIF", None)
    env["PYTHONPATH"] = wt
    env["OMP_NUM_THREADS"] = "1"
    res = {"worktree_head": sh("git rev-parse HEAD", cwd=wt).stdout.strip()}
    st = sh("git status --porcelain --untracked-files=no", cwd=wt).stdout.strip()
    if st:
        sys.exit(f"worktree dirty: {st}")
    r = sh(f"/venv/bin/python {demo}", cwd=wt, env=env, timeout=1800)
    res["demo_clean_exit"] = r.returncode
    if r.returncode != 0:
        print("demo fails on clean tree:", r.stdout[-500:], r.stderr[-500:])
        sys.exit(2)
    r = sh(f"git apply {patch}", cwd=wt)
    if r.returncode:
        sys.exit("patch does not apply: " + r.stderr)
    try:
        r = sh(f"/venv/bin/python {demo}", cwd=wt, env=env, timeout=1800)
        res["demo_patched_exit"] = r.returncode
        res["demo_patched_tail"] = (r.stdout + r.stderr)[-600:]
        if r.returncode == 0:
            print("demo passes on patched tree")
            sys.exit(3)
        junit = f"/tmp/mutverify_{sid}.xml"
        cmd = ("/venv/bin/python -m pytest -q -p no:cacheprovider --timeout=900 "
               f"--continue-on-collection-errors -n {workers} --junitxml={junit}")
        r = sh(cmd, cwd=wt, env=env, timeout=4 * 3600)
        res["suite_tail"] = r.stdout.strip().splitlines()[-1] if r.stdout.strip() else r.stderr[-300:]
        b = json.load(open("/root/.vp/BASELINE.json"))
        stable = set(b["stable_pass"])
        passed = set()
        for tc in ET.parse(junit).getroot().iter("testcase"):
            name = f"{tc.get('classname')}::{tc.get('name')}"
            if not any(ch.tag in ("failure", "error", "skipped") for ch in tc):
                passed.add(name)
        os.remove(junit)
        missing = sorted(stable - passed)
        res["stable_pass"] = len(stable)
        res["first_run_not_passing"] = missing[:20]
        # a handful of stochastic tests (random probes, xdist order dependent
        # global seeding) fail occasionally on the clean tree too: re-run each
        # not-passing test on its own, twice, in the patched tree
        if 0 < len(missing) <= 6:
            still = []
            for m in missing:
                parts = m.split("::")
                mod = parts[0].split(".")
                # classname may include a test class as the last dotted item
                path = None
                for cut in range(len(mod), 0, -1):
                    cand = os.path.join(wt, *mod[:cut]) + ".py"
                    if os.path.exists(cand):
                        path = "/".join(mod[:cut]) + ".py"
                        rest = mod[cut:]
                        break
                nodeid = "::".join([path] + rest + parts[1:])
                okc = 0
                for _ in range(2):
                    rr = sh(f"/venv/bin/python -m pytest -q -p no:cacheprovider --timeout=900 '{nodeid}'",
                            cwd=wt, env=env, timeout=3600)
                    okc += int(rr.returncode == 0)
                if okc < 2:
                    still.append(m)
            res["rerun_alone_twice_still_failing"] = still
            missing = still
        res["stable_not_passing"] = missing[:20]
    finally:
        sh("git checkout -- .", cwd=wt)
    print(sid, json.dumps({k: v for k, v in res.items() if k != "demo_patched_tail"}))
    if res["stable_not_passing"]:
        print("REJECTED: existing tests catch it")
        sys.exit(4)
    dst = os.path.join(ROOT, "seeded", sid)
    os.makedirs(dst, exist_ok=True)
    shutil.copy(patch, os.path.join(dst, "patch.diff"))
    shutil.copy(demo, os.path.join(dst, "demo.py"))
    meta = json.load(open(metaf)) if os.path.exists(metaf) else {}
    meta = {"property": sid.split("-")[0], "from_subagent": meta, "confirmed": res,
            "what_i_ran": [f"demo on clean worktree (exit {res['demo_clean_exit']})",
                           f"demo on patched worktree (exit {res['demo_patched_exit']})",
                           "pinned pytest suite in the patched worktree (-n %s): %s; every "
                           "BASELINE stable_pass test passed" % (workers, res["suite_tail"])]}
    json.dump(meta, open(os.path.join(dst, "meta.json"), "w"), indent=1)
    print("stored", dst)


if __name__ == "__main__":
    main()
