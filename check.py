#!/venv/bin/python
"""check.py <Cxx> [--tier quick|thorough] [--seed N] [--replay path]

Runs the monitors + workloads of one property against /repo's working tree,
sharded over worker processes, merges what the monitors observed, classifies
violations against known_findings.json, rewrites evidence/<id>.json.

exit 0: held on everything observed (apart from listed known findings)
exit 1: VIOLATION property=<id> replay=<path>
exit 2: INCONCLUSIVE (a deciding monitor observed nothing)
"""

import argparse
import collections
import hashlib
import importlib
import json
import os
import shutil
import subprocess
import sys
import time

ROOT = os.path.dirname(os.path.abspath(__file__))
PY = os.environ.get("QMON_PYTHON", "/venv/bin/python")
DEPS = os.path.join(ROOT, ".deps")
WORK = os.path.join(ROOT, ".work")
if os.environ.get("QMON_REPO"):
    # runs against another checkout never share scratch space with runs on /repo
    WORK = os.path.join(ROOT, ".work_alt", os.path.basename(os.environ["QMON_REPO"].rstrip("/")))
WHEELS = "/opt/veriftools/wheels"


def bootstrap():
    """install third-party helpers beside the repo's interpreter, offline"""
    if os.path.isdir(os.path.join(DEPS, "icontract")) and os.path.isdir(
            os.path.join(DEPS, "networkx")):
        return
    os.makedirs(DEPS, exist_ok=True)
    subprocess.run(
        [PY, "-m", "pip", "install", "-q", "--no-index", "--find-links", WHEELS,
         "--target", DEPS, "--upgrade", "icontract", "jsonschema", "networkx"],
        stdout=subprocess.DEVNULL, stderr=subprocess.DEVNULL, check=False,
    )


def child_env(extra=None):
    env = dict(os.environ)
    # QMON_REPO: (mutation tooling only) import quimb from another checkout,
    # e.g. a scratch worktree with a seeded change applied, instead of /repo
    alt = [env["QMON_REPO"]] if env.get("QMON_REPO") else []
    env["PYTHONPATH"] = os.pathsep.join(
        alt + [ROOT, DEPS] + ([env["PYTHONPATH"]] if env.get("PYTHONPATH") else []))
    env["PYTHONHASHSEED"] = "0"
    env.setdefault("OMP_NUM_THREADS", "1")
    env.setdefault("OPENBLAS_NUM_THREADS", "1")
    env.setdefault("MKL_NUM_THREADS", "1")
    env["QUIMB_VERIF"] = "1"
    env["PYTHONDONTWRITEBYTECODE"] = "1"
    env["PYTHONWARNINGS"] = "ignore"
    if extra:
        env.update(extra)
    return env


CRASH_SIGNALS = {4: "SIGILL", 6: "SIGABRT", 7: "SIGBUS", 8: "SIGFPE", 11: "SIGSEGV"}


def run_shards(prop, mod, tier, seed, wdir, mode_name, mode_env, nshards,
               budget_scale=1.0, only=None):
    """Run the shards; a shard that the *library* takes down with a fatal
    signal (segfault / abort inside a JIT kernel) is itself an observation: a
    crash event for the case that was running is recorded, the shard's last
    checkpoint is kept, and the shard is resumed after that case (at most 3
    times).  Shards that die otherwise (killed, timeout) count as dead."""
    budget = mod.BUDGET[tier] * budget_scale
    hard = budget * 2.5 + 240
    t0 = time.time()
    results, dead = [], 0
    todo = [(i, None, 0) for i in range(nshards)]     # (shard, start, restarts)
    while todo:
        procs = []
        for i, start, nres in todo:
            out = os.path.join(wdir, f"{mode_name}.{i}.json" if not nres else f"{mode_name}.{i}.r{nres}.json")
            for ext in ("", ".cur", ".part"):
                if os.path.exists(out + ext):
                    os.remove(out + ext)
            log = open(os.path.join(wdir, f"{mode_name}.{i}.log"), "a" if nres else "w")
            left_budget = max(5.0, budget - (time.time() - t0)) if nres else budget
            cmd = [PY, "-m", "qmon.shard", "--prop", prop, "--tier", tier,
                   "--seed", str(seed), "--shard", str(i), "--nshards", str(nshards),
                   "--out", out, "--budget", str(left_budget)]
            if only:
                cmd += ["--only", only]
            if start is not None:
                cmd += ["--start", str(start)]
            p = subprocess.Popen(cmd, cwd=ROOT, env=child_env(mode_env),
                                 stdout=log, stderr=subprocess.STDOUT)
            procs.append((p, out, log, i, nres))
        todo = []
        for p, out, log, i, nres in procs:
            left = max(1.0, hard - (time.time() - t0))
            try:
                p.wait(timeout=left)
            except subprocess.TimeoutExpired:
                p.kill()
                p.wait()
            log.close()
            if os.path.exists(out):
                try:
                    results.append(json.load(open(out)))
                    continue
                except Exception:
                    pass
            sig = -p.returncode if p.returncode is not None and p.returncode < 0 else None
            cur = None
            if sig in CRASH_SIGNALS and os.path.exists(out + ".cur"):
                try:
                    cur = json.load(open(out + ".cur"))
                except Exception:
                    cur = None
            if cur is not None:
                part = None
                if os.path.exists(out + ".part"):
                    try:
                        part = json.load(open(out + ".part"))
                    except Exception:
                        part = None
                if part is None:
                    part = {"property": prop, "counters": [], "violations": [], "samples": [],
                            "sigs": [], "notes": {}, "errors": [], "case_descs": [], "shard": i}
                mech = f"crash:{CRASH_SIGNALS[sig]}:{cur['workload']}"
                part["violations"].append({
                    "property": prop, "entry": "process", "clause": "no_fatal_signal",
                    "mech": mech,
                    "detail": {"signal": CRASH_SIGNALS[sig], "log": os.path.join(wdir, f"{mode_name}.{i}.log")},
                    "case": cur})
                part["counters"].append(["process", "no_fatal_signal", "violation", 1])
                results.append(part)
                if nres < 3:
                    todo.append((i, cur["idx"] + nshards, nres + 1))
                continue
            dead += 1
    return results, dead


def run_suite(prop, mod, tier, seed, wdir):
    """thorough only: drive the repository's own tests as a workload with the
    monitors installed through a pytest plugin that lives in /verif."""
    tests = getattr(mod, "SUITE", None)
    if not tests or tier != "thorough":
        return [], 0
    outdir = os.path.join(wdir, "suite")
    os.makedirs(outdir, exist_ok=True)
    env = child_env({"QMON_PROP": prop, "QMON_SUITE_OUT": outdir,
                     "QMON_SEED": str(seed)})
    cmd = [PY, "-m", "pytest", "-q", "-x", "--no-header", "-p", "no:cacheprovider",
           "-p", "qmon.suite_plugin", "-n", "16", "--timeout=900",
           "--continue-on-collection-errors", "-o", "addopts=",
           "--rootdir", "/repo"] + [os.path.join("/repo", t) for t in tests]
    cmd.remove("-x")
    log = open(os.path.join(wdir, "suite.log"), "w")
    try:
        subprocess.run(cmd, cwd="/repo", env=env, stdout=log,
                       stderr=subprocess.STDOUT,
                       timeout=getattr(mod, "SUITE_TIMEOUT", 3600))
    except subprocess.TimeoutExpired:
        pass
    log.close()
    results = []
    for f in sorted(os.listdir(outdir)):
        if f.endswith(".json"):
            try:
                results.append(json.load(open(os.path.join(outdir, f))))
            except Exception:
                pass
    return results, 0


def merge(results):
    counters = collections.Counter()
    notes = collections.Counter()
    violations, samples, errors, descs = [], [], [], []
    sigs = set()
    for r in results:
        for *k, v in r["counters"]:
            counters[tuple(k)] += v
        for k, v in r["notes"].items():
            if isinstance(v, (int, float)):
                notes[k] += v
        violations += r["violations"]
        samples += r["samples"]
        errors += r["errors"]
        descs += r.get("case_descs", [])
        sigs.update(r["sigs"])
    return counters, notes, violations, samples, errors, descs, sigs


def load_known():
    p = os.path.join(ROOT, "known_findings.json")
    if not os.path.exists(p):
        return {"findings": [], "fixed": []}
    return json.load(open(p))


def main():
    ap = argparse.ArgumentParser()
    ap.add_argument("prop")
    ap.add_argument("--tier", default=os.environ.get("VERIF_TIER", "quick"))
    ap.add_argument("--seed", type=int,
                    default=int(os.environ.get("VERIF_SEED", "0")))
    ap.add_argument("--replay", default=None)
    ap.add_argument("--shards", type=int, default=None)
    ap.add_argument("--budget-scale", type=float, default=1.0)
    ap.add_argument("--only", default=None)
    ap.add_argument("--no-evidence", action="store_true")
    args = ap.parse_args()
    prop = args.prop.upper()
    tier = args.tier if args.tier in ("quick", "thorough") else "quick"
    t0 = time.time()
    bootstrap()
    sys.path.insert(0, ROOT)
    sys.path.insert(1, DEPS)

    if args.replay:
        out = os.path.join(WORK, prop, "replay.json")
        os.makedirs(os.path.dirname(out), exist_ok=True)
        subprocess.run([PY, "-m", "qmon.shard", "--prop", prop, "--out", out,
                        "--replay", args.replay], cwd=ROOT, env=child_env(),
                       check=False)
        r = json.load(open(out))
        for v in r["violations"]:
            print("REPLAY-VIOLATION", json.dumps(v)[:2000])
        for e in r["errors"]:
            print("REPLAY-ERROR", json.dumps(e)[:2000])
        print(f"replayed: {len(r['violations'])} violation event(s)")
        return 1 if r["violations"] else 0

    # the property module is imported here only for its constants (no quimb
    # import at module level)
    mod = importlib.import_module(f"qmon.props.{prop.lower()}")
    wdir = os.path.join(WORK, prop)
    shutil.rmtree(wdir, ignore_errors=True)
    os.makedirs(os.path.join(wdir, "violations"), exist_ok=True)
    nshards = args.shards or min(16, os.cpu_count() or 4)

    modes = [("main", {})]
    if tier == "thorough":
        modes += list(getattr(mod, "EXTRA_MODES", []))
    results, dead, mode_info = [], 0, []
    for mname, menv in modes:
        scale = args.budget_scale * (1.0 if mname == "main" else
                                     getattr(mod, "EXTRA_MODE_SCALE", 0.3))
        rs, d = run_shards(prop, mod, tier, args.seed, wdir, mname, menv,
                           nshards, scale, args.only)
        mode_info.append({"mode": mname, "env": menv, "shards_ok": len(rs),
                          "shards_dead": d})
        results += rs
        dead += d
    rs, _ = run_suite(prop, mod, tier, args.seed, wdir)
    if rs:
        mode_info.append({"mode": "suite", "workers": len(rs)})
    results += rs

    counters, notes, violations, samples, errors, descs, sigs = merge(results)

    # ---- verdict -----------------------------------------------------
    known = load_known()
    kf = [f for f in known.get("findings", []) if f["property"] == prop]
    kf_hits = collections.Counter()
    unknown = collections.OrderedDict()
    for v in violations:
        hit = None
        for f in kf:
            if f["mech"] == v["mech"]:
                hit = f
                break
        if hit is not None:
            kf_hits[hit["mech"]] += 1
        else:
            unknown.setdefault(v["mech"], []).append(v)

    n_ok = sum(v for (e, c, k), v in counters.items() if k == "ok")
    n_viol = sum(v for (e, c, k), v in counters.items() if k == "violation")
    n_amb = sum(v for (e, c, k), v in counters.items() if k == "ambiguous")
    n_rej = sum(v for (e, c, k), v in counters.items() if k == "rejected")
    n_unref = sum(v for (e, c, k), v in counters.items() if k == "unreferenced")
    n_monerr = sum(v for (e, c, k), v in counters.items() if k == "monitor_error")

    deciding = getattr(mod, "DECIDING", [])
    missing = []
    for ent, cl in deciding:
        tot = sum(v for (e, c, k), v in counters.items()
                  if k in ("ok", "violation") and e.startswith(ent)
                  and c.startswith(cl))
        if tot == 0:
            missing.append(f"{ent}:{cl}")

    per_entry = collections.defaultdict(dict)
    for (e, c, k), v in sorted(counters.items()):
        per_entry[f"{e}|{c}"][k] = v

    replay_paths = []
    for mech, evs in unknown.items():
        h = hashlib.sha1(mech.encode()).hexdigest()[:12]
        path = os.path.join(wdir, "violations", f"{h}.json")
        with open(path, "w") as f:
            json.dump(evs[0], f, indent=1)
        replay_paths.append((mech, path, len(evs)))

    wall = time.time() - t0
    evidence = {
        "property_id": prop,
        "tier": tier,
        "seed": args.seed,
        "level": "exploration",
        "coverage": {
            "evaluations": int(n_ok + n_viol + n_amb),
            "distinct_nontrivial": len(sigs),
            "rule": getattr(mod, "RULE", ""),
            "samples": (descs[:6] + samples[:10]) or [{"none": True}],
            "cases_run": int(notes.get("cases_run", 0)),
            "cases_raised_library": int(notes.get("cases_raised_library", 0)),
            "cases_raised_harness": int(notes.get("cases_raised_harness", 0)),
            "workload_cases": {k[3:]: int(v) for k, v in notes.items()
                               if k.startswith("wl:")},
            "oracle_ok": int(n_ok),
            "oracle_violation_events": int(n_viol),
            "oracle_ambiguous": int(n_amb),
            "calls_rejected_by_library": int(n_rej),
            "calls_unreferenced": int(n_unref),
            "monitor_errors": int(n_monerr),
            "per_entry_clause": per_entry,
            "modes": mode_info,
            "dead_shards": dead,
            "known_finding_events": dict(kf_hits),
            "unlisted_violation_mechanisms": [m for m, _, _ in replay_paths],
            "deciding_counters_missing": missing,
            "exhaustive": False,
        },
        "assumptions": getattr(mod, "ASSUMPTIONS", []),
        "wall_s": round(wall, 2),
        "violations": len(unknown),
    }
    if not args.no_evidence:
        os.makedirs(os.path.join(ROOT, "evidence"), exist_ok=True)
        with open(os.path.join(ROOT, "evidence", f"{prop}.json"), "w") as f:
            json.dump(evidence, f, indent=1, sort_keys=True)

    print(f"[{prop}] tier={tier} seed={args.seed} cases={notes.get('cases_run', 0)} "
          f"oracle_ok={n_ok} ambiguous={n_amb} rejected={n_rej} "
          f"unreferenced={n_unref} distinct={len(sigs)} dead_shards={dead} "
          f"monitor_errors={n_monerr} harness_errors={notes.get('cases_raised_harness', 0)} "
          f"wall={wall:.1f}s")
    for e in errors[:5]:
        print("  monitor/harness error:", e["entry"], e["error"][:200])
    for f in kf:
        n = kf_hits.get(f["mech"], 0)
        tail = f"(observed {n} events)" if n else "(not exercised in this run)"
        print(f"KNOWN-FINDING: property={prop} {f['what']} {tail}")
    for mech, path, n in replay_paths:
        print(f"VIOLATION property={prop} replay={path} mech={mech} events={n}")
    if replay_paths:
        return 1
    if missing or dead == len(results) + dead:
        print(f"INCONCLUSIVE property={prop} reason=no observations for {missing}")
        return 2
    return 0


if __name__ == "__main__":
    sys.exit(main())
