"""Independent reference denotation of a labelled tensor network.

Only numpy is used.  Nothing here calls quimb, cotengra or autoray: labels are
read from ``t.inds`` and arrays from ``t.data`` by the caller, this module sees
plain ``(ndarray, labels)`` pairs.

value(ops, exponent, output) = 10**exponent * sum over every label not in
``output`` of the product of all entries.  A label may occur on any number of
tensors and several times on one tensor.
"""

import numpy as np

MAX_REF = 2 ** 22


class TooBig(Exception):
    pass


def default_output(ops):
    cnt = {}
    order = []
    for _, inds in ops:
        for ix in inds:
            if ix not in cnt:
                cnt[ix] = 0
                order.append(ix)
            cnt[ix] += 1
    return tuple(ix for ix in order if cnt[ix] == 1)


def label_sizes(ops):
    """Map label -> size; raises ValueError if tensors disagree."""
    sizes = {}
    for a, inds in ops:
        shp = np.shape(a)
        if len(shp) != len(inds):
            raise ValueError("rank/labels mismatch")
        for ix, d in zip(inds, shp):
            if sizes.setdefault(ix, d) != d:
                raise ValueError(f"size clash on {ix!r}")
    return sizes


def _pair(a, ai, b, bi, keep):
    """Contract two labelled arrays, keeping every label in ``keep``."""
    labs = {}
    for ix in ai + bi:
        if ix not in labs:
            labs[ix] = len(labs)
    out = []
    for ix in ai + bi:
        if ix in keep and ix not in out:
            out.append(ix)
    if len(labs) > 50:
        raise TooBig("too many labels in one step")
    r = np.einsum(
        a, [labs[i] for i in ai], b, [labs[i] for i in bi],
        [labs[i] for i in out],
    )
    return r, tuple(out)


def _single(a, ai, keep):
    labs = {}
    for ix in ai:
        if ix not in labs:
            labs[ix] = len(labs)
    out = []
    for ix in ai:
        if ix in keep and ix not in out:
            out.append(ix)
    r = np.einsum(a, [labs[i] for i in ai], [labs[i] for i in out])
    return r, tuple(out)


def value(ops, exponent=0.0, output=None, max_size=MAX_REF, absolute=False):
    """Dense value of the network.

    ops: sequence of (array, labels).  Returns ndarray with axes ordered as
    ``output`` (0-d array for scalars).  Raises TooBig when an intermediate
    would exceed ``max_size`` elements.
    """
    ops = [(np.asarray(a), tuple(inds)) for a, inds in ops]
    if not np.isfinite(exponent) or abs(exponent) > 300:
        raise ValueError("exponent out of range")
    if absolute:
        ops = [(np.abs(a).astype(np.float64), inds) for a, inds in ops]
    else:
        ops = [
            (a.astype(np.complex128 if np.iscomplexobj(a) else np.float64), inds)
            for a, inds in ops
        ]
    sizes = label_sizes(ops)
    if output is None:
        output = default_output(ops)
    output = tuple(output)
    for ix in output:
        if ix not in sizes:
            raise ValueError(f"output label {ix!r} not in network")
    if len(set(output)) != len(output):
        raise ValueError("repeated output label")
    if not ops:
        r = np.asarray(1.0)
        return r * 10.0 ** exponent

    # how many operands still mention each label
    remaining = {}
    for _, inds in ops:
        for ix in set(inds):
            remaining[ix] = remaining.get(ix, 0) + 1
    outset = set(output)

    todo = list(range(len(ops)))
    # start from the smallest tensor, then greedily absorb the connected
    # operand that yields the smallest intermediate
    first = min(todo, key=lambda i: ops[i][0].size)
    todo.remove(first)
    a, ai = ops[first]
    for ix in set(ai):
        remaining[ix] -= 1
    keep = outset | {ix for ix, c in remaining.items() if c > 0}
    a, ai = _single(a, ai, keep)

    while todo:
        best = None
        aset = set(ai)
        for i in todo:
            b, bi = ops[i]
            bset = set(bi)
            rem = dict()
            res = 1
            for ix in aset | bset:
                c = remaining[ix] - (1 if ix in bset else 0)
                if ix in outset or c > 0:
                    res *= sizes[ix]
            shared = len(aset & bset)
            score = (0 if shared else 1, res)
            if best is None or score < best[0]:
                best = (score, i, res)
        _, i, res = best
        if res > max_size:
            raise TooBig(f"intermediate {res}")
        b, bi = ops[i]
        todo.remove(i)
        for ix in set(bi):
            remaining[ix] -= 1
        keep = outset | {ix for ix, c in remaining.items() if c > 0}
        a, ai = _pair(a, ai, b, bi, keep)

    # final axis order
    assert set(ai) == outset, (ai, output)
    perm = [ai.index(ix) for ix in output]
    a = np.transpose(a, perm) if perm else a
    return np.asarray(a) * 10.0 ** exponent


def value_and_scale(ops, exponent=0.0, output=None, max_size=MAX_REF):
    """(V, S): the value and a round-off scale = max entry of the network of
    absolute values (any floating point evaluation route has error
    O(n eps S))."""
    v = value(ops, exponent, output, max_size)
    s = value(ops, exponent, output, max_size, absolute=True)
    sc = float(np.max(s)) if s.size else 0.0
    return v, sc
