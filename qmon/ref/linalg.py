"""Textbook dense linear algebra references (numpy / scipy.linalg only)."""

import functools

import numpy as np
import scipy.linalg as sla


def dense(x):
    """dense ndarray of anything matrix-like (scipy sparse, qarray, ...)"""
    if hasattr(x, "toarray"):
        x = x.toarray()
    return np.asarray(x)


def kron_all(ops):
    return functools.reduce(np.kron, [dense(o) for o in ops])


def embed(op, dims, inds):
    """operator acting with ``op`` on subsystems ``inds`` (in that order) and
    identity elsewhere; any inds order, not necessarily contiguous."""
    dims = list(dims)
    n = len(dims)
    inds = list(inds)
    din = [dims[i] for i in inds]
    op = dense(op).reshape(din + din)
    D = int(np.prod(dims))
    full = np.eye(D, dtype=np.result_type(op.dtype, np.float64)).reshape(dims + dims)
    # out[i_all, j_all] = op[i_inds, j_inds] * delta(rest)
    rest = [i for i in range(n) if i not in inds]
    drest = [dims[i] for i in rest]
    eye_rest = np.eye(int(np.prod(drest)) if drest else 1).reshape(drest + drest)
    # build via einsum over letters
    t = np.tensordot(op, eye_rest, axes=0)
    # axes of t: op_rows(inds) op_cols(inds) rest_rows rest_cols
    k = len(inds)
    r = len(rest)
    cur_rows = inds + rest
    # target order rows 0..n-1 then cols 0..n-1
    perm_rows = [None] * n
    for pos, site in enumerate(inds):
        perm_rows[site] = pos
    for pos, site in enumerate(rest):
        perm_rows[site] = 2 * k + pos
    perm_cols = [None] * n
    for pos, site in enumerate(inds):
        perm_cols[site] = k + pos
    for pos, site in enumerate(rest):
        perm_cols[site] = 2 * k + r + pos
    t = np.transpose(t, perm_rows + perm_cols)
    return t.reshape(D, D)


def permute(p, dims, perm):
    p = dense(p)
    dims = list(dims)
    perm = list(perm)
    D = int(np.prod(dims))
    n = len(dims)
    if p.ndim == 2 and p.shape[0] == p.shape[1] and p.shape[0] == D and D > 1:
        return p.reshape(dims + dims).transpose(perm + [n + q for q in perm]).reshape(D, D)
    if p.shape == (1, 1):
        return p
    if p.shape[0] == 1:  # bra
        return p.reshape(dims).transpose(perm).reshape(1, D)
    return p.reshape(dims).transpose(perm).reshape(D, 1)


def ptrace(p, dims, keep):
    """reduced density matrix on the (ascending-sorted) kept subsystems"""
    p = dense(p)
    dims = list(dims)
    n = len(dims)
    D = int(np.prod(dims))
    if isinstance(keep, (int, np.integer)):
        keep = [int(keep)]
    keep = sorted(set(int(k) for k in keep))
    if p.shape != (D, D):
        v = p.reshape(-1)
        p = np.outer(v, v.conj())
    t = p.reshape(dims + dims)
    rows = list(range(n))
    cols = [i if i not in keep else n + i for i in range(n)]
    out = [i for i in keep] + [n + i for i in keep]
    r = np.einsum(t, rows + cols, out)
    d = int(np.prod([dims[i] for i in keep])) if keep else 1
    return r.reshape(d, d)


def partial_transpose(p, dims, sysa):
    p = dense(p)
    dims = list(dims)
    n = len(dims)
    D = int(np.prod(dims))
    if isinstance(sysa, (int, np.integer)):
        sysa = [int(sysa)]
    if p.shape != (D, D):
        v = p.reshape(-1)
        p = np.outer(v, v.conj())
    t = p.reshape(dims + dims)
    perm = list(range(2 * n))
    for i in sysa:
        perm[i], perm[n + i] = perm[n + i], perm[i]
    return t.transpose(perm).reshape(D, D)


def herm_eigvals(a):
    return np.linalg.eigvalsh((a + a.conj().T) / 2)


def entropy_vn(rho):
    ev = herm_eigvals(dense(rho))
    ev = ev[ev > 1e-15]
    return float(-np.sum(ev * np.log2(ev)))


def sqrtm_psd(a):
    a = dense(a)
    w, v = np.linalg.eigh((a + a.conj().T) / 2)
    w = np.clip(w, 0, None)
    return (v * np.sqrt(w)) @ v.conj().T


def fidelity(r1, r2, squared=False):
    s = sqrtm_psd(r1)
    m = s @ dense(r2) @ s
    ev = np.clip(herm_eigvals(m), 0, None)
    f = float(np.sum(np.sqrt(ev)))
    return f ** 2 if squared else f


def trace_norm(a):
    return float(np.sum(np.linalg.svd(dense(a), compute_uv=False)))


def as_dop(p):
    p = dense(p)
    if p.ndim == 1 or 1 in p.shape:
        v = p.reshape(-1)
        return np.outer(v, v.conj())
    return p


def expm(a):
    return sla.expm(dense(a))
