"""Seeded generators shared by the workloads (random labelled networks etc.).
quimb is imported lazily so that check.py can import property modules for
their constants without importing quimb."""

import itertools
import os
import string

import numpy as np

DTYPES = ["float64", "complex128", "float32", "complex64"]


def rand_array(rng, shape, dtype="float64", scale=1.0):
    x = rng.standard_normal(shape)
    if np.dtype(dtype).kind == "c":
        x = x + 1j * rng.standard_normal(shape)
    return (scale * x).astype(dtype)


def choice(rng, seq, p=None):
    return seq[int(rng.choice(len(seq), p=p))]


def attempt(fn, *a, **k):
    """call library code; a library-side exception is a rejection (recorded by
    the monitors), not a harness failure"""
    try:
        return fn(*a, **k)
    except Exception as e:  # noqa
        from .shard import classify_exception
        if classify_exception(e) == "harness":
            raise
        if os.environ.get("QMON_DEBUG"):
            import traceback
            print("REJECTED:", getattr(fn, "__qualname__", fn), repr(e)[:300])
            if os.environ.get("QMON_DEBUG") == "2":
                traceback.print_exc(limit=-3)
        return None


REJECTED = object()


def attempt2(fn, *a, **k):
    """like ``attempt`` but returns the sentinel REJECTED on a library-side
    exception (for callables that legitimately return None)"""
    try:
        return fn(*a, **k)
    except Exception as e:  # noqa
        from .shard import classify_exception
        if classify_exception(e) == "harness":
            raise
        if os.environ.get("QMON_DEBUG"):
            print("REJECTED:", getattr(fn, "__qualname__", fn), repr(e)[:300])
        return REJECTED


def rand_simple_graph(rng, n, p_edge=0.5, connected=True):
    """random simple graph on n nodes as a sorted list of edges"""
    edges = set()
    if connected:
        for i in range(1, n):
            j = int(rng.integers(0, i))
            edges.add((j, i))
    for i, j in itertools.combinations(range(n), 2):
        if rng.random() < p_edge * 2.0 / max(n, 2):
            edges.add((i, j))
    return sorted(edges)


def rand_tn_spec(rng, hyper=False, max_tensors=6, max_rank=4, dims=(1, 2, 2, 3),
                 dtype=None, min_tensors=1, connected=None, multibond=True,
                 outer_prob=0.5, repeated=False, tags=True):
    """Return a spec dict: {'tensors': [(shape, inds, tags)], 'dtype', 'sizes'}.

    simple (hyper=False): every label occurs on one or two tensors.
    hyper: labels may occur on 3+ tensors.
    """
    n = int(rng.integers(min_tensors, max_tensors + 1))
    if dtype is None:
        dtype = choice(rng, DTYPES, p=[0.4, 0.3, 0.15, 0.15])
    if connected is None:
        connected = rng.random() < 0.7
    inds = [[] for _ in range(n)]
    sizes = {}
    names = (f"{a}{b}" for a, b in itertools.product(string.ascii_lowercase, repeat=2))
    edges = rand_simple_graph(rng, n, connected=connected) if n > 1 else []
    for i, j in edges:
        nb = 1 + int(multibond and rng.random() < 0.15)
        for _ in range(nb):
            if len(inds[i]) < max_rank and len(inds[j]) < max_rank:
                ix = next(names)
                sizes[ix] = int(choice(rng, dims))
                inds[i].append(ix)
                inds[j].append(ix)
    if hyper:
        nh = int(rng.integers(1, 3))
        for _ in range(nh):
            k = int(rng.integers(3, max(4, min(n, 5) + 1)))
            cand = [i for i in range(n) if len(inds[i]) < max_rank]
            if len(cand) >= 3:
                who = rng.choice(cand, size=min(k, len(cand)), replace=False)
                ix = next(names)
                sizes[ix] = int(choice(rng, dims))
                for i in who:
                    inds[int(i)].append(ix)
    for i in range(n):
        while len(inds[i]) < max_rank and rng.random() < outer_prob:
            ix = next(names)
            sizes[ix] = int(choice(rng, dims))
            inds[i].append(ix)
        if repeated and inds[i] and len(inds[i]) < max_rank and rng.random() < 0.15:
            inds[i].append(choice(rng, inds[i]))
        rng.shuffle(inds[i])
    tensors = []
    for i in range(n):
        tg = [f"T{i}"]
        if tags:
            for t in "ABCD":
                if rng.random() < 0.35:
                    tg.append(t)
        shape = tuple(sizes[ix] for ix in inds[i])
        tensors.append((shape, tuple(inds[i]), tuple(tg)))
    return {"tensors": tensors, "dtype": dtype, "sizes": sizes}


def build_tensors(rng, spec, scale=1.0):
    import quimb.tensor as qtn
    ts = []
    for shape, inds, tags in spec["tensors"]:
        ts.append(qtn.Tensor(rand_array(rng, shape, spec["dtype"], scale),
                             inds=inds, tags=tags))
    return ts


def build_tn(rng, spec, exponent=0.0, scale=1.0):
    import quimb.tensor as qtn
    tn = qtn.TensorNetwork(build_tensors(rng, spec, scale))
    if exponent:
        tn.exponent = float(exponent)
    return tn


def label_counts(spec):
    cnt = {}
    for _, inds, _ in spec["tensors"]:
        for ix in inds:
            cnt[ix] = cnt.get(ix, 0) + 1
    return cnt


def rand_exponent(rng):
    return float(choice(rng, [0.0, 0.0, 0.5, -0.5, 3.0, -3.0, 1.25, 20.0]))


def rand_path(rng, n):
    """random valid opt_einsum style path for n operands"""
    path = []
    m = n
    while m > 1:
        i, j = sorted(int(x) for x in rng.choice(m, size=2, replace=False))
        path.append((i, j))
        m -= 1
    return tuple(path)


def rand_partition(rng, items, k=None):
    """split a list into k ordered, possibly empty groups"""
    items = list(items)
    rng.shuffle(items)
    if k is None:
        k = int(rng.integers(1, 4))
    groups = [[] for _ in range(k)]
    for it in items:
        groups[int(rng.integers(0, k))].append(it)
    return [tuple(g) for g in groups]
