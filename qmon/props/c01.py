"""C01 - a tensor network denotes one value; every contraction route returns it.

Monitors (pre-snapshot -> real call -> post-check against the independent
einsum semantics of qmon.ref.value) on every evaluating entry point; seeded
workloads cross geometry x outputs x options."""

import functools

import numpy as np

from .. import attach, gen
from ..core import (close, eps_of, exponent_of, ops_of, to_numpy)
from ..ref import value as refv

PROP = "C01"
NCASES = {"quick": 40000, "thorough": 1000000}
BUDGET = {"quick": 55, "thorough": 900}
RULE = ("random labelled (hyper)graph networks (1-7 tensors, rank 0-4, dims 1-3, "
        "4 dtypes, stored exponent) x entry point x options; a case is "
        "non-trivial when the monitored call was referenced (dense reference "
        "computed) and >=2 tensors or a non-zero exponent were involved; "
        "distinct = distinct (entry point, clause, shapes/dtypes, option "
        "tuple) signatures")
ASSUMPTIONS = [
    "reference semantics = sequential numpy.einsum over integer-relabelled "
    "operands in float64/complex128 (qmon/ref/value.py)",
    "tolerance 1e4*eps(dtype)*max(|V|, value of the network of absolute values)",
    "partial contraction of a hyper network with output_inds=None is outside "
    "the documented domain and not judged",
]
DECIDING = [("TensorNetwork.contract", "value"), ("tensor_contract", "value"),
            ("TNLinearOperator", "matvec"), ("TensorNetwork.to_dense", "value")]
SUITE = ["tests/test_tensor/test_tensor_core.py",
         "tests/test_tensor/test_tn1d/test_core.py",
         "tests/test_tensor/test_contract.py"]

MAX_REF = 2 ** 20
FACTOR = 1e4

MANIFEST = dict(
    technique="runtime monitors (pre-snapshot/post-check wrappers) on every contraction entry point vs an independent numpy-einsum reference denotation; seeded hostile network/option generators",
    text="Every call that the workloads (and, in the thorough tier, the repository's own tensor tests) make to tensor_contract, TensorNetwork.contract/contract_tags/contract_cumulative/contract_structured/^/>>/@/to_dense/norm/overlap/trace and TNLinearOperator (matvec, matmat, to_dense, H/T/conj, astype, trace) is compared with the sum-of-products value (x 10**exponent) of the receiver as it was at entry, including label order and partial-contraction networks. Held = held on the executions observed; reach comes from random hypergraph geometry x outputs x optimizers/paths x options.",
    note="Trusted: numpy.einsum, the relabelling in qmon/ref/value.py, tolerance 1e4*eps*scale. Networks too large to densify (>2^20 reference elements) are counted unreferenced and not judged. Non-numpy backends not exercised.",
    ref="3/C01")


# ---------------------------------------------------------------------------
# snapshot helpers
# ---------------------------------------------------------------------------

class Snap:
    """copy of a network's labelled content at entry"""

    def __init__(self, obj, exponent=None):
        self.ops = [(np.array(a, copy=True), inds) for a, inds in ops_of(obj)]
        self.exp = exponent_of(obj) if exponent is None else float(exponent)
        self.eps = eps_of(*[a.dtype for a, _ in self.ops])
        self.G = refv.default_output(self.ops)
        cnt = {}
        for _, inds in self.ops:
            for ix in set(inds):
                cnt[ix] = cnt.get(ix, 0) + 1
        self.nocc = cnt
        self.hyper = any(c > 2 for c in cnt.values())
        self._cache = {}

    def value(self, output):
        output = tuple(output)
        if output not in self._cache:
            try:
                if len(self.ops) > 40:
                    raise refv.TooBig("too many tensors")
                self._cache[output] = refv.value_and_scale(
                    self.ops, self.exp, output, MAX_REF)
            except (refv.TooBig, ValueError, MemoryError):
                self._cache[output] = None
        return self._cache[output]

    def sig(self):
        return (tuple(sorted((a.shape, str(a.dtype)) for a, _ in self.ops)),
                self.exp != 0.0, self.hyper)


def _is_tn(x):
    return hasattr(x, "tensor_map")


def _is_tensor(x):
    return hasattr(x, "inds") and hasattr(x, "data") and not _is_tn(x)


def judge(rec, entry, snap, result, O_req, explicit, partial, opts_sig,
          clause="value"):
    """Compare any result form with the reference value of ``snap``."""
    strip_e = None
    if isinstance(result, tuple) and len(result) == 2 and not _is_tn(result[0]):
        result, strip_e = result
        strip_e = float(np.real(to_numpy(strip_e)))
    if _is_tn(result):
        O = snap.G if partial else O_req
        ref = snap.value(O)
        if ref is None:
            rec.count(entry, clause, "unreferenced")
            return
        try:
            got = refv.value(ops_of(result), exponent_of(result), O, MAX_REF)
        except refv.TooBig:
            rec.count(entry, clause, "unreferenced")
            return
        except ValueError as e:
            rec.check(entry, clause, False, mech=f"{entry}:{clause}:labels_lost",
                      detail={"error": str(e), "O": O, "opts": opts_sig})
            return
        kind = "network"
    else:
        ref = snap.value(O_req)
        if ref is None:
            rec.count(entry, clause, "unreferenced")
            return
        if _is_tensor(result):
            rinds = tuple(result.inds)
            if set(rinds) != set(O_req) or len(rinds) != len(O_req):
                rec.check(entry, "labels", False,
                          mech=f"{entry}:labels:wrong_output_labels",
                          detail={"got": rinds, "want": O_req, "opts": opts_sig})
                return
            if explicit:
                rec.check(entry, "label_order", rinds == tuple(O_req),
                          mech=f"{entry}:label_order",
                          detail={"got": rinds, "want": O_req, "opts": opts_sig},
                          sig=(snap.sig(), opts_sig))
                if rinds != tuple(O_req):
                    return
            got = to_numpy(result.data)
            if rinds != tuple(O_req):
                got = np.transpose(got, [rinds.index(ix) for ix in O_req])
            kind = "tensor"
        else:
            got = to_numpy(result)
            if got.shape != () and got.size == 1 and not O_req:
                got = got.reshape(())
            kind = "scalar"
        if strip_e is not None:
            got = got * 10.0 ** strip_e
    V, scale = ref
    ok, err, bound = close(got, V, scale, snap.eps, FACTOR)
    mech = f"{entry}:{clause}"
    if ok is False and snap.exp != 0.0:
        # diagnosis: is the stored exponent missing / applied twice?
        for name, f in (("exponent_dropped", 10.0 ** snap.exp),
                        ("exponent_doubled", 10.0 ** (-snap.exp))):
            ok2, _, _ = close(np.asarray(got) * f, V, scale, snap.eps, FACTOR)
            if ok2:
                mech += ":" + name
                break
    rec.check(entry, clause, ok, mech=mech,
              detail={"kind": kind, "err": err, "bound": bound,
                      "vmax": float(np.abs(V).max()) if V.size else 0.0,
                      "exponent": snap.exp, "O": O_req, "partial": partial,
                      "opts": opts_sig, "ntensors": len(snap.ops)},
              sig=(snap.sig(), opts_sig, kind))


def _tagged(tensors, tags, which):
    """independent scan: positions of tensors selected by tags/which"""
    if tags is all or tags is ...:
        return list(range(len(tensors)))
    if isinstance(tags, (str, int)):
        tags = (tags,)
    tags = set(tags)
    inv = which.startswith("!")
    w = which.lstrip("!")
    out = []
    for i, t in enumerate(tensors):
        tt = set(t.tags)
        hit = bool(tags & tt) if w == "any" else tags <= tt
        if hit != inv:
            out.append(i)
    return out


# ---------------------------------------------------------------------------
# monitors
# ---------------------------------------------------------------------------

def install(rec):
    import quimb.tensor as qtn
    from quimb.tensor import tensor_core as tc

    TN = qtn.TensorNetwork

    # ---- tensor_contract -------------------------------------------------
    def pre_tc(*tensors, output_inds=None, get=None, exponent=None, **kw):
        if get is not None or not tensors:
            return None
        if kw.get("backend") not in (None, "numpy", "auto"):
            return None
        return Snap(list(tensors), exponent=0.0 if exponent is None else exponent)

    def post_tc(snap, result, *tensors, output_inds=None, **kw):
        explicit = output_inds is not None
        O = tuple(output_inds) if explicit else snap.G
        sig = ("opt", _optsig(kw.get("optimize")), "strip",
               bool(kw.get("strip_exponent")), "pt", bool(kw.get("preserve_tensor")),
               explicit)
        judge(rec, "tensor_contract", snap, result, O, explicit, False, sig)

    attach.install(tc, "tensor_contract",
                   attach.monitored(rec, "tensor_contract", pre_tc, post_tc))

    # ---- TensorNetwork.contract / contract_tags / cumulative / structured --
    def pre_contract(self, tags=..., output_inds=None, optimize=None, get=None,
                     max_bond=None, **kw):
        if get is not None or max_bond is not None:
            return None
        if kw.get("backend") not in (None, "numpy", "auto"):
            return None
        if isinstance(tags, slice):
            return None
        snap = Snap(self)
        sel = _tagged(list(self.tensor_map.values()), tags, "any")
        snap.partial = len(sel) < len(snap.ops)
        return snap

    def post_contract(snap, result, self, tags=..., output_inds=None,
                      optimize=None, **kw):
        _post_generic("TensorNetwork.contract", snap, result, output_inds,
                      optimize, kw)

    def _post_generic(entry, snap, result, output_inds, optimize, kw):
        explicit = output_inds is not None
        partial = snap.partial
        if _is_tn(result) and len(result.tensor_map) > 1:
            partial = True  # e.g. structured contraction with untagged tensors
        if partial and (snap.hyper or explicit):
            if not _subout_ok(snap, result, output_inds):
                rec.count(entry, "value", "out_of_domain")
                return
        if not partial and not explicit and snap.hyper:
            rec.count(entry, "value", "out_of_domain")
            return
        O = tuple(output_inds) if explicit else snap.G
        sig = ("opt", _optsig(optimize), "strip", bool(kw.get("strip_exponent")),
               "pt", bool(kw.get("preserve_tensor")), "inpl",
               bool(kw.get("inplace")), "eq", repr(kw.get("equalize_norms", "-")),
               explicit, partial, kw.get("which", "-"))
        judge(rec, entry, snap, result, O, explicit, partial, sig)

    def _subout_ok(snap, result, output_inds):
        # a partial contraction with explicit sub-outputs / hyper labels is in
        # the documented domain only if no label that must survive was summed:
        # judged on the result - every once-only label of the entry network
        # must still be present (else the *caller* asked for it to be summed)
        if not _is_tn(result):
            return output_inds is not None
        if output_inds is None and snap.hyper:
            return False
        have = set()
        for t in result.tensor_map.values():
            have.update(t.inds)
        return set(snap.G) <= have

    attach.install(TN, "contract", attach.monitored(
        rec, "TensorNetwork.contract", pre_contract, post_contract))

    def pre_ctags(self, tags, which="any", output_inds=None, optimize=None,
                  get=None, **kw):
        if get is not None:
            return None
        if kw.get("backend") not in (None, "numpy", "auto"):
            return None
        snap = Snap(self)
        sel = _tagged(list(self.tensor_map.values()), tags, which)
        if not sel:
            return None
        snap.partial = len(sel) < len(snap.ops)
        return snap

    def post_ctags(snap, result, self, tags, which="any", output_inds=None,
                   optimize=None, **kw):
        kw = dict(kw, which=which)
        _post_generic("TensorNetwork.contract_tags", snap, result, output_inds,
                      optimize, kw)

    attach.install(TN, "contract_tags", attach.monitored(
        rec, "TensorNetwork.contract_tags", pre_ctags, post_ctags))

    def pre_ccum(self, tags_seq, output_inds=None, **kw):
        if kw.get("get") is not None:
            return None
        snap = Snap(self)
        snap.partial = False
        return snap

    def post_ccum(snap, result, self, tags_seq, output_inds=None, **kw):
        _post_generic("TensorNetwork.contract_cumulative", snap, result,
                      output_inds, kw.get("optimize"), kw)

    attach.install(TN, "contract_cumulative", attach.monitored(
        rec, "TensorNetwork.contract_cumulative", pre_ccum, post_ccum))

    from quimb.tensor.tn1d.core import TensorNetwork1D

    def pre_cstruct(self, tag_slice, structure_bsz=5, optimize="auto", **kw):
        if kw.get("get") is not None:
            return None
        snap = Snap(self)
        snap.partial = False
        return snap

    def post_cstruct(snap, result, self, tag_slice, structure_bsz=5,
                     optimize="auto", **kw):
        kw = dict(kw, which=f"bsz{structure_bsz}")
        _post_generic("TensorNetwork1D.contract_structured", snap, result,
                      kw.get("output_inds"), optimize, kw)

    attach.install(TensorNetwork1D, "contract_structured", attach.monitored(
        rec, "TensorNetwork1D.contract_structured", pre_cstruct, post_cstruct))

    # ---- Tensor @ Tensor ---------------------------------------------------
    def pre_tmatmul(self, other):
        if not _is_tensor(other):
            return None
        if len(set(self.inds)) != len(self.inds) or len(set(other.inds)) != len(other.inds):
            return None  # repeated labels on one tensor: `@` documents no trace semantics
        return Snap([self, other], exponent=0.0)

    def post_tmatmul(snap, result, self, other):
        judge(rec, "Tensor.__matmul__", snap, result, snap.G, False, False, ())

    attach.install(qtn.Tensor, "__matmul__", attach.monitored(
        rec, "Tensor.__matmul__", pre_tmatmul, post_tmatmul))

    def pre_nmatmul(self, other):
        if not (_is_tn(other) or _is_tensor(other)):
            return None
        ops = ops_of(self) + ops_of(other)
        s = Snap.__new__(Snap)
        Snap.__init__(s, [_T(a, i) for a, i in ops],
                      exponent=exponent_of(self) + exponent_of(other))
        return s

    def post_nmatmul(snap, result, self, other):
        if snap.hyper:
            rec.count("TensorNetwork.__matmul__", "value", "out_of_domain")
            return
        judge(rec, "TensorNetwork.__matmul__", snap, result, snap.G, False,
              False, ())

    attach.install(TN, "__matmul__", attach.monitored(
        rec, "TensorNetwork.__matmul__", pre_nmatmul, post_nmatmul))

    # ---- to_dense ----------------------------------------------------------
    def pre_dense(self, *inds_seq, to_qarray=False, **kw):
        if kw.get("tags", all) not in (all, ...):
            return None
        if kw.get("backend") not in (None, "numpy", "auto"):
            return None
        return Snap(self)

    def post_dense(snap, result, self, *inds_seq, to_qarray=False, **kw):
        O = tuple(ix for g in inds_seq for ix in g)
        ref = snap.value(O)
        if ref is None:
            rec.count("TensorNetwork.to_dense", "value", "unreferenced")
            return
        V, scale = ref
        sizes = refv.label_sizes(snap.ops)
        shape = tuple(int(np.prod([sizes[ix] for ix in g], dtype=int))
                      for g in inds_seq)
        got = to_numpy(result)
        if got.shape != shape:
            rec.check("TensorNetwork.to_dense", "shape", False,
                      detail={"got": got.shape, "want": shape})
            return
        ok, err, bound = close(got, V.reshape(shape), scale, snap.eps, FACTOR)
        mech = "TensorNetwork.to_dense:value"
        if ok is False and snap.exp != 0.0:
            ok2, _, _ = close(got * 10.0 ** snap.exp, V.reshape(shape), scale,
                              snap.eps, FACTOR)
            if ok2:
                mech += ":exponent_dropped"
        rec.check("TensorNetwork.to_dense", "value", ok, mech=mech,
                  detail={"err": err, "bound": bound, "groups": inds_seq,
                          "exponent": snap.exp},
                  sig=(snap.sig(), tuple(len(g) for g in inds_seq)))

    attach.install(TN, "to_dense", attach.monitored(
        rec, "TensorNetwork.to_dense", pre_dense, post_dense))

    # ---- norm / overlap / trace ---------------------------------------------
    def pre_norm(self, output_inds=None, squared=False, strip_exponent=False, **kw):
        snap = Snap(self)
        if output_inds is None and snap.hyper:
            return None
        return snap

    def post_norm(snap, result, self, output_inds=None, squared=False,
                  strip_exponent=False, **kw):
        O = tuple(output_inds) if output_inds is not None else snap.G
        ref = snap.value(O)
        if ref is None:
            rec.count("TensorNetwork.norm", "value", "unreferenced")
            return
        V, scale = ref
        n2 = float(np.sum(np.abs(V) ** 2))
        want = n2 if squared else n2 ** 0.5
        if strip_exponent:
            m, e = result
            got = to_numpy(m) * 10.0 ** float(np.real(to_numpy(e)))
        else:
            got = to_numpy(result)
        # error of a norm^2 is governed by scale^2 * numel
        sc = (scale ** 2) * max(V.size, 1)
        if not squared:
            sc = sc ** 0.5
        ok, err, bound = close(got, want, sc, snap.eps, FACTOR)
        if ok is False and not np.all(np.isfinite(got)) and n2 > (
                1e30 if snap.eps > 1e-10 else 1e290):
            ok = None  # the squared norm overflows the working precision
        rec.check("TensorNetwork.norm", "value", ok,
                  detail={"err": err, "bound": bound, "want": want,
                          "squared": squared, "strip": strip_exponent,
                          "exponent": snap.exp},
                  sig=(snap.sig(), squared, strip_exponent))

    attach.install(TN, "norm", attach.monitored(
        rec, "TensorNetwork.norm", pre_norm, post_norm))

    def pre_overlap(self, other, output_inds=None, **kw):
        a = Snap(self)
        b = Snap(other)
        if output_inds is None and (a.hyper or b.hyper):
            return None
        return (a, b)

    def post_overlap(snap, result, self, other, output_inds=None, **kw):
        a, b = snap
        O = tuple(output_inds) if output_inds is not None else a.G
        if set(O) != set(b.G) and output_inds is None:
            rec.count("TensorNetwork.overlap", "value", "out_of_domain")
            return
        ra, rb = a.value(O), b.value(O)
        if ra is None or rb is None:
            rec.count("TensorNetwork.overlap", "value", "unreferenced")
            return
        want = np.sum(np.conj(rb[0]) * ra[0])
        sc = ra[1] * rb[1] * max(ra[0].size, 1)
        ok, err, bound = close(to_numpy(result), want, sc,
                               max(a.eps, b.eps), FACTOR)
        rec.check("TensorNetwork.overlap", "value", ok,
                  detail={"err": err, "bound": bound,
                          "exponents": [a.exp, b.exp]},
                  sig=(a.sig(), b.sig()))

    attach.install(TN, "overlap", attach.monitored(
        rec, "TensorNetwork.overlap", pre_overlap, post_overlap))

    def pre_trace(self, left_inds, right_inds, **kw):
        snap = Snap(self)
        if snap.hyper:
            return None
        if isinstance(left_inds, str):
            left_inds, right_inds = (left_inds,), (right_inds,)
        sizes = refv.label_sizes(snap.ops)
        if len(left_inds) != len(right_inds) or any(
                sizes.get(a) != sizes.get(b) or a not in snap.G or b not in snap.G
                for a, b in zip(left_inds, right_inds)):
            rec.count("TensorNetwork.trace", "value", "out_of_domain")
            return None
        return snap

    def post_trace(snap, result, self, left_inds, right_inds, **kw):
        if isinstance(left_inds, str):
            left_inds, right_inds = (left_inds,), (right_inds,)
        rest = tuple(ix for ix in snap.G if ix not in left_inds
                     and ix not in right_inds)
        O = tuple(left_inds) + tuple(right_inds) + rest
        ref = snap.value(O)
        if ref is None:
            rec.count("TensorNetwork.trace", "value", "unreferenced")
            return
        V, scale = ref
        k = len(left_inds)
        letters = list(range(V.ndim))
        sub = list(range(k)) + list(range(k)) + list(range(2 * k, V.ndim))
        want = np.einsum(V, sub, list(range(2 * k, V.ndim)))
        dl = int(np.prod(V.shape[:k], dtype=int))
        if _is_tensor(result):
            rinds = tuple(result.inds)
            if set(rinds) != set(rest):
                rec.check("TensorNetwork.trace", "labels", False,
                          detail={"got": rinds, "want": rest})
                return
            got = np.transpose(to_numpy(result.data),
                               [rinds.index(ix) for ix in rest])
        elif _is_tn(result):
            got = refv.value(ops_of(result), exponent_of(result), rest, MAX_REF)
        else:
            got = to_numpy(result)
        ok, err, bound = close(got, want, scale * dl, snap.eps, FACTOR)
        mech = "TensorNetwork.trace:value"
        if ok is False and snap.exp != 0.0:
            ok2, _, _ = close(np.asarray(got) * 10.0 ** snap.exp, want,
                              scale * dl, snap.eps, FACTOR)
            if ok2:
                mech += ":exponent_dropped"
        rec.check("TensorNetwork.trace", "value", ok, mech=mech,
                  detail={"err": err, "bound": bound, "exponent": snap.exp},
                  sig=(snap.sig(), k))

    attach.install(TN, "trace", attach.monitored(
        rec, "TensorNetwork.trace", pre_trace, post_trace))

    # ---- TNLinearOperator -----------------------------------------------------
    LO = tc.TNLinearOperator
    orig_init = LO.__init__

    @functools.wraps(orig_init)
    # ---- pairwise in-place routes: the network keeps its value ------------
    def mk_inplace(entry, out_of):
        def pre(self, *a, **k):
            sn = Snap(self)
            O = out_of(sn, self, *a, **k)
            if O is None:
                return None
            return {"snap": sn, "O": tuple(O)}

        def post(s, result, self, *a, **k):
            sn, O = s["snap"], s["O"]
            ref = sn.value(O)
            if ref is None:
                rec.count(entry, "value", "unreferenced")
                return
            after = Snap(self).value(O)
            if after is None:
                rec.check(entry, "value", False, mech=f"{entry}:outer_labels_lost",
                          detail={"O": list(map(str, O)), "outer_after": list(map(str, self.outer_inds()))[:10]})
                return
            V, S = ref
            ok, err, bound = close(after[0], V, max(S, after[1]), sn.eps, 1e4)
            rec.check(entry, "value", ok, mech=f"{entry}:value",
                      detail={"err": err, "bound": bound, "hyper": sn.hyper, "O": list(map(str, O))},
                      sig=(entry, sn.sig()))
        return attach.monitored(rec, entry, pre, post, fam="pair")

    def out_default(sn, self, *a, **k):
        return sn.G

    def out_ind(sn, self, ind, output_inds=None, **k):
        if output_inds is None:
            return sn.G
        if isinstance(output_inds, str):
            output_inds = (output_inds,)
        return tuple(output_inds)

    attach.install(TN, "contract_between", mk_inplace("contract_between", out_default))
    attach.install(TN, "contract_ind", mk_inplace("contract_ind", out_ind))

    def lo_init(self, tns, left_inds, right_inds, ldims=None, rdims=None,
                optimize=None, backend=None, is_conj=False):
        shadow = None
        if rec.enabled and not rec.busy and rec.depth("lo") == 0 and not is_conj:
            rec.busy = True
            try:
                if not _is_tn(tns):
                    tns = tuple(tns)
                snap = Snap(tns)
                left_inds, right_inds = tuple(left_inds), tuple(right_inds)
                ref = snap.value(left_inds + right_inds)
                if ref is not None:
                    V, scale = ref
                    sizes = refv.label_sizes(snap.ops)
                    dl = int(np.prod([sizes[i] for i in left_inds], dtype=int))
                    dr = int(np.prod([sizes[i] for i in right_inds], dtype=int))
                    shadow = (V.reshape(dl, dr), scale, snap.eps, snap.exp,
                              snap.sig())
                else:
                    rec.count("TNLinearOperator", "init", "unreferenced")
            except Exception as e:  # noqa
                rec.monitor_error("TNLinearOperator.__init__", e)
            finally:
                rec.busy = False
        orig_init(self, tns, left_inds, right_inds, ldims=ldims, rdims=rdims,
                  optimize=optimize, backend=backend, is_conj=is_conj)
        self._qmon_shadow = shadow

    LO.__init__ = lo_init

    def _lo_mech(name, got, M, scale, eps, ex, factor=1.0):
        mech = f"TNLinearOperator:{name}"
        if ex != 0.0:
            ok2, _, _ = close(np.asarray(got) * 10.0 ** ex, M, scale * factor,
                              eps, FACTOR)
            if ok2:
                mech += ":exponent_dropped"
        return mech

    def _probe(lo, rng_seed=0):
        """dense matrix of a linear operator by acting on the identity (oracle
        side, unmonitored)"""
        n = lo.shape[1]
        eye = np.eye(n, dtype=np.complex128 if np.dtype(lo.dtype).kind == "c"
                     else np.float64)
        cols = [to_numpy(lo._matvec(eye[:, j])) for j in range(n)]
        if not cols:
            return np.zeros(lo.shape)
        return np.stack(cols, axis=1)

    def mk_action(name, is_mat):
        def pre(self, x):
            sh = getattr(self, "_qmon_shadow", None)
            if sh is None:
                return None
            return (sh, np.array(to_numpy(x), copy=True))

        def post(snap, result, self, x):
            (M, scale, eps, ex, sig), x0 = snap
            xin = x0.reshape(M.shape[1], -1) if is_mat else x0.reshape(-1)
            want = M @ xin
            got = to_numpy(result)
            if not is_mat:
                got = got.reshape(-1)
            f = float(np.abs(xin).sum(axis=0).max()) if xin.size else 1.0
            ok, err, bound = close(got, want, scale * max(f, 1e-300),
                                   max(eps, eps_of(x0.dtype)), FACTOR)
            rec.check("TNLinearOperator", name, ok,
                      mech=_lo_mech(name, got, want, scale, eps, ex, f)
                      if ok is False else None,
                      detail={"err": err, "bound": bound, "exponent": ex,
                              "is_conj": bool(self.is_conj)},
                      sig=(sig, bool(self.is_conj), x0.shape))
        return pre, post

    for nm, is_mat in (("_matvec", False), ("_matmat", True)):
        p, q = mk_action(nm.strip("_"), is_mat)
        attach.install(LO, nm, attach.monitored(rec, "TNLinearOperator" + nm, p, q,
                                                fam="lo"))

    def mk_derive(name, transform):
        def pre(self, *a, **k):
            sh = getattr(self, "_qmon_shadow", None)
            return sh

        def post(sh, result, self, *a, **k):
            M, scale, eps, ex, sig = sh
            want = transform(M, *a, **k)
            eps2 = max(eps, eps_of(result.dtype))
            got = _probe(result)
            ok, err, bound = close(got, want, scale, eps2, FACTOR)
            rec.check("TNLinearOperator", name, ok,
                      mech=_lo_mech(name, got, want, scale, eps2, ex)
                      if ok is False else None,
                      detail={"err": err, "bound": bound, "args": [a, k],
                              "parent_is_conj": bool(self.is_conj)},
                      sig=(sig, name, repr(a), repr(sorted(k.items()))))
            try:
                result._qmon_shadow = (want, scale, eps2, ex, sig)
            except Exception:
                pass
        return pre, post

    def t_copy(M, conj=False, transpose=False):
        if conj:
            M = M.conj()
        if transpose:
            M = M.T
        return M

    def t_astype(M, dtype):
        dt = np.dtype(dtype)
        if dt.kind != "c" and np.iscomplexobj(M):
            return M.real.astype(np.float64)
        return M

    for nm, tr in (("copy", t_copy), ("conj", lambda M: M.conj()),
                   ("_transpose", lambda M: M.T),
                   ("_adjoint", lambda M: M.conj().T), ("astype", t_astype)):
        p, q = mk_derive(nm.strip("_"), tr)
        attach.install(LO, nm, attach.monitored(rec, "TNLinearOperator." + nm,
                                                p, q, fam="lo"))

    def pre_lo_dense(self, *inds_seq, **kw):
        if inds_seq:
            return None
        return getattr(self, "_qmon_shadow", None)

    def post_lo_dense(sh, result, self, *inds_seq, **kw):
        M, scale, eps, ex, sig = sh
        got = to_numpy(result)
        ok, err, bound = close(got, M, scale, eps, FACTOR)
        rec.check("TNLinearOperator", "to_dense", ok,
                  mech=_lo_mech("to_dense", got, M, scale, eps, ex)
                  if ok is False else None,
                  detail={"err": err, "bound": bound, "exponent": ex,
                          "is_conj": bool(self.is_conj)},
                  sig=(sig, bool(self.is_conj)))

    attach.install(LO, "to_dense", attach.monitored(
        rec, "TNLinearOperator.to_dense", pre_lo_dense, post_lo_dense, fam="lo"))
    LO.toarray = LO.to_dense

    def pre_lo_trace(self):
        sh = getattr(self, "_qmon_shadow", None)
        if sh is None or tuple(self.ldims) != tuple(self.rdims):
            return None  # left/right labels must correspond one to one
        return sh

    def post_lo_trace(sh, result, self):
        M, scale, eps, ex, sig = sh
        want = np.trace(M)
        got = to_numpy(result)
        ok, err, bound = close(got, want, scale * M.shape[0], eps, FACTOR)
        mech = None
        if ok is False:
            mech = _lo_mech("trace", got, want, scale, eps, ex, M.shape[0])
            ok3, _, _ = close(np.conj(got), want, scale * M.shape[0], eps, FACTOR)
            if ok3:
                mech += ":conj_ignored"
        rec.check("TNLinearOperator", "trace", ok, mech=mech,
                  detail={"err": err, "bound": bound, "exponent": ex,
                          "is_conj": bool(self.is_conj)},
                  sig=(sig, bool(self.is_conj)))

    attach.install(LO, "trace", attach.monitored(
        rec, "TNLinearOperator.trace", pre_lo_trace, post_lo_trace, fam="lo"))


class _T:
    """minimal labelled array holder for Snap"""

    def __init__(self, data, inds):
        self.data, self.inds = data, inds


def _optsig(o):
    if o is None or isinstance(o, str):
        return o
    if isinstance(o, (tuple, list)):
        return "path"
    return type(o).__name__


# ---------------------------------------------------------------------------
# workloads
# ---------------------------------------------------------------------------

OPTS = [None, None, "greedy", "auto", "auto-hq", "optimal", "random-greedy",
        "PATH", "TREE"]


def _optimize(rng, tn_or_n, output_inds=None):
    o = gen.choice(rng, OPTS)
    n = tn_or_n if isinstance(tn_or_n, int) else tn_or_n.num_tensors
    if o == "PATH":
        return gen.rand_path(rng, n) if n >= 2 else None
    if o == "TREE":
        if isinstance(tn_or_n, int):
            return "greedy"
        try:
            return tn_or_n.contraction_tree("greedy", output_inds=output_inds)
        except Exception:
            return None
    return o


def _rand_outputs(rng, spec, hyper_ok=True):
    cnt = gen.label_counts(spec)
    outer = [ix for ix, c in cnt.items() if c == 1]
    r = rng.random()
    if r < 0.35:
        return None
    out = list(outer)
    if r < 0.55 and out:
        # subset: sum over some outer labels
        out = [ix for ix in out if rng.random() < 0.6]
    elif r < 0.75 and hyper_ok:
        inner = [ix for ix, c in cnt.items() if c >= 2]
        if inner:
            out.append(gen.choice(rng, inner))
    rng.shuffle(out)
    return tuple(out)


def wl_tensor_contract(rng, rec, tier):
    import quimb.tensor as qtn
    hyper = rng.random() < 0.4
    spec = gen.rand_tn_spec(rng, hyper=hyper, repeated=rng.random() < 0.2)
    ts = gen.build_tensors(rng, spec, scale=float(gen.choice(rng, [1.0, 1.0, 1e-3, 30.0])))
    out = _rand_outputs(rng, spec)
    if hyper and out is None:
        out = tuple(ix for ix, c in gen.label_counts(spec).items() if c == 1)
    kw = {}
    if rng.random() < 0.4:
        kw["strip_exponent"] = True
    if rng.random() < 0.4:
        kw["exponent"] = gen.rand_exponent(rng)
    if rng.random() < 0.3:
        kw["preserve_tensor"] = True
    if rng.random() < 0.2:
        kw["drop_tags"] = True
    kw["optimize"] = _optimize(rng, len(ts))
    gen.attempt(qtn.tensor_contract, *ts, output_inds=out, **kw)
    if len(ts) == 2 and not hyper:
        gen.attempt(lambda: ts[0] @ ts[1])
    if len(ts) >= 1:
        gen.attempt(lambda: ts[0].contract(*ts[1:], output_inds=out))
    return {"spec": spec["tensors"], "out": out, "kw": {k: repr(v)[:60] for k, v in kw.items()}}


def _rand_tags(rng, spec):
    pool = ["A", "B", "C", "D"] + [t[2][0] for t in spec["tensors"]]
    k = int(rng.integers(1, 4))
    return tuple(set(gen.choice(rng, pool) for _ in range(k)))


def wl_tn_contract(rng, rec, tier):
    hyper = rng.random() < 0.3
    spec = gen.rand_tn_spec(rng, hyper=hyper, max_tensors=7)
    tn = gen.build_tn(rng, spec, exponent=gen.rand_exponent(rng))
    calls = []
    for _ in range(int(rng.integers(2, 6))):
        r = rng.random()
        out = _rand_outputs(rng, spec)
        if hyper and out is None:
            out = tuple(ix for ix, c in gen.label_counts(spec).items() if c == 1)
        kw = {}
        if rng.random() < 0.35:
            kw["strip_exponent"] = True
        if rng.random() < 0.25:
            kw["preserve_tensor"] = True
        inplace = rng.random() < 0.35
        t = tn.copy() if inplace else tn
        if r < 0.3:
            tags = gen.choice(rng, [all, ..., all])
            kw["optimize"] = _optimize(rng, t, out)
            calls.append(("contract", repr(tags), out, sorted(kw)))
            gen.attempt(t.contract, tags, output_inds=out, inplace=inplace, **kw)
        elif r < 0.55:
            tags = _rand_tags(rng, spec)
            # partial: leave output_inds to the library unless hyper
            o2 = None if not hyper else None
            if rng.random() < 0.3:
                kw["equalize_norms"] = gen.choice(rng, [True, False])
            kw["optimize"] = gen.choice(rng, [None, "greedy", "auto"])
            calls.append(("contract(tags)", tags, o2, sorted(kw)))
            if hyper:
                continue
            gen.attempt(t.contract, tags, inplace=inplace, **kw)
        elif r < 0.75:
            tags = _rand_tags(rng, spec) if rng.random() < 0.7 else gen.choice(rng, [all, ...])
            which = gen.choice(rng, ["any", "all", "!any", "!all"])
            if rng.random() < 0.3:
                kw["equalize_norms"] = gen.choice(rng, [True, False])
            if hyper:
                continue
            calls.append(("contract_tags", repr(tags), which, sorted(kw)))
            gen.attempt(t.contract_tags, tags, which=which, inplace=inplace, **kw)
        elif r < 0.9:
            seq = [_rand_tags(rng, spec) for _ in range(int(rng.integers(1, 5)))]
            if rng.random() < 0.5:
                seq = [(t_[2][0],) for t_ in spec["tensors"]]
                rng.shuffle(seq)
            if rng.random() < 0.3:
                kw["equalize_norms"] = gen.choice(rng, [True, False])
            if hyper:
                continue
            o3 = out if (out is not None and set(out) == set(
                ix for ix, c in gen.label_counts(spec).items() if c == 1)) else None
            calls.append(("contract_cumulative", seq, o3, sorted(kw)))
            gen.attempt(t.contract_cumulative, seq, output_inds=o3,
                        inplace=inplace, **kw)
        else:
            if hyper:
                continue
            op = gen.choice(rng, ["^", "^=", ">>", ">>="])
            tags = _rand_tags(rng, spec) if rng.random() < 0.5 else gen.choice(rng, [all, ...])
            calls.append((op, repr(tags)))
            if op == "^":
                gen.attempt(lambda: t ^ tags)
            elif op == "^=":
                t = tn.copy()

                def f(t=t):
                    t ^= tags
                gen.attempt(f)
            elif op == ">>":
                seq = [(t_[2][0],) for t_ in spec["tensors"]]
                gen.attempt(lambda: t >> seq)
            else:
                t = tn.copy()
                seq = [(t_[2][0],) for t_ in spec["tensors"]]

                def g(t=t):
                    t >>= seq
                gen.attempt(g)
    return {"spec": spec["tensors"], "exponent": tn.exponent, "calls": calls}


def wl_pairwise(rng, rec, tier):
    """contract a (hyper) network to completion pair by pair / index by index:
    every intermediate network denotes the same value"""
    hyper = rng.random() < 0.6
    spec = gen.rand_tn_spec(rng, hyper=hyper, max_tensors=6)
    tn = gen.build_tn(rng, spec, exponent=gen.rand_exponent(rng))
    steps = []
    for _ in range(8):
        if tn.num_tensors < 2:
            break
        if rng.random() < 0.6:
            tids = list(tn.tensor_map)
            i, j = (int(q) for q in rng.choice(len(tids), size=2, replace=False))
            ta = [t for t in tn.tensor_map[tids[i]].tags if len(tn.tag_map[t]) == 1]
            tb = [t for t in tn.tensor_map[tids[j]].tags if len(tn.tag_map[t]) == 1]
            if not ta or not tb:
                break
            steps.append(("between", ta[0], tb[0]))
            if gen.attempt2(tn.contract_between, ta[0], tb[0]) is gen.REJECTED:
                break
        else:
            inner = [ix for ix, tids in tn.ind_map.items() if len(tids) >= 2]
            if not inner:
                break
            ix = gen.choice(rng, sorted(inner))
            steps.append(("ind", ix))
            if gen.attempt2(tn.contract_ind, ix) is gen.REJECTED:
                break
    return {"spec": spec["tensors"], "hyper": hyper, "steps": steps}


def wl_dense_norm(rng, rec, tier):
    import quimb.tensor as qtn
    hyper = rng.random() < 0.2
    spec = gen.rand_tn_spec(rng, hyper=hyper, outer_prob=0.6)
    tn = gen.build_tn(rng, spec, exponent=gen.rand_exponent(rng))
    cnt = gen.label_counts(spec)
    outer = [ix for ix, c in cnt.items() if c == 1]
    calls = []
    # to_dense over a random grouping of the outer labels
    groups = gen.rand_partition(rng, outer)
    kw = {}
    if rng.random() < 0.4:
        kw["optimize"] = _optimize(rng, tn, tuple(ix for g in groups for ix in g))
    gen.attempt(tn.to_dense, *groups, **kw)
    calls.append(("to_dense", groups))
    if rng.random() < 0.3:
        gen.attempt(tn.to_qarray, *groups)
    if not hyper:
        gen.attempt(tn.norm, squared=bool(rng.random() < 0.5),
                    strip_exponent=bool(rng.random() < 0.3))
        # overlap with a differently structured network over the same outer labels
        sizes = spec["sizes"]
        arrs = [qtn.Tensor(gen.rand_array(rng, (sizes[ix],), spec["dtype"]), inds=(ix,))
                for ix in outer]
        if arrs:
            other = qtn.TensorNetwork(arrs)
            other.exponent = gen.rand_exponent(rng)
            gen.attempt(tn.overlap, other)
            calls.append("overlap")
        # trace of equal-size outer pairs
        by_size = {}
        for ix in outer:
            by_size.setdefault(sizes[ix], []).append(ix)
        pairs = []
        for sz, lst in by_size.items():
            while len(lst) >= 2 and rng.random() < 0.8:
                pairs.append((lst.pop(), lst.pop()))
        if pairs:
            k = int(rng.integers(1, len(pairs) + 1))
            li = tuple(p[0] for p in pairs[:k])
            ri = tuple(p[1] for p in pairs[:k])
            gen.attempt(tn.trace, li, ri)
            calls.append(("trace", li, ri))
        # network @ network
        o2 = gen.build_tn(rng, gen.rand_tn_spec(rng, max_tensors=2, outer_prob=0.2))
        if arrs:
            gen.attempt(lambda: tn @ other)
    return {"spec": spec["tensors"], "exponent": tn.exponent, "calls": calls}


def wl_linop(rng, rec, tier):
    import quimb.tensor as qtn
    spec = gen.rand_tn_spec(rng, hyper=False, outer_prob=0.65, max_tensors=5)
    cnt = gen.label_counts(spec)
    outer = [ix for ix, c in cnt.items() if c == 1]
    tn = gen.build_tn(rng, spec, exponent=gen.rand_exponent(rng))
    left, right = gen.rand_partition(rng, outer, 2)
    if rng.random() < 0.5:
        # prefer a square operator when the labels allow one (trace is defined)
        for _ in range(8):
            if int(np.prod([tn.ind_size(ix) for ix in left])) == int(np.prod([tn.ind_size(ix) for ix in right])):
                break
            left, right = gen.rand_partition(rng, outer, 2)
    as_tn = rng.random() < 0.6
    if as_tn:
        lo = gen.attempt(tn.aslinearoperator, left, right,
                         optimize=gen.choice(rng, [None, "greedy", "auto"]))
    else:
        lo = gen.attempt(__import__("quimb.tensor.tensor_core", fromlist=["x"]).TNLinearOperator, tn.tensors, left, right)
    if lo is None:
        return {"spec": spec["tensors"], "rejected": True}
    dt = spec["dtype"]
    ops = []
    cur = lo
    for _ in range(int(rng.integers(2, 8))):
        r = rng.random()
        n, m = cur.shape
        if r < 0.25:
            x = gen.rand_array(rng, (m,), dt)
            gen.attempt(lambda: cur @ x)
            ops.append("matvec")
        elif r < 0.4:
            x = gen.rand_array(rng, (m, int(rng.integers(1, 4))), dt)
            gen.attempt(lambda: cur @ x)
            ops.append("matmat")
        elif r < 0.5:
            gen.attempt(cur.to_dense)
            ops.append("to_dense")
        elif r < 0.6:
            nxt = gen.attempt(lambda: cur.H)
            ops.append("H")
            cur = nxt or cur
        elif r < 0.7:
            nxt = gen.attempt(lambda: cur.T)
            ops.append("T")
            cur = nxt or cur
        elif r < 0.8:
            nxt = gen.attempt(cur.conj)
            ops.append("conj")
            cur = nxt or cur
        elif r < 0.86:
            tgt = gen.choice(rng, ["complex128", "complex64"] if np.dtype(dt).kind == "c"
                             else ["float32", "float64", "complex128"])
            nxt = gen.attempt(cur.astype, tgt)
            ops.append("astype:" + tgt)
            cur = nxt or cur
        elif r < 0.9:
            x = gen.rand_array(rng, (n,), dt)
            gen.attempt(cur.rmatvec, x)
            ops.append("rmatvec")
        else:
            if n == m:
                gen.attempt(cur.trace)
                ops.append("trace")
                if rng.random() < 0.5:
                    # the same question asked of a derived view straight away
                    # (views share caches with the operator they come from)
                    view = gen.choice(rng, ["conj", "H", "T"])
                    v = gen.attempt(cur.conj) if view == "conj" else gen.attempt(lambda: getattr(cur, view))
                    if v is not None:
                        gen.attempt(v.trace)
                        ops.append(view + ".trace")
    return {"spec": spec["tensors"], "exponent": tn.exponent, "left": left,
            "right": right, "ops": ops}


def wl_1d(rng, rec, tier):
    import quimb.tensor as qtn
    L = int(rng.integers(2, 8))
    D = int(rng.integers(1, 5))
    dt = gen.choice(rng, gen.DTYPES)
    seed = int(rng.integers(1 << 30))
    cyc = bool(rng.random() < 0.25) and L > 2
    ket = qtn.MPS_rand_state(L, D, dtype=dt, seed=seed, cyclic=cyc)
    kind = gen.choice(rng, ["norm", "expec", "slice", "extra", "mpo"])
    bsz = int(gen.choice(rng, [1, 2, 3, 5]))
    desc = {"L": L, "D": D, "dtype": dt, "cyclic": cyc, "kind": kind, "bsz": bsz}
    if kind == "norm":
        tn = ket.H & ket
        tn.exponent = gen.rand_exponent(rng)
        gen.attempt(tn.contract, ..., structure_bsz=bsz)
        gen.attempt(lambda: tn ^ all)
        gen.attempt(tn.contract, ..., strip_exponent=True)
    elif kind == "expec":
        A = qtn.MPO_rand_herm(L, 2, dtype=dt if np.dtype(dt).kind == "c" else dt,
                              seed=seed + 1, cyclic=cyc)
        bra = ket.H
        k2 = ket.copy()
        b_, a_, k_ = qtn.tensor_network_align(bra, A, k2)
        tn = b_ & a_ & k_
        tn.exponent = gen.rand_exponent(rng)
        gen.attempt(tn.contract, ..., structure_bsz=bsz)
        gen.attempt(tn.contract, all, optimize="greedy")
        gen.attempt(tn.contract_cumulative, [tn.site_tag(i) for i in range(L)],
                    strip_exponent=bool(rng.random() < 0.5))
    elif kind == "slice":
        i = int(rng.integers(0, L))
        j = int(rng.integers(i, L)) + 1
        tn = ket.copy()
        tn.exponent = gen.rand_exponent(rng)
        gen.attempt(tn.contract, slice(i, j), structure_bsz=bsz)
        gen.attempt(tn.contract_structured, slice(i, j), structure_bsz=bsz,
                    inplace=False)
        gen.attempt(tn.to_dense, [ket.site_ind(s) for s in range(L)])
        desc["slice"] = (i, j)
    elif kind == "extra":
        tn = ket.copy()
        t = qtn.Tensor(gen.rand_array(rng, (2,), dt), inds=(ket.site_ind(0),),
                       tags=("EXTRA",))
        tn |= t
        tn.exponent = gen.rand_exponent(rng)
        gen.attempt(tn.contract, ..., structure_bsz=bsz)
        gen.attempt(tn.contract, all)
    else:
        A = qtn.MPO_rand(L, 2, dtype=dt, seed=seed + 2, cyclic=cyc)
        A.exponent = gen.rand_exponent(rng)
        gen.attempt(A.contract, ..., structure_bsz=bsz)
        gen.attempt(A.to_dense, [A.upper_ind(s) for s in range(L)],
                    [A.lower_ind(s) for s in range(L)])
        gen.attempt(A.trace, [A.upper_ind(s) for s in range(L)],
                    [A.lower_ind(s) for s in range(L)])
    return desc


WORKLOADS = [
    ("tensor_contract", 3, wl_tensor_contract),
    ("tn_contract", 5, wl_tn_contract),
    ("pairwise", 2, wl_pairwise),
    ("dense_norm", 3, wl_dense_norm),
    ("linop", 3, wl_linop),
    ("oned", 2, wl_1d),
]
