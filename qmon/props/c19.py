"""C19 - all representations of one Hamiltonian denote the same operator.

Monitors on SparseOperatorBuilder's build_* / matvec / aslinearoperator /
coupling entry points compare every representation with an independently
assembled reference sum_k coeff_k prod(ops) (own operator table, own
Jordan-Wigner strings); HilbertSpace rank/unrank is enumerated exhaustively."""

import itertools
import math

import numpy as np

from .. import attach, gen
from ..core import close
from ..ref import linalg as rl

PROP = "C19"
NCASES = {"quick": 9000, "thorough": 200000}
BUDGET = {"quick": 70, "thorough": 900}
RULE = ("random term lists (locality 1-4, complex coefficients, repeated terms, "
        "repeated sites inside a term, fermionic +/- ops) on 2-7 sites labelled by "
        "ints/tuples/strings in any ordering, x jordan_wigner x pauli_decompose x "
        "symmetry/sector x representation; HilbertSpace bijection exhaustively over "
        "all ranks for n<=10 (14 thorough); non-trivial = >=2 sites and >=2 terms; "
        "distinct = (representation, nsites, nterms, flags, sector) signatures")
ASSUMPTIONS = [
    "meaning of a term = ordered matrix product of its single-site operators "
    "(own 2x2 table), fermionic ops carrying a Z string over all lower registers "
    "when jordan_wigner is on; register order = HilbertSpace site order",
    "sector builds are only judged for operators whose reference matrix commutes "
    "with the symmetry generator (otherwise the request is outside the domain)",
]
DECIDING = [("builder", "dense"), ("builder", "sparse"), ("builder", "matvec"),
            ("hilbert", "bijection"), ("builder", "sector")]
MANIFEST = dict(
    technique="runtime monitors on SparseOperatorBuilder build_dense/build_sparse_matrix/build_coo_data/matvec/aslinearoperator/build_local_terms/build_matrix_ikron/build_mpo/flatconfig_coupling vs an independently assembled reference operator; exhaustive rank/unrank enumeration of HilbertSpace; spin-chain MPO builders vs matrix-side generators",
    text="Every representation built by the workloads is compared at exit with sum coeff*prod(ops) assembled from an independent operator table and independent Jordan-Wigner strings in the builder's register order, before and after jordan_wigner / pauli_decompose toggles; sector builds against the reference restricted to the independently validated sector basis; HilbertSpace.rank_to_config/config_to_rank enumerated over all ranks (bijection, membership, combinatorial size) for random labellings/orderings/species/sectors; MPO_ham_*/ham_1d_*/SpinHam1D vs quimb.ham_* matrices.",
    note="build_mpo needs networkx, which the check installs offline into /verif/.deps (absent from the repository's own venv). Systems up to 7 sites (D<=128) for the operator side.",
    ref="3/C19")

X = np.array([[0, 1], [1, 0]], dtype=complex)
Y = np.array([[0, -1j], [1j, 0]], dtype=complex)
Z = np.array([[1, 0], [0, -1]], dtype=complex)
OPS = {
    "I": np.eye(2, dtype=complex), "x": X, "y": Y, "z": Z,
    "sx": X / 2, "sy": Y / 2, "sz": Z / 2,
    "+": np.array([[0, 0], [1, 0]], dtype=complex),
    "-": np.array([[0, 1], [0, 0]], dtype=complex),
    "n": np.diag([0, 1]).astype(complex),
    "sn": np.diag([-0.5, 0.5]).astype(complex),
    "h": np.diag([1, 0]).astype(complex),
    "ⴵ": np.array([[0, 1], [-1, 0]], dtype=complex),
}


def site_op(mat, reg, n, jw):
    mats = [Z if (jw and r < reg) else np.eye(2) for r in range(n)]
    mats[reg] = mat
    return rl.kron_all(mats)


def ref_operator(terms, regs, n, jw):
    """terms: [(coeff, ((op, site), ...))]; regs: site -> register"""
    D = 2 ** n
    H = np.zeros((D, D), dtype=complex)
    for coeff, ops in terms:
        M = np.eye(D, dtype=complex)
        for op, site in ops:
            fermi = jw and op in "+-"
            M = M @ site_op(OPS[op], regs[site], n, fermi)
        H += coeff * M
    return H


def state_of(H):
    """reference pieces for the builder object H (read from its public state)"""
    hs = H.hilbert_space
    sites = list(hs.sites)
    regs = {s: hs.site_to_reg(s) for s in sites}
    terms = [(c, ops) for c, ops in H.terms_raw]
    jw = bool(H._transform_jordan_wigner)
    return ref_operator(terms, regs, len(sites), jw), hs


def sector_basis(hs, sector=None, symmetry=None):
    """kron-order indices of the sector's configurations in rank order, with an
    independent membership / bijection / size check. Returns (basis, ok, why)"""
    size = int(hs.get_size(sector, symmetry))
    if sector is None:
        sym, sec = hs.symmetry, hs.sector
        r2f = hs.rank_to_flatconfig
    else:
        from quimb.operator.hilbertspace import HilbertSpace
        hs2 = HilbertSpace({s: hs.site_size(s) for s in hs.sites}, order=None,
                           species=hs._species, sector=sector, symmetry=symmetry)
        sym, sec = hs2.symmetry, hs2.sector
        r2f = hs2.rank_to_flatconfig
        hs = hs2
    n = hs.nsites
    basis = []
    for r in range(size):
        fc = np.asarray(r2f(r)).astype(int)
        basis.append(int("".join(map(str, fc)), 2) if n else 0)
    return basis, sym, sec, hs


def member(fc, sym, sec, hs):
    fc = [int(x) for x in fc]
    if sym is None:
        return True
    if sym == "Z2":
        return sum(fc) % 2 == int(sec)
    if sym == "U1":
        return sum(fc) == int(sec)
    if sym == "U1U1":
        (na, ka), (nb, kb) = sec
        if hs._species_regs is not None:
            (la, ra), (lb, rb) = list(hs._species_regs.items())
            return sum(fc[i] for i in ra) == ka and sum(fc[i] for i in rb) == kb
        return sum(fc[:na]) == ka and sum(fc[na:]) == kb
    return False


def sym_size(n, sym, sec):
    if sym is None:
        return 2 ** n
    if sym == "Z2":
        return 2 ** (n - 1)
    if sym == "U1":
        return math.comb(n, int(sec))
    (na, ka), (nb, kb) = sec
    return math.comb(na, ka) * math.comb(nb, kb)


def conserves(Href, n, sym, sec, hs):
    """does the reference operator stay inside the sector?"""
    D = 2 ** n
    ins = np.array([member([int(b) for b in format(i, f"0{n}b")] if n else [], sym, sec, hs)
                    for i in range(D)])
    leak = np.abs(Href[np.ix_(~ins, ins)]).max() if ins.any() and (~ins).any() else 0.0
    return leak < 1e-12


def install(rec):
    import quimb as qu
    from quimb.operator import builder as qb
    B = qb.SparseOperatorBuilder

    def cmp(entry, clause, got, want, sig, detail, scale=None):
        got = rl.dense(got)
        sc = float(np.abs(want).max()) if want.size else 0.0
        if scale is not None:
            sc = max(sc, float(scale))
        if got.shape != want.shape:
            rec.check(entry, clause, False, mech=f"{entry}:{clause}:shape",
                      detail=dict(detail, got=got.shape, want=want.shape))
            return False
        ok, err, bound = close(got, want, sc, 2.3e-16, 1e4)
        mech = f"{entry}:{clause}"
        if ok is False:
            if close(got, want.T, sc, 2.3e-16, 1e4)[0]:
                mech += ":transposed"
            elif close(got, want.conj(), sc, 2.3e-16, 1e4)[0]:
                mech += ":conjugated"
        rec.check(entry, clause, ok, mech=mech, detail=dict(detail, err=err), sig=sig)
        return ok

    def flags(H):
        return (bool(H._transform_jordan_wigner), H._transform_pauli_decompose)

    def sect_ref(H, sector, symmetry):
        Href, hs = state_of(H)
        n = hs.nsites
        if sector is None and hs.symmetry is None:
            return Href, None
        basis, sym, sec, hs_eff = sector_basis(hs, sector, symmetry)
        if sym is None:
            return Href, None
        if not conserves(Href, n, sym, sec, hs_eff):
            return None, "not_conserved"
        return Href[np.ix_(basis, basis)], (sym, repr(sec))

    def mk_matrix(entry_clause):
        def pre(self, sector=None, symmetry=None, **kw):
            if self.nsites > 8:
                return None
            want, info = sect_ref(self, sector, symmetry)
            if want is None:
                rec.count("builder", entry_clause, "out_of_domain")
                return None
            return {"want": want, "info": info}

        def post(snap, result, self, sector=None, symmetry=None, **kw):
            if entry_clause == "coo":
                import scipy.sparse as sp
                data, rows, cols, d = result
                result = sp.coo_matrix((data, (rows, cols)), shape=(d, d))
            want = snap["want"]
            dt = kw.get("dtype")
            if dt is not None and np.dtype(dt).kind != "c":
                if np.abs(want.imag).max() > 1e-12:
                    rec.count("builder", entry_clause, "out_of_domain")
                    return
            eps_sig = (entry_clause, self.nsites, self.nterms, flags(self), snap["info"],
                       kw.get("stype"), bool(kw.get("parallel")), str(dt))
            ok = cmp("builder", entry_clause, result, want, eps_sig,
                     {"nsites": self.nsites, "nterms": self.nterms, "flags": flags(self),
                      "sector": snap["info"], "kw": {k: str(v) for k, v in kw.items()}})
            if snap["info"] is not None:
                rec.check("builder", "sector", bool(ok), mech=f"builder:sector:{entry_clause}",
                          detail={"sector": snap["info"]}, sig=eps_sig)
        return pre, post

    for name, clause in (("build_dense", "dense"), ("build_sparse_matrix", "sparse"),
                         ("build_coo_data", "coo")):
        p, q = mk_matrix(clause)
        attach.install(B, name, attach.monitored(rec, "builder." + name, p, q, fam="bmat"))

    def pre_mv(self, x, out=None, sector=None, symmetry=None, dtype=None, parallel=False):
        if self.nsites > 8 or out is not None:
            return None
        want, info = sect_ref(self, sector, symmetry)
        if want is None:
            rec.count("builder", "matvec", "out_of_domain")
            return None
        xv = np.asarray(x).reshape(-1)
        return {"want": want @ xv, "info": info,
                "scale": float(np.abs(want).max() * np.abs(xv).sum()) if want.size else 0.0}

    def post_mv(snap, result, self, x, out=None, sector=None, symmetry=None, dtype=None,
                parallel=False):
        cmp("builder", "matvec", np.asarray(result).reshape(-1), snap["want"],
            ("mv", self.nsites, self.nterms, flags(self), snap["info"], bool(parallel)),
            {"nsites": self.nsites, "flags": flags(self), "sector": snap["info"],
             "parallel": parallel}, scale=snap["scale"])

    attach.install(B, "matvec", attach.monitored(rec, "builder.matvec", pre_mv, post_mv,
                                                 fam="bmv"))

    def pre_ik(self, **kw):
        if self.nsites > 8:
            return None
        if self.nterms == 0:
            rec.count("builder", "ikron", "out_of_domain")  # returns None for the zero operator
            return None
        return {"want": state_of(self)[0]}

    def post_ik(snap, result, self, **kw):
        cmp("builder", "ikron", result, snap["want"],
            ("ikron", self.nsites, self.nterms, flags(self)),
            {"nsites": self.nsites, "flags": flags(self)})

    attach.install(B, "build_matrix_ikron", attach.monitored(
        rec, "builder.build_matrix_ikron", pre_ik, post_ik, fam="bik"))

    def pre_lt(self, dtype=None):
        if self.nsites > 8:
            return None
        Href, hs = state_of(self)
        return {"want": Href, "hs": hs}

    def post_lt(snap, result, self, dtype=None):
        hs = snap["hs"]
        n = hs.nsites
        tot = np.zeros((2 ** n, 2 ** n), dtype=complex)
        for sites, hk in result.items():
            if len(sites) == 0:
                tot += np.asarray(hk).reshape(()) * np.eye(2 ** n)
                continue
            tot += rl.embed(hk, [2] * n, [hs.site_to_reg(s) for s in sites])
        cmp("builder", "local_terms", tot, snap["want"],
            ("lt", n, self.nterms, flags(self)), {"nsites": n, "flags": flags(self)})

    attach.install(B, "build_local_terms", attach.monitored(
        rec, "builder.build_local_terms", pre_lt, post_lt, fam="blt"))

    def pre_mpo(self, method="greedy", dtype=None, **kw):
        if self.nsites > 8 or kw:
            return None
        return {"want": state_of(self)[0]}

    def post_mpo(snap, result, self, method="greedy", dtype=None, **kw):
        n = self.nsites
        ups = [result.upper_ind(i) for i in range(n)]
        los = [result.lower_ind(i) for i in range(n)]
        from ..core import dense_of
        d = dense_of(result, tuple(ups) + tuple(los))
        if d is None:
            rec.count("builder", "mpo", "unreferenced")
            return
        got = d[0].reshape(2 ** n, 2 ** n)
        cmp("builder", "mpo", got, snap["want"], ("mpo", n, self.nterms, flags(self)),
            {"nsites": n, "flags": flags(self)})

    attach.install(B, "build_mpo", attach.monitored(rec, "builder.build_mpo", pre_mpo,
                                                    post_mpo, fam="bmpo"))

    def pre_fc(self, flatconfig, dtype=None):
        if self.nsites > 8:
            return None
        return {"want": state_of(self)[0], "fc": np.array(flatconfig, copy=True)}

    def post_fc(snap, result, self, flatconfig, dtype=None):
        H = snap["want"]
        n = self.nsites
        if n > 8:
            return
        x = int("".join(str(int(b)) for b in snap["fc"]), 2) if n else 0
        col = np.zeros(2 ** n, dtype=complex)
        bjs, cs = result
        seen = set()
        dup = False
        for bj, c in zip(bjs, cs):
            j = int("".join(str(int(b)) for b in bj), 2) if n else 0
            dup |= j in seen
            seen.add(j)
            col[j] += c
        rec.check("builder", "coupling_distinct", not dup, mech="builder:coupling_distinct",
                  detail={"n": n})
        cmp("builder", "coupling", col, H[:, x], ("fc", n, self.nterms, flags(self)),
            {"nsites": n, "flags": flags(self), "x": x},
            scale=float(np.abs(H).max()) if H.size else 0.0)

    attach.install(B, "flatconfig_coupling", attach.monitored(
        rec, "builder.flatconfig_coupling", pre_fc, post_fc, fam="bfc"))


# ---------------------------------------------------------------------------
# workloads
# ---------------------------------------------------------------------------

def rand_sites(rng, n):
    kind = gen.choice(rng, ["int", "tuple", "str", "int_gap"])
    if kind == "int":
        sites = list(range(n))
    elif kind == "int_gap":
        sites = sorted(int(x) for x in rng.choice(30, size=n, replace=False))
    elif kind == "tuple":
        sites = [(i // 2, i % 2) for i in range(n)]
    else:
        sites = [f"s{chr(97 + i)}" for i in range(n)]
    return sites, kind


def rand_terms(rng, sites, fermi):
    names = ["x", "y", "z", "sx", "sy", "sz", "+", "-", "n", "sn", "h"]
    if rng.random() < 0.1:
        names.append("ⴵ")
    nt = int(rng.integers(1, 9))
    terms = []
    for _ in range(nt):
        k = int(rng.integers(1, 5))
        ops = []
        for _ in range(k):
            s = sites[int(rng.integers(0, len(sites)))]
            ops.append((gen.choice(rng, names), s))
        c = complex(np.round(rng.normal(), 3), np.round(rng.normal(), 3) if rng.random() < 0.4 else 0.0)
        if abs(c) < 1e-3:
            c = 1.0
        terms.append((c if c.imag else c.real, tuple(ops)))
    if rng.random() < 0.3 and terms:
        terms.append(terms[0])  # repeated term
    return terms


def wl_builder(rng, rec, tier):
    import quimb as qu
    from quimb.operator import SparseOperatorBuilder, HilbertSpace
    n = int(rng.integers(1, 7))
    sites, kind = rand_sites(rng, n)
    jw = bool(rng.random() < 0.4)
    terms = rand_terms(rng, sites, jw)
    order_mode = gen.choice(rng, ["default", "explicit_perm", "hs_given", "sorted"])
    kw = {}
    if order_mode == "explicit_perm":
        perm = [sites[int(i)] for i in rng.permutation(n)]
        kw["hilbert_space"] = HilbertSpace(sites, order=perm)
    elif order_mode == "hs_given":
        kw["hilbert_space"] = HilbertSpace(sites)
    elif order_mode == "sorted":
        kw["hilbert_space"] = HilbertSpace(list(reversed(sites)), order=True)
    if jw and rng.random() < 0.5:
        kw["jordan_wigner"] = True
    if rng.random() < 0.25:
        kw["pauli_decompose"] = gen.choice(rng, [True, "zx"])
    H = gen.attempt(SparseOperatorBuilder, [(c, *ops) for c, ops in terms], **kw)
    desc = {"n": n, "sites": kind, "nterms": len(terms), "order": order_mode,
            "jw": jw, "kw": {k: str(v)[:30] for k, v in kw.items()},
            "terms": [(str(c), ops) for c, ops in terms[:3]]}
    if H is None:
        desc["rejected"] = True
        return desc
    if jw and "jordan_wigner" not in kw:
        gen.attempt(H.jordan_wigner_transform, True)

    def all_reps():
        gen.attempt(H.build_dense)
        st = gen.choice(rng, ["csr", "csc", "coo", "bsr"])
        gen.attempt(H.build_sparse_matrix, stype=st)
        if rng.random() < 0.3:
            gen.attempt(H.build_sparse_matrix, parallel=int(rng.integers(2, 5)))
        gen.attempt(H.build_coo_data)
        D = 2 ** H.nsites
        x = gen.rand_array(rng, (D,), "complex128")
        gen.attempt(H.matvec, x)
        if rng.random() < 0.3:
            gen.attempt(H.matvec, x, parallel=int(rng.integers(2, 4)))
        lo = gen.attempt(H.aslinearoperator)
        if lo is not None and np.dtype(lo.dtype).kind == "c":
            gen.attempt(lambda: lo @ x)
        gen.attempt(H.build_local_terms)
        gen.attempt(H.build_matrix_ikron)
        if rng.random() < 0.5:
            gen.attempt(H.build_matrix_ikron, sparse=True)
        gen.attempt(H.build_mpo)
        fc = rng.integers(0, 2, size=H.nsites).astype(np.uint8)
        gen.attempt(H.flatconfig_coupling, fc)
        if H.nsites <= 5 and rng.random() < 0.5:
            # <psi|H|psi>/<psi|psi> through the configuration-space estimator
            nn = H.nsites
            psi = gen.rand_array(rng, (2 ** nn,), "complex128")

            def amp(flatconfig):
                return psi[int("".join(str(int(b)) for b in flatconfig), 2) if nn else 0]
            got = gen.attempt2(H.evaluate_exact_flatconfigs, amp)
            if got is not gen.REJECTED:
                rec.busy = True
                try:
                    Href = state_of(H)[0]
                finally:
                    rec.busy = False
                want = complex(np.vdot(psi, Href @ psi) / np.vdot(psi, psi))
                sc = max(float(np.abs(Href).max()) if Href.size else 0.0, 1e-300)
                try:
                    err = abs(complex(got) - want)
                except Exception:
                    err = float("inf")
                rec.check("builder", "exact_estimator", err <= 1e-9 * sc * 2 ** nn,
                          mech="builder:evaluate_exact_flatconfigs", detail={"got": repr(got), "want": repr(want), "n": nn},
                          sig=("evaluate_exact", nn))

    all_reps()
    # rewrites: toggling must keep every representation equal to the meaning
    r = rng.random()
    if r < 0.4:
        gen.attempt(H.pauli_decompose, True, use_zx=bool(rng.random() < 0.3))
        all_reps()
    elif r < 0.6:
        gen.attempt(H.jordan_wigner_transform)
        all_reps()
    elif r < 0.8:
        # add a term after building (caches must be reset)
        extra = rand_terms(rng, sites, jw)[0]
        gen.attempt(H.add_term, *([extra[0]] + list(extra[1])))
        all_reps()
    else:
        # cancel a term after building: add its exact negative (or subtract it)
        try:
            raw = list(H.terms_raw)
        except Exception:
            raw = []
        if raw:
            c, ops = raw[int(rng.integers(0, len(raw)))]
            if rng.random() < 0.5:
                gen.attempt(H.add_term, -c, *ops)
            else:
                gen.attempt(H.__isub__, (c, *ops))
            desc["cancelled"] = True
            all_reps()
    return desc


def wl_sector(rng, rec, tier):
    """symmetric models built in sectors"""
    import quimb as qu
    from quimb.operator import models, SparseOperatorBuilder, HilbertSpace
    n = int(rng.integers(2, 7))
    edges = [(i, i + 1) for i in range(n - 1)]
    if n > 2 and rng.random() < 0.4:
        edges.append((0, n - 1))
    which = gen.choice(rng, ["heis_u1", "heis_z2", "spinless", "hubbard_u1u1", "xyz_z2",
                             "custom_number"])
    desc = {"n": n, "which": which}
    calls = []
    if which == "heis_u1":
        H = models.heisenberg_from_edges(edges, j=(1.0, 1.0, float(rng.normal())), b=(0, 0, 0.3))
        for k in range(n + 1):
            calls.append((k, "U1"))
    elif which == "heis_z2":
        H = models.heisenberg_from_edges(edges, j=tuple(np.round(rng.normal(size=3), 3)))
        calls += [("even", None), ("odd", None), (0, "Z2"), (1, "Z2")]
    elif which == "xyz_z2":
        H = SparseOperatorBuilder()
        for (i, j) in edges:
            H += 0.7, ("x", i), ("x", j)
            H += -0.4, ("y", i), ("y", j)
            H += 0.25j, ("+", i), ("+", j)
            H += -0.25j, ("-", i), ("-", j)
        calls += [("even", None), ("odd", None)]
    elif which == "spinless":
        H = models.fermi_hubbard_spinless_from_edges(edges, t=0.7, V=1.1, mu=0.3)
        for k in range(n + 1):
            calls.append((k, "U1"))
        calls.append(("even", None))
    elif which == "hubbard_u1u1":
        m = max(2, n // 2)
        e2 = [(i, i + 1) for i in range(m - 1)]
        order = gen.choice(rng, [None, "blocked", "interleaved"])
        try:
            H = models.fermi_hubbard_from_edges(e2, t=0.8, U=2.1, mu=0.2, order=order) \
                if order else models.fermi_hubbard_from_edges(e2, t=0.8, U=2.1, mu=0.2)
        except TypeError:
            H = models.fermi_hubbard_from_edges(e2, t=0.8, U=2.1, mu=0.2)
        hs = H.hilbert_space
        ns = hs.nsites
        for ka in range(m + 1):
            kb = int(rng.integers(0, m + 1))
            if hs._species_regs is not None:
                labels = list(hs._species_regs)
                calls.append(({labels[0]: ka, labels[1]: kb}, None))
                calls.append(((ka, kb), "U1U1"))
            else:
                calls.append((((m, ka), (m, kb)), None))
        for k in range(0, ns + 1, 2):
            calls.append((k, "U1"))
        desc["order"] = order
    else:
        H = SparseOperatorBuilder()
        for (i, j) in edges:
            H += complex(0.3, 0.2), ("+", i), ("-", j)
            H += complex(0.3, -0.2), ("+", j), ("-", i)
            H += 0.9, ("n", i), ("n", j)
        for k in range(n + 1):
            calls.append((k, "U1"))
    for sector, symmetry in calls:
        kw = {"sector": sector}
        if symmetry:
            kw["symmetry"] = symmetry
        A = gen.attempt(H.build_dense, **kw)
        gen.attempt(H.build_sparse_matrix, **kw)
        if A is not None and A.shape[0] > 0:
            x = gen.rand_array(rng, (A.shape[0],), "complex128")
            gen.attempt(H.matvec, x, **kw)
            if rng.random() < 0.3:
                gen.attempt(H.matvec, x, parallel=2, **kw)
    desc["ncalls"] = len(calls)
    return desc


def wl_hilbert(rng, rec, tier):
    """exhaustive rank <-> config bijection"""
    from quimb.operator import HilbertSpace
    nmax = 10 if tier == "quick" else 14
    n = int(rng.integers(1, nmax + 1))
    kind = gen.choice(rng, ["nosymm", "Z2", "U1", "U1U1_explicit", "U1U1_species",
                            "mixed_radix"])
    sites, skind = rand_sites(rng, n)
    order = gen.choice(rng, [None, True, "perm"])
    if order == "perm":
        order = [sites[int(i)] for i in rng.permutation(n)]
    kw = {"order": order}
    dims = 2
    if kind == "Z2":
        kw["sector"] = gen.choice(rng, ["even", "odd", 0, 1])
        if isinstance(kw["sector"], int):
            kw["symmetry"] = "Z2"
    elif kind == "U1":
        kw["sector"] = int(rng.integers(0, n + 1))
    elif kind == "U1U1_explicit":
        na = int(rng.integers(0, n + 1))
        kw["sector"] = ((na, int(rng.integers(0, na + 1))), (n - na, int(rng.integers(0, n - na + 1))))
    elif kind == "U1U1_species":
        n = max(n, 2)
        m = n // 2
        n = 2 * m
        sites = [(sp_, i) for sp_ in ("a", "b") for i in range(m)]
        om = gen.choice(rng, [None, "blocked", "interleaved", "perm"])
        if om == "perm":
            om = [sites[int(i)] for i in rng.permutation(n)]
        kw["order"] = om
        kw["species"] = (lambda s: s[0]) if rng.random() < 0.5 else {s: s[0] for s in sites}
        ka, kb = int(rng.integers(0, m + 1)), int(rng.integers(0, m + 1))
        kw["sector"] = gen.choice(rng, [{"a": ka, "b": kb}, (ka, kb)])
        if isinstance(kw["sector"], tuple):
            kw["symmetry"] = "U1U1"
    elif kind == "mixed_radix":
        n = min(n, 7)
        sites = sites[:n]
        if isinstance(kw["order"], list):
            kw["order"] = [s for s in kw["order"] if s in sites]
        dims = [int(rng.integers(1, 5)) for _ in range(n)]
        if all(d == 2 for d in dims):
            dims[0] = 3
    desc = {"n": n, "kind": kind, "sites": skind,
            "kw": {k: (str(v)[:40]) for k, v in kw.items()}}
    try:
        hs = HilbertSpace(sites, dims=dims, **kw)
        size = int(hs.size)
    except Exception:
        rec.count("hilbert", "bijection", "rejected")
        desc["rejected"] = True
        return desc
    sym, sec = hs.symmetry, hs.sector
    if kind == "mixed_radix":
        want_size = int(np.prod(dims))
    else:
        want_size = sym_size(n, sym, sec)
    rec.check("hilbert", "size", size == want_size, mech=f"hilbert:size:{kind}",
              detail=dict(desc, got=size, want=want_size), sig=(kind, n, repr(sec)))
    if size > 20000:
        rec.count("hilbert", "bijection", "unreferenced")
        return desc
    seen = set()
    ok_member = ok_round = ok_range = True
    site_list = list(hs.sites)
    for r in range(size):
        cfg = hs.rank_to_config(r)
        fc = [int(cfg[s]) for s in site_list]
        if kind == "mixed_radix":
            ok_range &= all(0 <= v < hs.site_size(s) for v, s in zip(fc, site_list))
        else:
            ok_member &= member(fc, sym, sec, hs)
        seen.add(tuple(fc))
        ok_round &= int(hs.config_to_rank(cfg)) == r
    ok = len(seen) == size and ok_member and ok_round and ok_range
    why = ("not_injective" if len(seen) != size else "outside_sector" if not ok_member
           else "roundtrip" if not ok_round else "out_of_range" if not ok_range else "")
    rec.check("hilbert", "bijection", ok, mech=f"hilbert:bijection:{kind}:{why}",
              detail=dict(desc, size=size, distinct=len(seen)),
              sig=(kind, n, repr(sec), skind, str(kw.get("order"))[:20]))
    # sites must be a permutation of the given labels in the requested order
    if isinstance(kw.get("order"), list):
        rec.check("hilbert", "order", site_list == kw["order"], mech="hilbert:order",
                  detail=desc)
    elif kw.get("order") is True:
        rec.check("hilbert", "order", site_list == sorted(sites), mech="hilbert:order",
                  detail=desc)
    # rank of a config outside [0,size) never returned for inside configs: done above.
    return desc


def wl_spin_chains(rng, rec, tier):
    """MPO / LocalHam builders vs matrix-side generators for the same model"""
    import quimb as qu
    import quimb.tensor as qtn
    from ..core import dense_of
    L = int(rng.integers(2, 7))
    cyclic = bool(rng.random() < 0.4) and L > 2
    which = gen.choice(rng, ["heis", "ising", "XY", "mbl", "spinham", "spinham", "heis_S1", "bilbiq", "zspin", "heis2d"])
    S = 0.5
    desc = {"L": L, "cyclic": cyclic, "which": which}

    def mpo_dense(mpo):
        d = dense_of(mpo, tuple(mpo.upper_ind(i) for i in range(L))
                     + tuple(mpo.lower_ind(i) for i in range(L)))
        if d is None:
            return None
        D = int(round(np.sqrt(d[0].size)))
        return d[0].reshape(D, D)

    def localham_dense(lh, dloc=2):
        tot = np.zeros((dloc ** L, dloc ** L), dtype=complex)
        for (i, j), h in lh.terms.items():
            tot += rl.embed(np.asarray(h), [dloc] * L, [i, j])
        return tot

    def check(name, got, want):
        if got is None:
            rec.count("chains", name, "unreferenced")
            return
        sc = float(np.abs(want).max())
        ok, err, _ = close(got, want, sc, 2.3e-16, 1e4)
        rec.check("chains", name, ok, mech=f"chains:{name}:{which}",
                  detail=dict(desc, err=err), sig=(name, which, L, cyclic))

    if which in ("heis", "heis_S1"):
        if which == "heis_S1":
            S = 1
            L = min(L, 4)
            desc["L"] = L
        j = tuple(np.round(rng.normal(size=3), 3)) if rng.random() < 0.6 else float(np.round(rng.normal(), 3))
        bz = float(np.round(rng.normal(), 3))
        if rng.random() < 0.1:
            j = 0.0
        want = rl.dense(qu.ham_heis(L, j=j, b=bz, cyclic=cyclic, S=S))
        m = gen.attempt(qtn.MPO_ham_heis, L, j=j, bz=bz, cyclic=cyclic, S=S)
        if m is not None:
            check("mpo", mpo_dense(m), want)
        lh = gen.attempt(qtn.ham_1d_heis, L, j=j, bz=bz, cyclic=cyclic, S=S)
        if lh is not None:
            check("localham", localham_dense(lh, int(2 * S + 1)), want)
    elif which == "ising":
        jz, bx = float(np.round(rng.normal(), 3)), float(np.round(rng.normal(), 3))
        if rng.random() < 0.1:
            jz = 0.0          # no coupling at all: the field alone is still the operator
        want = rl.dense(qu.ham_ising(L, jz=jz, bx=bx, cyclic=cyclic))
        m = gen.attempt(qtn.MPO_ham_ising, L, j=jz, bx=bx, cyclic=cyclic)
        if m is not None:
            check("mpo", mpo_dense(m), want)
        lh = gen.attempt(qtn.ham_1d_ising, L, j=jz, bx=bx, cyclic=cyclic)
        if lh is not None:
            check("localham", localham_dense(lh), want)
    elif which == "XY":
        jxy = (float(np.round(rng.normal(), 3)), float(np.round(rng.normal(), 3)))
        bz = float(np.round(rng.normal(), 3))
        want = rl.dense(qu.ham_XY(L, jxy=jxy, bz=bz, cyclic=cyclic))
        m = gen.attempt(qtn.MPO_ham_XY, L, j=jxy, bz=bz, cyclic=cyclic)
        if m is not None:
            check("mpo", mpo_dense(m), want)
        lh = gen.attempt(qtn.ham_1d_XY, L, j=jxy, bz=bz, cyclic=cyclic)
        if lh is not None:
            check("localham", localham_dense(lh), want)
    elif which == "mbl":
        seed = int(rng.integers(1 << 30))
        dh = float(np.round(abs(rng.normal()) + 0.1, 3))
        want = rl.dense(qu.ham_mbl(L, dh=dh, seed=seed, cyclic=cyclic))
        m = gen.attempt(qtn.MPO_ham_mbl, L, dh=dh, seed=seed, cyclic=cyclic)
        if m is not None:
            check("mpo", mpo_dense(m), want)
        lh = gen.attempt(qtn.ham_1d_mbl, L, dh=dh, seed=seed, cyclic=cyclic)
        if lh is not None:
            check("localham", localham_dense(lh), want)
    elif which == "bilbiq":
        # named model: sum_i cos(theta) S_i.S_{i+1} + sin(theta) (S_i.S_{i+1})^2
        from quimb.tensor import tensor_builder as tb
        S = float(gen.choice(rng, [0.5, 1.0]))
        L = min(L, 4)
        desc["L"] = L
        dloc = int(2 * S + 1)
        theta = float(np.round(rng.uniform(-3, 3), 3))
        sp_ = [rl.dense(qu.spin_operator(a, S=S)) for a in "XYZ"]
        SS = sum(np.kron(a, a) for a in sp_)
        hb = np.cos(theta) * SS + np.sin(theta) * (SS @ SS)
        want = np.zeros((dloc ** L, dloc ** L), dtype=complex)
        bonds = [(i, i + 1) for i in range(L - 1)] + ([(L - 1, 0)] if cyclic else [])
        for (i, jx) in bonds:
            want += rl.embed(hb, [dloc] * L, [i, jx])
        m = gen.attempt(tb.MPO_ham_bilinear_biquadratic, L, theta, S=S, cyclic=cyclic)
        if m is not None:
            check("mpo", mpo_dense(m), want)
        lh = gen.attempt(tb.ham_1d_bilinear_biquadratic, L, theta, S=S, cyclic=cyclic)
        if lh is not None:
            check("localham", localham_dense(lh, dloc), want)
    elif which == "heis2d":
        # the 2D matrix-side generator against the 1D one and the shared convention
        # H = sum_<ab> j S_a.S_b - bz sum_a S^z_a
        n_, m_ = int(rng.integers(1, 3)), int(rng.integers(2, 4))
        jj = float(np.round(rng.normal(), 3)) or 1.0
        bz = float(np.round(rng.normal(), 3)) or 0.5
        sp_ = [rl.dense(qu.spin_operator(a, S=0.5)) for a in "xyz"]
        N = n_ * m_
        want = np.zeros((2 ** N, 2 ** N), dtype=complex)
        def idx(i, j_):
            return i * m_ + j_
        for i in range(n_):
            for j_ in range(m_):
                if j_ + 1 < m_:
                    want += jj * sum(rl.embed(np.kron(a, a), [2] * N, [idx(i, j_), idx(i, j_ + 1)]) for a in sp_)
                if i + 1 < n_:
                    want += jj * sum(rl.embed(np.kron(a, a), [2] * N, [idx(i, j_), idx(i + 1, j_)]) for a in sp_)
                want -= bz * rl.embed(sp_[2], [2] * N, [idx(i, j_)])
        got = gen.attempt(qu.ham_heis_2D, n_, m_, j=jj, bz=bz)
        if got is not None:
            check("matrix2d", rl.dense(got), want)
        if n_ == 1:
            g1 = gen.attempt(qu.ham_heis, m_, j=jj, b=bz)
            if g1 is not None:
                check("matrix1d", rl.dense(g1), want)
        desc.update(n=n_, m=m_)
    elif which == "zspin":
        # projector onto a total S^z sector, S^z measured with the library's own
        # spin operator: S^z_tot P = sz P, orthonormal columns, right size
        import math
        n = int(rng.integers(1, 8))
        k = int(rng.integers(0, n + 1))
        sz = k - n / 2
        P = gen.attempt(qu.zspin_projector, n, sz)
        if P is not None:
            Pd = rl.dense(P)
            szop = rl.dense(qu.spin_operator("z", S=0.5))
            Sz = np.zeros((2 ** n, 2 ** n), dtype=complex)
            for i in range(n):
                Sz += rl.embed(szop, [2] * n, [i])
            ok = Pd.shape == (2 ** n, math.comb(n, k)) and \
                float(np.abs(Sz @ Pd - sz * Pd).max()) <= 1e-12 and \
                float(np.abs(Pd.conj().T @ Pd - np.eye(Pd.shape[1])).max()) <= 1e-12
            rec.check("chains", "sector_projector", ok, mech="chains:zspin_projector:wrong_sector",
                      detail={"n": n, "sz": sz, "shape": list(Pd.shape)}, sig=("zspin", n, k))
        desc.update(n=n, sz=sz)
    else:
        # SpinHam1D with custom, genuinely complex / asymmetric terms
        b = qtn.SpinHam1D(S=0.5, cyclic=cyclic)
        pool = ["X", "Y", "Z", "+", "-"]
        two = []
        for _ in range(int(rng.integers(1, 4))):
            c = float(np.round(rng.normal(), 3)) or 0.5
            a1, a2 = gen.choice(rng, pool), gen.choice(rng, pool)
            b += c, a1, a2
            two.append((c, a1, a2))
        one = []
        for _ in range(int(rng.integers(0, 3))):
            c = float(np.round(rng.normal(), 3))
            a1 = gen.choice(rng, ["X", "Y", "Z"])
            b += c, a1
            one.append((c, a1))
        sp_ = {k: rl.dense(qu.spin_operator(k, S=0.5)) for k in pool}
        # a site-specific bond term (takes precedence over the default on that bond),
        # written with the sites in either order: operator k acts on the k-th site named
        special = None
        if L >= 3 and rng.random() < 0.4:
            i0 = int(rng.integers(0, L - 1))
            key = (i0, i0 + 1) if rng.random() < 0.5 else (i0 + 1, i0)
            sterms = []
            for _ in range(int(rng.integers(1, 3))):
                c = float(np.round(rng.normal(), 3)) or 0.5
                a1, a2 = gen.choice(rng, pool), gen.choice(rng, pool)
                b[key] += c, a1, a2
                sterms.append((c, a1, a2))
            special = (i0, key, sterms)
            desc["special"] = [list(key), sterms]
        want = np.zeros((2 ** L, 2 ** L), dtype=complex)
        bonds = [(i, i + 1) for i in range(L - 1)] + ([(L - 1, 0)] if cyclic else [])
        for (i, jx) in bonds:
            if special is not None and (i, jx) == (special[0], special[0] + 1):
                for c, a1, a2 in special[2]:
                    want += c * rl.embed(np.kron(sp_[a1], sp_[a2]), [2] * L, list(special[1]))
                continue
            for c, a1, a2 in two:
                want += c * rl.embed(np.kron(sp_[a1], sp_[a2]), [2] * L, [i, jx])
        for i in range(L):
            for c, a1 in one:
                want += c * rl.embed(sp_[a1], [2] * L, [i])
        m = gen.attempt(b.build_mpo, L)
        if m is not None:
            check("mpo", mpo_dense(m), want)
        lh = gen.attempt(b.build_local_ham, L)
        if lh is not None:
            check("localham", localham_dense(lh), want)
        sm = gen.attempt(b.build_sparse, L)
        if sm is not None:
            check("sparse", rl.dense(sm), want)
        desc["two"] = two
        desc["one"] = one
    return desc


def wl_many_sites(rng, rec, tier):
    """configuration couplings beyond 64 sites (the variational Monte Carlo use):
    too large for any matrix, but for one-site terms the coupled configurations and
    coefficients are known in closed form"""
    from quimb.operator import SparseOperatorBuilder
    n = int(rng.integers(60, 90))
    from quimb.operator import HilbertSpace
    H = SparseOperatorBuilder(hilbert_space=HilbertSpace(n))
    xs = sorted(int(i) for i in rng.choice(n, size=int(rng.integers(1, 6)), replace=False))
    zs = sorted(int(i) for i in rng.choice(n, size=int(rng.integers(0, 4)), replace=False))
    cx = {i: float(np.round(rng.normal(), 3)) or 1.0 for i in xs}
    cz = {i: float(np.round(rng.normal(), 3)) or 1.0 for i in zs}
    for i, c in cx.items():
        H += c, ("x", i)
    for i, c in cz.items():
        H += c, ("z", i)
    fc = rng.integers(0, 2, size=n).astype(np.uint8)
    out = gen.attempt2(H.flatconfig_coupling, fc)
    if out is gen.REJECTED:
        return {"n": n, "rejected": True}
    hs = H.hilbert_space
    reg = {s_: hs.site_to_reg(s_) for s_ in hs.sites}
    want = {}
    diag = sum(c * (1.0 if fc[reg[i]] == 0 else -1.0) for i, c in cz.items())
    if zs and abs(diag) > 0:
        want[bytes(fc)] = diag
    for i, c in cx.items():
        g = fc.copy()
        g[reg[i]] ^= 1
        want[bytes(g)] = want.get(bytes(g), 0.0) + c
    got = {}
    dup = False
    for bj, c in zip(*out):
        key = bytes(np.asarray(bj, dtype=np.uint8))
        dup |= key in got
        got[key] = got.get(key, 0.0) + complex(c)
    got = {k_: v for k_, v in got.items() if abs(v) > 1e-200}
    ok = (not dup) and set(got) == set(want) and all(abs(got[k_] - want[k_]) <= 1e-9 for k_ in want)
    rec.check("builder", "coupling_many_sites", bool(ok), mech="builder:coupling:many_sites",
              detail={"n": n, "nx": len(xs), "nz": len(zs), "got_rows": len(got), "want_rows": len(want), "duplicates": bool(dup)},
              sig=("many", n > 64, len(xs)))
    return {"n": n, "xs": xs, "zs": zs}


def wl_rewrites(rng, rec, tier):
    """the module level rewriting functions on plain term dictionaries (several
    operators on one site, in any order): Jordan-Wigner then Pauli decomposition
    must denote the operator they were given"""
    from quimb.operator import builder as qb
    n = int(rng.integers(1, 5))
    regs = {i: i for i in range(n)}
    terms = {}
    pool = ["x", "y", "z", "+", "-", "n", "sx", "sy", "sz"]
    for _ in range(int(rng.integers(1, 5))):
        ops = tuple((gen.choice(rng, pool), int(rng.integers(0, n))) for _ in range(int(rng.integers(1, 5))))
        c = complex(np.round(rng.normal(), 3), np.round(rng.normal(), 3) if rng.random() < 0.4 else 0.0) or 1.0
        terms[ops] = terms.get(ops, 0.0) + c
    fermi = bool(rng.random() < 0.5)
    want = ref_operator([(c, ops) for ops, c in terms.items()], regs, n, fermi)
    cur = terms
    steps = []
    if fermi:
        cur = gen.attempt2(qb.jordan_wigner_transform, cur, site_to_reg=lambda s_: s_)
        steps.append("jw")
        if cur is gen.REJECTED:
            return {"n": n, "rejected": "jw"}
    kw = {"site_to_reg": (lambda s_: s_)} if rng.random() < 0.7 else {}
    dec = gen.attempt2(qb.pauli_decompose, cur, use_zx=bool(rng.random() < 0.3), **kw)
    steps.append("pauli")
    if dec is gen.REJECTED:
        rec.count("rewrite", "meaning", "rejected")
        return {"n": n, "rejected": "pauli", "kw": sorted(kw)}
    try:
        got = ref_operator([(c, ops) for ops, c in dec.items()], regs, n, False)
    except Exception:
        rec.check("rewrite", "meaning", False, mech="rewrite:pauli_decompose:unknown_labels", detail={"n": n}, sig=("rw", "labels"))
        return {"n": n}
    sc = max(float(np.abs(want).max()), max(abs(c_) for c_ in terms.values()), 1e-300)
    err = float(np.abs(got - want).max())
    rec.check("rewrite", "meaning", err <= 1e-9 * sc, mech="rewrite:pauli_decompose:operator_changed",
              detail={"n": n, "err": err, "steps": steps, "terms": [(str(c), ops) for ops, c in list(terms.items())[:3]]},
              sig=("rw", fermi, n))
    return {"n": n, "fermi": fermi}


WORKLOADS = [
    ("builder", 6, wl_builder),
    ("sector", 3, wl_sector),
    ("hilbert", 4, wl_hilbert),
    ("spin_chains", 3, wl_spin_chains),
    ("many_sites", 1, wl_many_sites),
    ("rewrites", 1, wl_rewrites),
]
