"""C13 - every route to a local expectation or reduced state gives the dense
answer.

Monitors on every expectation / reduced-density-matrix entry point of the
vector-like network classes: the dense state at entry (independent reference)
gives <psi|O|psi>/<psi|psi>; the monitor decides from method + arguments +
geometry whether the route is exact by construction and then requires equality;
reduced density matrices are always checked for Hermiticity, normalisation and
the requested site order."""

import numpy as np

from .. import attach, gen
from ..core import dense_of, eps_of, to_numpy

PROP = "C13"
NCASES = {"quick": 3000, "thorough": 80000}
BUDGET = {"quick": 85, "thorough": 1500}
RULE = ("states: MPS (open), PEPS 2x2-3x3, 3D 2x2x2 PEPS-like, random trees and loopy graphs "
        "(TN_from_edges_rand), <= 10 sites, bond 1-3, float/complex, normalised or not; complex "
        "non-symmetric 1-3 site operators; site tuples in every order; every method and its gauge / "
        "canonisation options; distinct = (entry, geometry, #sites in where, order sign, options)")
ASSUMPTIONS = [
    "a route is judged for equality only when exact by construction: exact contraction; 1D "
    "canonical / environment routes; 2D boundary / plaquette routes with an untruncating cap and "
    "zero cutoff; cluster routes whose max_distance covers the graph diameter; compressed "
    "contraction with max_bond None/huge and zero cutoff; loop expansions on trees",
    "other calls only get the Hermiticity / trace / shape clauses",
]
DECIDING = [("expectation", "value"), ("rdm", "value"), ("rdm", "hermitian")]
SUITE = ["tests/test_tensor/test_tnag/test_core.py", "tests/test_tensor/test_tn2d/test_core.py"]
MANIFEST = dict(
    technique="runtime postcondition monitors on every local-expectation / reduced-density-matrix entry point (exact, cluster, loop-expansion, compressed, 1D canonical/environment, 2D/3D boundary and plaquette routes) against <psi|O|psi>/<psi|psi> and partial traces of the independently densified state",
    text="For random small states of every geometry and random complex non-symmetric operators on site tuples in arbitrary order, each route that is exact by construction must return the dense value (normalised or not as requested); all reduced density matrices must be Hermitian, correctly normalised and ordered as requested.",
    note="States limited to <= 2^12 amplitudes.",
    ref="3/C13")

MAXV = 1 << 13


def state_of(x):
    """dense amplitudes (one axis per site, in x.sites order) or None"""
    try:
        sites = tuple(x.gen_sites_present())
        inds = [x.site_ind(s) for s in sites]
    except Exception:
        return None
    if set(x.outer_inds()) != set(inds):
        return None
    r = dense_of(x, output=inds, max_size=MAXV)
    if r is None:
        return None
    v = r[0]
    if not np.all(np.isfinite(v)) or not np.any(v):
        return None
    return {"v": v, "sites": sites, "eps": r[2]}


def rho_ref(st, where):
    v, sites = st["v"], list(st["sites"])
    pos = [sites.index(w) for w in where]
    rest = [i for i in range(v.ndim) if i not in pos]
    m = np.transpose(v, pos + rest).reshape(int(np.prod([v.shape[p] for p in pos])), -1)
    return m @ m.conj().T


def as_where(where, st):
    sites = st["sites"]
    if where in sites:
        return (where,)
    return tuple(where)


def expect_ref(st, G, where, normalized):
    rho = rho_ref(st, where)
    G = np.asarray(to_numpy(G), dtype=complex)
    D = rho.shape[0]
    G = G.reshape(D, D)
    val = np.trace(G @ rho)
    nrm = float(np.trace(rho).real)
    scale = float(np.abs(G).max()) * D * (1.0 if normalized else nrm)
    if normalized:
        val = val / nrm
    return val, scale, nrm


def tolerance(st, loose=False):
    if st["eps"] > 1e-10:
        return 5e-3
    return 1e-5 if loose else 1e-8


def graph_diameter(x):
    try:
        import networkx as nx
        g = nx.Graph()
        sites = list(x.gen_sites_present())
        g.add_nodes_from(sites)
        for ix in x.inner_inds():
            ts = [t for t in x._inds_get(ix)]
            ss = []
            for t in ts:
                for s in sites:
                    if x.site_tag(s) in t.tags:
                        ss.append(s)
            for a in ss:
                for b in ss:
                    if a != b:
                        g.add_edge(a, b)
        if not nx.is_connected(g):
            return None, False
        return nx.diameter(g), nx.is_tree(g)
    except Exception:
        return None, False


def install(rec):
    import quimb.tensor.tnag.core as ag
    import quimb.tensor.tn1d.core as c1
    import quimb.tensor.tn2d.core as c2
    import quimb.tensor.tn3d.core as c3
    V = ag.TensorNetworkGenVector

    def chk_expect(entry, st, out, G, where, normalized, exact, detail, sig, loose=False):
        where = as_where(where, st)
        if len(set(where)) != len(where):
            return
        val, scale, nrm = expect_ref(st, G, where, normalized)
        try:
            got = complex(np.asarray(to_numpy(out)))
        except Exception:
            return
        if not exact or (detail.get("gauged") and not normalized):
            rec.count("expectation", "value", "approximate_route")
            return
        tol = tolerance(st, loose) * max(scale, 1e-300)
        ok = abs(got - val) <= tol
        why = "value"
        if not ok:
            # diagnose: operator factors attached in reversed site order / transposed
            if len(where) == 2:
                d0 = st["v"].shape[st["sites"].index(where[0])]
                d1 = st["v"].shape[st["sites"].index(where[1])]
                Gs = np.asarray(to_numpy(G), dtype=complex).reshape(d0, d1, d0, d1).transpose(1, 0, 3, 2).reshape(d0 * d1, -1)
                v2, _, _ = expect_ref(st, Gs, (where[1], where[0]), normalized)
                vsw, _, _ = expect_ref(st, np.asarray(to_numpy(G), dtype=complex), (where[1], where[0]), normalized) \
                    if d0 == d1 else (None, 0, 0)
                if vsw is not None and abs(got - vsw) <= tol:
                    why = "operator_factors_on_swapped_sites"
            vt, _, _ = expect_ref(st, np.asarray(to_numpy(G), dtype=complex).reshape(int(round(np.sqrt(np.asarray(to_numpy(G)).size))), -1).T,
                                  where, normalized)
            if why == "value" and abs(got - vt) <= tol:
                why = "operator_transposed"
            if why == "value" and normalized and abs(got * nrm - val * nrm) > tol and abs(got - val * nrm) <= tol * max(nrm, 1):
                why = "not_normalised"
            if why == "value" and not normalized and abs(got - val / max(nrm, 1e-300)) <= tol:
                why = "normalised_although_not_requested"
        rec.check("expectation", "value", ok, mech=f"expectation:{entry}:{why}",
                  detail=dict(detail, got=repr(got), want=repr(complex(val)), tol=tol, where=[repr(w) for w in where],
                              normalized=bool(normalized)), sig=sig)

    def chk_rdm(entry, st, out, where, normalized, exact, detail, sig, loose=False):
        where = as_where(where, st)
        if len(set(where)) != len(where):
            return
        try:
            got = np.asarray(to_numpy(out), dtype=complex)
        except Exception:
            return
        rho = rho_ref(st, where)
        nrm = float(np.trace(rho).real)
        if got.ndim != 2:
            n = got.ndim // 2
            got = got.reshape(int(np.prod(got.shape[:n])), -1)
        if got.shape != rho.shape:
            rec.check("rdm", "shape", False, mech=f"rdm:{entry}:shape", detail=dict(detail, got=got.shape, want=rho.shape), sig=sig)
            return
        scale = float(np.abs(got).max()) or 1.0
        herm = float(np.abs(got - got.conj().T).max())
        if exact or detail.get("symmetrized") is True:
            rec.check("rdm", "hermitian", herm <= (1e-6 if st["eps"] < 1e-10 else 5e-3) * scale, mech=f"rdm:{entry}:not_hermitian",
                      detail=dict(detail, defect=herm), sig=sig)
        if normalized:
            tr = complex(np.trace(got))
            rec.check("rdm", "trace", abs(tr - 1.0) <= (1e-6 if st["eps"] < 1e-10 else 5e-3), mech=f"rdm:{entry}:trace_not_one",
                      detail=dict(detail, trace=repr(tr)), sig=sig)
        if not exact:
            rec.count("rdm", "value", "approximate_route")
            return
        want = rho / nrm if normalized else rho
        tol = tolerance(st, loose) * max(float(np.abs(want).max()), 1e-300) * 10
        err = float(np.abs(got - want).max())
        why = "value"
        if err > tol and float(np.abs(got.T - want).max()) <= tol:
            why = "transposed"
        elif err > tol and len(where) == 2:
            d0 = st["v"].shape[st["sites"].index(where[0])]
            d1 = st["v"].shape[st["sites"].index(where[1])]
            sw = want.reshape(d0, d1, d0, d1).transpose(1, 0, 3, 2).reshape(d0 * d1, -1)
            if sw.shape == got.shape and float(np.abs(got - sw).max()) <= tol:
                why = "subsystems_in_wrong_order"
        rec.check("rdm", "value", err <= tol, mech=f"rdm:{entry}:{why}",
                  detail=dict(detail, err=err, tol=tol, where=[repr(w) for w in where], normalized=bool(normalized)), sig=sig)

    def common_pre(self, *a, **k):
        if rec.depth("c13") > 0:
            return None
        g = k.get("gauges")
        if g:
            # the state is (tensors x bond gauges): re-absorb the gauges
            try:
                y = self.copy()
                y.gauge_simple_insert(g)
            except Exception:
                return None
            st = state_of(y)
        else:
            st = state_of(self)
        if st is None:
            return None
        if k.get("rehearse"):
            return None
        return st

    # ---- exact routes ---------------------------------------------------------
    def post_le_exact(st, out, self, G, where, optimize="auto-hq", normalized=True, rehearse=False, **k):
        if normalized == "return":
            # documented: (unnormalised expectation, norm) returned separately
            try:
                e, n = out
            except Exception:
                rec.check("expectation", "value", False, mech="expectation:local_expectation_exact:return_form", detail={})
                return
            chk_expect("local_expectation_exact[return]", st, e, G, where, False, True, {"normalized": "return"},
                       ("le_exact_return", len(as_where(where, st))))
            want = float(np.vdot(st["v"], st["v"]).real)
            rec.check("expectation", "norm", abs(complex(np.asarray(to_numpy(n))) - want) <= tolerance(st) * max(want, 1e-300) * 10,
                      mech="expectation:local_expectation_exact:returned_norm", detail={"got": repr(n), "want": want},
                      sig=("le_exact_return_norm",))
            return
        chk_expect("local_expectation_exact", st, out, G, where, normalized, True, {}, ("le_exact", len(as_where(where, st)), normalized))
    attach.install(V, "local_expectation_exact", attach.monitored(rec, "local_expectation_exact", common_pre, post_le_exact, fam="c13"))

    def post_ptr_exact(st, out, self, where, optimize="auto-hq", normalized=True, rehearse=False, get="matrix", **k):
        if normalized == "return":
            try:
                rho, n = out
            except Exception:
                return
            if get in ("matrix", "array"):
                chk_rdm("partial_trace_exact[return]", st, rho, where, False, True, {"get": get},
                        ("ptr_exact_return", len(as_where(where, st)), get))
            return
        if get == "array":
            chk_rdm("partial_trace_exact[array]", st, out, where, normalized, True, {"get": get},
                    ("ptr_exact_array", len(as_where(where, st)), normalized))
            return
        if get not in ("matrix", None):
            return
        chk_rdm("partial_trace_exact", st, out, where, normalized, True, {}, ("ptr_exact", len(as_where(where, st)), normalized))
    attach.install(V, "partial_trace_exact", attach.monitored(rec, "partial_trace_exact", common_pre, post_ptr_exact, fam="c13"))

    def post_cle(entry, exact_fn):
        def post(st, out, self, terms, *a, **k):
            normalized = k.get("normalized", True)
            ret_all = k.get("return_all", False)
            exact = exact_fn(self, st, a, k)
            if not exact:
                rec.count("expectation", "value", "approximate_route")
                return
            tot = 0.0
            scale = 0.0
            each = {}
            for where, G in terms.items():
                w = as_where(where, st)
                if len(set(w)) != len(w):
                    return
                val, sc, nrm = expect_ref(st, G, w, normalized)
                each[where] = val
                tot += val
                scale += sc
            tol = tolerance(st, True) * max(scale, 1e-300)
            if ret_all:
                try:
                    ok = set(out) == set(each)
                    for w in each:
                        o = out[w]
                        if isinstance(o, tuple) and len(o) == 2:
                            # lattice classes return (unnormalised expectation, norm)
                            e_un, _, nrm_ = expect_ref(st, terms[w], as_where(w, st), False)
                            ok = ok and abs(complex(np.asarray(to_numpy(o[0]))) - e_un) <= tol * max(nrm_, 1.0)
                            if o[1] is not None:
                                ok = ok and abs(complex(np.asarray(to_numpy(o[1]))) - nrm_) <= \
                                    tolerance(st, True) * max(nrm_, 1e-300) * 10
                        else:
                            ok = ok and abs(complex(np.asarray(to_numpy(o))) - each[w]) <= tol
                except Exception:
                    ok = False
            else:
                try:
                    ok = abs(complex(np.asarray(to_numpy(out))) - tot) <= tol
                except Exception:
                    return
            mech = f"expectation:{entry}:sum_of_terms"
            if k.get("equalize_norms") and (not normalized or ret_all) and "2D" in entry:
                # its own mechanism: the scale stripped into the exponents of the
                # boundary environments (known finding, see known_findings.json)
                mech = f"expectation:{entry}:unnormalized_value_with_equalize_norms"
            rec.check("expectation", "value", ok, mech=mech,
                      detail={"n": len(terms), "return_all": bool(ret_all), "normalized": bool(normalized),
                              "kw": sorted(k)[:8]}, sig=(entry, len(terms), bool(ret_all), bool(normalized)))
        return post
    attach.install(V, "compute_local_expectation_exact", attach.monitored(
        rec, "compute_local_expectation_exact", common_pre, post_cle("compute_local_expectation_exact", lambda *a: True), fam="c13"))

    # ---- cluster routes -------------------------------------------------------
    def cluster_exact(self, k):
        if k.get("gauges") is not None:
            pass
        md = k.get("max_distance", 0)
        diam, _ = graph_diameter(self)
        # (mode='loopunion' grows the cluster by loops only: dangling branches are
        # never included, so it is not exact even for a large max_distance)
        return diam is not None and md >= diam and k.get("max_bond") is None \
            and k.get("mode", "graphdistance") == "graphdistance"

    def post_le_cluster(st, out, self, G, where, normalized=True, **k):
        ex = cluster_exact(self, k)
        chk_expect("local_expectation_cluster", st, out, G, where, normalized, ex,
                   {"max_distance": k.get("max_distance", 0), "gauged": k.get("gauges") is not None},
                   ("le_cluster", len(as_where(where, st)), normalized, k.get("gauges") is not None, str(k.get("mode"))), loose=True)
    attach.install(V, "local_expectation_cluster", attach.monitored(rec, "local_expectation_cluster", common_pre, post_le_cluster, fam="c13"))

    def post_ptr_cluster(st, out, self, where, gauges=None, optimize="auto-hq", normalized=True, **k):
        if k.get("get", "matrix") not in ("matrix", None):
            return
        k2 = dict(k, gauges=gauges)
        chk_rdm("partial_trace_cluster", st, out, where, normalized, cluster_exact(self, k2),
                {"max_distance": k.get("max_distance", 0), "gauged": gauges is not None},
                ("ptr_cluster", len(as_where(where, st)), normalized, gauges is not None), loose=True)
    attach.install(V, "partial_trace_cluster", attach.monitored(rec, "partial_trace_cluster", common_pre, post_ptr_cluster, fam="c13"))
    attach.install(V, "compute_local_expectation_cluster", attach.monitored(
        rec, "compute_local_expectation_cluster", common_pre,
        post_cle("compute_local_expectation_cluster", lambda self, st, a, k: cluster_exact(self, k)), fam="c13"))

    # ---- loop expansions: exact on trees ---------------------------------------
    def tree_exact(self, k):
        # exactness of the loop expansions needs converged gauges and a loop set
        # spanning the network; deciding that from outside is not sound: these
        # routes are exercised (crashes, shapes) but not judged for equality
        return False

    for nm in ("local_expectation_sloop_expand", "local_expectation_gloop_expand"):
        def mk(nm):
            def post(st, out, self, G, where, *a, **k):
                normalized = k.get("normalized", True)
                chk_expect(nm, st, out, G, where, normalized, tree_exact(self, k),
                           {"gauged": k.get("gauges") is not None},
                           (nm, len(as_where(where, st)), normalized, k.get("gauges") is not None), loose=True)
            return post
        if nm in vars(V):
            attach.install(V, nm, attach.monitored(rec, nm, common_pre, mk(nm), fam="c13"))

    # ---- compressed contraction routes ------------------------------------------
    def compressed_exact(k, max_bond):
        return (max_bond is None or (isinstance(max_bond, int) and max_bond >= 4096)) and k.get("cutoff", 1e-10) in (0.0,)

    def post_le(st, out, self, G, where, max_bond, optimize, **k):
        chk_expect("local_expectation", st, out, G, where, k.get("normalized", True), compressed_exact(k, max_bond),
                   {"max_bond": max_bond, "kw": sorted(k)[:8]},
                   ("le_compressed", len(as_where(where, st)), k.get("normalized", True), k.get("flatten", True),
                    str(k.get("symmetrized", "auto")), k.get("reduce", False)), loose=True)
    attach.install(V, "local_expectation", attach.monitored(rec, "local_expectation", common_pre, post_le, fam="c13"))

    def post_ptr(st, out, self, keep, max_bond, optimize, **k):
        if k.get("method", "contract_compressed") != "contract_compressed":
            return
        chk_rdm("partial_trace", st, out, keep, k.get("normalized", True), compressed_exact(k, max_bond),
                {"max_bond": max_bond, "kw": sorted(k)[:8], "symmetrized": k.get("symmetrized", "auto")},
                ("ptr_compressed", len(as_where(keep, st)), k.get("normalized", True), k.get("flatten", True),
                 str(k.get("symmetrized", "auto")), k.get("reduce", False)), loose=True)
    attach.install(V, "partial_trace", attach.monitored(rec, "partial_trace", common_pre, post_ptr, fam="c13"))

    # ---- 1D environment route ---------------------------------------------------
    attach.install(c1.MatrixProductState, "compute_local_expectation_via_envs", attach.monitored(
        rec, "compute_local_expectation_via_envs", common_pre,
        post_cle("compute_local_expectation_via_envs", lambda self, st, a, k: not self.cyclic), fam="c13"))
    attach.install(c1.MatrixProductState, "compute_local_expectation_canonical", attach.monitored(
        rec, "compute_local_expectation_canonical", common_pre,
        post_cle("compute_local_expectation_canonical", lambda self, st, a, k: not self.cyclic), fam="c13"))
    attach.install(c1.MatrixProductState, "compute_local_expectation", attach.monitored(
        rec, "MPS.compute_local_expectation", common_pre,
        post_cle("MPS.compute_local_expectation", lambda self, st, a, k: not self.cyclic), fam="c13"))

    # ---- 2D / 3D boundary + plaquette routes --------------------------------------
    def lattice_exact(self, st, a, k):
        max_bond = k.get("max_bond", a[0] if a else None)
        cutoff = k.get("cutoff", 1e-10)
        if cutoff not in (0.0,):
            return False
        D = max([self.ind_size(ix) for ix in self.inner_inds()], default=1)
        side = max([getattr(self, "L" + c) for c in "xyz" if hasattr(self, "L" + c)])
        need = float(D) ** (2 * side)
        return max_bond is None or max_bond >= need

    for cls, nm in ((c2.TensorNetwork2DVector, "compute_local_expectation"), (c3.TensorNetwork3DVector, "compute_local_expectation")):
        if nm in vars(cls):
            def mk2(cls):
                base = post_cle(cls.__name__ + ".compute_local_expectation", lattice_exact)

                def post(st, out, self, terms, *a, **k):
                    # default here is normalized=False
                    k = dict(k)
                    k.setdefault("normalized", False)
                    return base(st, out, self, terms, *a, **k)
                return post
            attach.install(cls, nm, attach.monitored(rec, cls.__name__ + "." + nm, common_pre, mk2(cls), fam="c13"))

    def pre_norm(self, *a, **k):
        if rec.depth("c13") > 0:
            return None
        return state_of(self)

    def post_norm2(st, out, self, *a, **k):
        if not lattice_exact(self, st, a, k):
            rec.count("expectation", "value", "approximate_route")
            return
        want = float(np.vdot(st["v"], st["v"]).real)
        try:
            got = complex(np.asarray(to_numpy(out)))
        except Exception:
            return
        rec.check("expectation", "value", abs(got - want) <= tolerance(st, True) * max(want, 1e-300),
                  mech="expectation:compute_norm:value", detail={"got": repr(got), "want": want},
                  sig=("compute_norm", type(self).__name__))
    for cls in (c2.TensorNetwork2DVector,):
        if "compute_norm" in vars(cls):
            attach.install(cls, "compute_norm", attach.monitored(rec, cls.__name__ + ".compute_norm", pre_norm, post_norm2, fam="c13"))


# ---------------------------------------------------------------------------
# workloads
# ---------------------------------------------------------------------------

def rand_state(rng):
    import quimb.tensor as qtn
    kind = gen.choice(rng, ["mps", "peps", "tree", "graph", "3d"], p=[0.25, 0.3, 0.2, 0.2, 0.05])
    dtype = gen.choice(rng, ["float64", "complex128", "complex128", "complex64"])
    seed = int(rng.integers(1 << 30))
    if kind == "mps":
        L = int(rng.integers(2, 8))
        x = qtn.MPS_rand_state(L, int(rng.integers(1, 4)), dtype=dtype, seed=seed, normalize=bool(rng.random() < 0.5))
    elif kind == "peps":
        Lx, Ly = int(rng.integers(2, 4)), int(rng.integers(2, 4))
        x = qtn.PEPS.rand(Lx, Ly, int(rng.integers(1, 3)), seed=seed, dtype=dtype)
    elif kind == "3d":
        x = qtn.PEPS3D.rand(2, 2, 2, 2, seed=seed, dtype=dtype)
    else:
        n = int(rng.integers(3, 9))
        if kind == "tree":
            edges = [(int(rng.integers(0, i)), i) for i in range(1, n)]
        else:
            edges = [(int(rng.integers(0, i)), i) for i in range(1, n)]
            for _ in range(int(rng.integers(1, 4))):
                a, b = (int(q) for q in rng.choice(n, size=2, replace=False))
                if (min(a, b), max(a, b)) not in [(min(e), max(e)) for e in edges]:
                    edges.append((min(a, b), max(a, b)))
        x = qtn.TN_from_edges_rand(edges, int(rng.integers(1, 4)), phys_dim=2, seed=seed, dtype=dtype)
    if rng.random() < 0.3:
        x.multiply_(float(gen.choice(rng, [0.5, 3.0])), spread_over="all")
    if rng.random() < 0.2:
        # a stored exponent (what equalize_norms / strip_exponent leave behind) is
        # part of the state: |psi> = 10**exponent * (contraction of the tensors)
        x.exponent = float(gen.choice(rng, [0.5, -0.5, 1.0]))
    return kind, x


def rand_where(rng, x, k):
    sites = list(x.gen_sites_present())
    idx = [int(i) for i in rng.choice(len(sites), size=min(k, len(sites)), replace=False)]
    return tuple(sites[i] for i in idx)


def rand_op(rng, x, where):
    D = int(np.prod([x.phys_dim(w) if not isinstance(w, tuple) else x.phys_dim(*w) for w in where])) \
        if False else int(np.prod([x.ind_size(x.site_ind(w)) for w in where]))
    return gen.rand_array(rng, (D, D), "complex128")


def wl_routes(rng, rec, tier):
    kind, x = rand_state(rng)
    nsites = len(list(x.gen_sites_present()))
    calls = []
    for _ in range(3):
        k = int(gen.choice(rng, [1, 2, 2, 3])) if nsites >= 3 else int(gen.choice(rng, [1, 2]))
        where = rand_where(rng, x, k)
        G = rand_op(rng, x, where)
        normalized = bool(rng.random() < 0.7)
        w1 = where[0] if (len(where) == 1 and rng.random() < 0.5) else where
        route = gen.choice(rng, ["exact", "ptr_exact", "cluster", "ptr_cluster", "compressed", "ptr_compressed",
                                 "sloop", "gloop", "compute_exact", "compute_cluster"])
        calls.append(route)
        if route == "exact":
            gen.attempt(x.local_expectation_exact, G, where,
                        normalized=normalized if rng.random() < 0.8 else "return")
        elif route == "ptr_exact":
            kw_ = {}
            if rng.random() < 0.3:
                kw_["get"] = "array"
            gen.attempt(x.partial_trace_exact, where, normalized=normalized if rng.random() < 0.8 else "return", **kw_)
        elif route in ("cluster", "ptr_cluster", "compute_cluster"):
            kw = {"max_distance": int(gen.choice(rng, [0, 1, 2, 8, 8])), "normalized": normalized}
            y = x
            if rng.random() < 0.4:
                gauges = {}
                y = x.copy()
                gen.attempt(y.gauge_all_simple_, 100, 1e-10, gauges=gauges)
                kw["gauges"] = gauges
            if rng.random() < 0.3:
                kw["mode"] = gen.choice(rng, ["graphdistance", "loopunion"])
            if route == "cluster":
                gen.attempt(y.local_expectation_cluster, G, where, **kw)
            elif route == "ptr_cluster":
                gen.attempt(y.partial_trace_cluster, where, **kw)
            else:
                terms = {where: G}
                w2 = rand_where(rng, x, 1)
                terms[w2] = rand_op(rng, x, w2)
                gen.attempt(y.compute_local_expectation_cluster, terms, return_all=bool(rng.random() < 0.5), **kw)
        elif route in ("compressed", "ptr_compressed"):
            if kind in ("mps", "3d"):
                continue      # these classes override partial_trace with another signature
            kw = {"normalized": normalized, "cutoff": 0.0}
            if rng.random() < 0.4:
                kw["flatten"] = bool(rng.random() < 0.5)
            if rng.random() < 0.3:
                kw["reduce"] = True
            if rng.random() < 0.3:
                kw["symmetrized"] = gen.choice(rng, [True, False])
            mb = gen.choice(rng, [None, None, 4096, 2])
            if route == "compressed":
                gen.attempt(x.local_expectation, G, where, mb, "greedy", **kw)
            else:
                gen.attempt(x.partial_trace, where, mb, "greedy", **kw)
        elif route in ("sloop", "gloop"):
            kw = {"normalized": normalized}
            y = x.copy()
            gauges = {}
            gen.attempt(y.gauge_all_simple_, 100, 1e-10, gauges=gauges)
            kw["gauges"] = gauges
            f = y.local_expectation_sloop_expand if route == "sloop" else y.local_expectation_gloop_expand
            if rng.random() < 0.4:
                # one record shared between calls with different operators
                # (the record is a cache: it must not change any answer)
                kw["info"] = {}
                gen.attempt(f, G, where, **kw)
                G2 = rand_op(rng, x, where)
                r_shared = gen.attempt2(f, G2, where, **kw)
                r_fresh = gen.attempt2(f, G2, where, **dict(kw, info={}))
                if r_shared is not gen.REJECTED and r_fresh is not gen.REJECTED:
                    try:
                        a_, b_ = complex(np.asarray(to_numpy(r_shared))), complex(np.asarray(to_numpy(r_fresh)))
                        sc_ = max(abs(a_), abs(b_), 1e-300)
                        rec.check("expectation", "info_is_a_cache", abs(a_ - b_) <= 1e-8 * sc_,
                                  mech=f"expectation:local_expectation_{route}_expand:info_cache_changes_result",
                                  detail={"shared": repr(a_), "fresh": repr(b_), "where": repr(where)},
                                  sig=("info_cache", route, len(where)))
                    except Exception:
                        pass
            else:
                gen.attempt(f, G, where, **kw)
        else:
            terms = {where: G}
            w2 = rand_where(rng, x, 1)
            terms[w2] = rand_op(rng, x, w2)
            gen.attempt(x.compute_local_expectation_exact, terms, normalized=normalized,
                        return_all=bool(rng.random() < 0.5))
    return {"kind": kind, "nsites": nsites, "calls": calls}


def wl_lattice(rng, rec, tier):
    import quimb.tensor as qtn
    if rng.random() < 0.35:
        L = int(rng.integers(2, 8))
        x = qtn.MPS_rand_state(L, int(rng.integers(1, 4)), dtype=gen.choice(rng, ["float64", "complex128"]),
                               seed=int(rng.integers(1 << 30)), normalize=bool(rng.random() < 0.5))
        if rng.random() < 0.2:
            x.exponent = float(gen.choice(rng, [0.5, -0.5, 1.0]))
        terms = {}
        for i in range(L - 1):
            if rng.random() < 0.6:
                terms[(i, i + 1)] = gen.rand_array(rng, (4, 4), "complex128")
        for i in range(L):
            if rng.random() < 0.3:
                terms[(i,)] = gen.rand_array(rng, (2, 2), "complex128")
        if not terms:
            terms[(0,)] = gen.rand_array(rng, (2, 2), "complex128")
        kw = {"normalized": bool(rng.random() < 0.7), "return_all": bool(rng.random() < 0.5)}
        m = gen.choice(rng, ["envs", "canonical", "dispatch", "canonical_info", "ptr_compress"])
        if m == "ptr_compress":
            # reduced state of two blocks in a compressed basis: basis independent
            # facts (trace / requested normalisation, spectrum) vs the dense state
            from ..core import dense_of
            cuts = sorted(int(c) for c in rng.choice(np.arange(0, L + 1), size=min(4, L + 1), replace=False))
            while len(cuts) < 4:
                cuts.append(cuts[-1])
            a0, a1, b0, b1 = cuts
            if rng.random() < 0.4:
                a0, a1, b0, b1 = 0, max(1, min(L - 1, a1 or 1)), max(1, min(L - 1, a1 or 1)), L   # full bipartition
            sysa, sysb = list(range(a0, a1)), list(range(b0, b1))
            if not sysa or not sysb:
                return {"kind": "mps", "L": L, "m": m, "skipped": True}
            renorm = bool(rng.random() < 0.6)
            rho = gen.attempt2(x.partial_trace_compress, sysa, sysb, eps=1e-13, renorm=renorm)
            if rho is gen.REJECTED:
                return {"kind": "mps", "L": L, "m": m, "rejected": True}
            rec.busy = True
            try:
                r = dense_of(x, [x.site_ind(i) for i in range(L)], max_size=1 << 13)
                got = rho.to_dense(["kA", "kB"], ["bA", "bB"]) if hasattr(rho, "to_dense") else None
            except Exception:
                r = got = None
            finally:
                rec.busy = False
            if r is None or got is None:
                return {"kind": "mps", "L": L, "m": m, "unreferenced": True}
            v = np.asarray(r[0], dtype=complex).reshape([2] * L)
            keep = sysa + sysb
            rest = [i for i in range(L) if i not in keep]
            mat = np.transpose(v, keep + rest).reshape(2 ** len(keep), -1)
            want = mat @ mat.conj().T
            nrm = float(np.trace(want).real)
            if nrm <= 1e-12:
                return {"kind": "mps", "L": L, "m": m, "zero": True}
            if renorm:
                want = want / nrm
            got = np.asarray(to_numpy(got), dtype=complex)
            tr_ok = abs(np.trace(got) - np.trace(want)) <= 1e-7 * max(abs(np.trace(want)), 1e-300)
            ev_g = np.sort(np.linalg.eigvalsh((got + got.conj().T) / 2))[::-1]
            ev_w = np.sort(np.linalg.eigvalsh(want))[::-1]
            kk = min(len(ev_g), len(ev_w))
            sp_ok = float(np.abs(ev_g[:kk] - ev_w[:kk]).max()) <= 1e-7 * max(ev_w[0], 1e-300) and \
                float(np.abs(ev_w[kk:]).sum()) <= 1e-7 * max(ev_w[0], 1e-300)
            herm = float(np.abs(got - got.conj().T).max()) <= 1e-9 * max(float(np.abs(got).max()), 1e-300)
            full = len(keep) == L
            rec.check("rdm", "partial_trace_compress", bool(tr_ok),
                      mech="rdm:partial_trace_compress:" + ("not_renormalised" if renorm else "trace"),
                      detail={"trace": repr(complex(np.trace(got))), "want": repr(complex(np.trace(want))),
                              "sysa": sysa, "sysb": sysb, "renorm": renorm, "full_bipartition": full},
                      sig=("ptrc", "trace", renorm, full))
            rec.check("rdm", "partial_trace_compress", bool(sp_ok and herm) or not tr_ok,
                      mech="rdm:partial_trace_compress:spectrum",
                      detail={"got": [float(e) for e in ev_g[:4]], "want": [float(e) for e in ev_w[:4]],
                              "sysa": sysa, "sysb": sysb, "renorm": renorm},
                      sig=("ptrc", "spectrum", renorm, full))
            return {"kind": "mps", "L": L, "m": m, "sysa": sysa, "sysb": sysb, "renorm": renorm}
        if m == "envs":
            gen.attempt(x.compute_local_expectation_via_envs, terms, **kw)
        elif m == "canonical":
            gen.attempt(x.compute_local_expectation_canonical, terms, **kw)
        elif m == "canonical_info":
            # one user supplied record reused across calls (default inplace=False)
            info = {}
            for _ in range(3):
                sub = {w_: g_ for w_, g_ in terms.items() if rng.random() < 0.7} or dict(terms)
                if rng.random() < 0.5:
                    gen.attempt(x.compute_local_expectation_canonical, sub, info=info, **kw)
                else:
                    gen.attempt(x.compute_local_expectation, sub, method="canonical", info=info, **kw)
        else:
            gen.attempt(x.compute_local_expectation, terms, method=gen.choice(rng, ["canonical", "envs"]), **kw)
        return {"kind": "mps", "L": L, "m": m, "n": len(terms)}
    Lx, Ly = int(rng.integers(2, 4)), int(rng.integers(2, 4))
    D = int(rng.integers(1, 3))
    x = qtn.PEPS.rand(Lx, Ly, D, seed=int(rng.integers(1 << 30)), dtype=gen.choice(rng, ["float64", "complex128"]))
    if rng.random() < 0.25:
        x.exponent = float(gen.choice(rng, [0.5, -0.5, 1.0]))
    terms = {}
    for i in range(Lx):
        for j in range(Ly):
            if j + 1 < Ly and rng.random() < 0.4:
                terms[((i, j), (i, j + 1))] = gen.rand_array(rng, (4, 4), "complex128")
            if i + 1 < Lx and rng.random() < 0.4:
                terms[((i, j), (i + 1, j))] = gen.rand_array(rng, (4, 4), "complex128")
            if rng.random() < 0.2:
                terms[(i, j)] = gen.rand_array(rng, (2, 2), "complex128")
    if not terms:
        terms[((0, 0), (0, 1))] = gen.rand_array(rng, (4, 4), "complex128")
    exact = int(min(float(D) ** (2 * max(Lx, Ly)), 4096))
    kw = {"max_bond": gen.choice(rng, [exact, exact, exact * 2, 2]), "cutoff": 0.0,
          "normalized": bool(rng.random() < 0.6), "return_all": bool(rng.random() < 0.4)}
    if rng.random() < 0.3:
        kw["autogroup"] = bool(rng.random() < 0.5)
    if rng.random() < 0.3:
        kw["mode"] = gen.choice(rng, ["mps", "full-bond"])
    if rng.random() < 0.25:
        kw["equalize_norms"] = gen.choice(rng, [True, 1.0])
    gen.attempt(x.compute_local_expectation, terms, **kw)
    if rng.random() < 0.3:
        gen.attempt(x.compute_norm, max_bond=kw["max_bond"], cutoff=0.0)
    return {"kind": "peps", "Lx": Lx, "Ly": Ly, "D": D, "n": len(terms), "max_bond": kw["max_bond"]}


WORKLOADS = [
    ("routes", 5, wl_routes),
    ("lattice", 3, wl_lattice),
]
