"""C03 - labelled semantics: axis order never matters; non-in-place calls never
mutate.

O1 (universal runtime monitor): every plain-spelling method that has an
``inplace=False`` parameter (discovered by reflection on the tensor, network,
1D/2D/3D and arbitrary-geometry classes) and every binary operator is wrapped:
receiver and tensor/network arguments are fingerprinted before and after
(labels, tags, left_inds, dtype, bytes of every array *object* reachable before
the call, exponent, class, extra properties, maps).
O2: plain(x) == in-place spelling on a copy of x (labelled comparison).
O3: the same call after randomly permuting the stored axes of every tensor
gives the same labelled result."""

import functools
import hashlib
import inspect

import numpy as np

from .. import attach, gen
from ..core import close, eps_of, exponent_of, ops_of, to_numpy
from ..ref import value as refv

PROP = "C03"
NCASES = {"quick": 9000, "thorough": 250000}
BUDGET = {"quick": 65, "thorough": 900}
RULE = ("(f, f_) pairs and binary operators discovered by reflection; receivers from "
        "random labelled networks, MPS/MPO/PEPS/trees with stored exponents; "
        "arguments from per-method recipes; plus the C04 and C06 workloads run under "
        "the universal non-mutation monitor; non-trivial = receiver with >=2 tensors "
        "or rank>=2 tensor; distinct = (class, method, clause, argument signature)")
ASSUMPTIONS = [
    "gauge / info dictionaries documented as updated in place are exempt",
    "labelled equality = class, outer label set and sizes, tag set, exponent-"
    "inclusive dense value over the outer labels (bond names are random)",
    "Tensor/TensorNetwork.isometrize(method='qr') depends on column order by "
    "construction (QR) and is excluded from the axis-order clause",
]
DECIDING = [("nonmutation", "receiver"), ("plain_vs_inplace", "equal"),
            ("axis_order", "equal")]
SUITE = ["tests/test_tensor/test_tensor_core.py", "tests/test_tensor/test_tn1d",
         "tests/test_tensor/test_tnag", "tests/test_tensor/test_tn2d/test_core.py"]
MANIFEST = dict(
    technique="reflection-discovered universal runtime monitor (fingerprint of receiver/arguments and of every reachable array object before vs after each non-in-place call and binary operator) + differential checks plain-vs-in-place-on-copy and original-vs-axis-permuted receivers",
    text="Every plain-spelling method with an inplace=False parameter on Tensor, TensorNetwork and the 1D/2D/3D/arbitrary-geometry subclasses, and every binary/unary operator, is wrapped so that each call observed (own recipes + the C04/C06 workloads + the repository tests in the thorough tier) must leave receiver and tensor/network arguments byte-identical, including arrays shared with copies; for methods with a recipe the plain result must equal the in-place spelling on a copy and the result on an axis-permuted copy (labelled comparison).",
    note="Methods without an argument recipe are only covered by the non-mutation clause when another workload reaches them; evidence lists pairs reached.",
    ref="3/C03")

MAX_REF = 1 << 20


# ---------------------------------------------------------------------------
# fingerprints
# ---------------------------------------------------------------------------

def sha(a):
    a = to_numpy(a)
    try:
        return hashlib.sha1(np.ascontiguousarray(a).view(np.uint8).tobytes() if a.size
                            else b"").hexdigest()[:16] + str(a.shape) + str(a.dtype)
    except Exception:
        return repr(a)[:50]


def fp_tensor(t):
    return (type(t).__name__, tuple(t.inds), tuple(sorted(map(str, t.tags))),
            None if t.left_inds is None else tuple(t.left_inds), sha(t.data))


def fp_virtual(x):
    """fingerprint for the documented virtual combination ``a | b``: the tensors
    are shared with the result, and clashing *inner* bond names are renamed in
    place by design - everything else must be untouched"""
    if hasattr(x, "tensor_map"):
        inner = set(x._inner_inds)
        return ("TNv", type(x).__name__, repr(exponent_of(x)),
                tuple((tid, type(t).__name__,
                       tuple("*" if i in inner else i for i in t.inds),
                       tuple(sorted(map(str, t.tags))), sha(t.data))
                      for tid, t in x.tensor_map.items()),
                tuple(sorted(map(str, x.tag_map))), tuple(sorted(map(str, x._outer_inds))))
    return fp_obj(x)


def fp_obj(x):
    if hasattr(x, "tensor_map"):
        extra = tuple((ep, repr(getattr(x, ep, None))) for ep in type(x)._EXTRA_PROPS)
        return ("TN", type(x).__name__, repr(exponent_of(x)), extra,
                tuple((tid, fp_tensor(t)) for tid, t in x.tensor_map.items()),
                tuple(sorted(map(str, x.ind_map))), tuple(sorted(map(str, x.tag_map))),
                tuple(sorted(map(str, x._outer_inds))))
    if hasattr(x, "inds") and hasattr(x, "data"):
        return ("T",) + fp_tensor(x)
    return None


def arrays_of(x):
    if hasattr(x, "tensor_map"):
        return [t.data for t in x.tensor_map.values() if isinstance(t.data, np.ndarray)]
    if hasattr(x, "inds") and hasattr(x, "data") and isinstance(x.data, np.ndarray):
        return [x.data]
    return []


def is_tnlike(x):
    return hasattr(x, "tensor_map") or (hasattr(x, "inds") and hasattr(x, "data"))


# ---------------------------------------------------------------------------
# discovery + universal monitor
# ---------------------------------------------------------------------------

def discover():
    import quimb.tensor as qtn
    from quimb.tensor import tensor_core as tc
    import quimb.tensor.tn1d.core as c1
    import quimb.tensor.tn2d.core as c2
    import quimb.tensor.tn3d.core as c3
    import quimb.tensor.tnag.core as ca
    classes = []
    for mod in (tc, ca, c1, c2, c3):
        for v in vars(mod).values():
            if isinstance(v, type) and (issubclass(v, tc.Tensor) or issubclass(v, tc.TensorNetwork)):
                if v not in classes and v.__module__.startswith("quimb.tensor"):
                    classes.append(v)
    plain = []   # (cls, name) with inplace=False default
    pairs = []   # (cls, plain name, inplace name)
    for cls in classes:
        for name, v in list(vars(cls).items()):
            f = v
            if isinstance(v, functools.partialmethod):
                if v.keywords.get("inplace") is True and len(v.keywords) == 1 and not v.args:
                    fn = v.func
                    pname = None
                    for n2, v2 in vars(cls).items():
                        if v2 is fn:
                            pname = n2
                    if pname is None:
                        for base in cls.__mro__:
                            for n2, v2 in vars(base).items():
                                if v2 is fn:
                                    pname = n2
                    if pname and not pname.endswith("_"):
                        try:
                            d = inspect.signature(fn).parameters["inplace"].default
                        except (KeyError, ValueError, TypeError):
                            d = None
                        if d is False:
                            pairs.append((cls, pname, name))
                continue
            if not callable(f) or name.startswith("_") or isinstance(v, (staticmethod, classmethod, property)):
                continue
            try:
                sig = inspect.signature(f)
            except (ValueError, TypeError):
                continue
            p = sig.parameters.get("inplace")
            if p is not None and p.default is False:
                plain.append((cls, name))
            elif p is not None and p.default is True:
                # in-place by documented default: judged only when the caller
                # asks for inplace=False explicitly
                plain.append((cls, name))
                DEFAULT_INPLACE.add((cls.__name__, name))
    return classes, plain, pairs


OPERATORS = ["__add__", "__sub__", "__mul__", "__truediv__", "__pow__", "__matmul__",
             "__and__", "__or__", "__xor__", "__rshift__", "__neg__", "__radd__",
             "__rmul__", "__rsub__", "__rtruediv__", "__abs__", "__pos__"]
READONLY = ["copy", "contract", "to_dense", "norm", "overlap", "select", "partition",
            "partition_tensors", "select_tensors", "outer_inds", "inner_inds", "H",
            "trace", "distance", "aslinearoperator", "make_norm", "make_overlap",
            "singular_values", "entropy", "schmidt_values", "schmidt_gap", "isel",
            "max_bond", "bond_sizes", "compute_local_expectation", "local_expectation",
            "partial_trace", "to_qarray", "as_network", "split", "draw_tree_span"]

_DISC = None
DEFAULT_INPLACE = set()


def install(rec):
    global _DISC
    classes, plain, pairs = discover()
    _DISC = (classes, plain, pairs)
    rec.note("discovered_plain_methods", len(plain))
    rec.note("discovered_pairs", len(pairs))

    def mk(clsname, name, is_op=False):
        entry = f"{clsname}.{name}"
        fpf = fp_virtual if name in ("__or__", "__ror__") else fp_obj

        dflt = (clsname, name) in DEFAULT_INPLACE

        def pre(self, *a, **k):
            if not is_op and k.get("inplace", dflt):
                return None
            if rec.depth("nm") > 0:
                return None   # judged at the outermost plain call only
            objs = [("self", self)] + [(f"arg{i}", x) for i, x in enumerate(a) if is_tnlike(x)] \
                + [(kk, x) for kk, x in k.items() if is_tnlike(x)]
            snap = []
            for label, o in objs:
                arrs = arrays_of(o)
                snap.append((label, o, fpf(o), [(arr, sha(arr)) for arr in arrs]))
            return snap

        def post(snap, result, self, *a, **k):
            for label, o, fp0, arrs in snap:
                same = fpf(o) == fp0
                clause = "receiver" if label == "self" else "argument"
                why = ""
                if not same:
                    f1 = fpf(o)
                    if f1[0] == "TNv":
                        why = "virtual"
                    elif f1[0] == "TN":
                        why = ("class" if f1[1] != fp0[1] else "exponent" if f1[2] != fp0[2]
                               else "properties" if f1[3] != fp0[3] else "tensors"
                               if f1[4] != fp0[4] else "maps")
                    else:
                        why = "tensor"
                rec.check("nonmutation", clause, same,
                          mech=f"nonmutation:{clause}:{entry}:{why}",
                          detail={"method": entry, "what": label, "why": why,
                                  "kw": sorted(k)},
                          sig=(entry, clause, len(a), tuple(sorted(k))))
                bad = [i for i, (arr, h) in enumerate(arrs) if sha(arr) != h]
                rec.check("nonmutation", "shared_arrays", not bad,
                          mech=f"nonmutation:shared_arrays:{entry}",
                          detail={"method": entry, "what": label, "narrays": len(arrs)},
                          sig=(entry, "arrays"))

        return attach.monitored(rec, entry, pre, post, fam="nm")

    done = set()
    for cls, name in plain:
        key = (cls, name)
        if key in done or name not in vars(cls):
            continue
        done.add(key)
        try:
            attach.install(cls, name, mk(cls.__name__, name))
        except Exception as e:  # noqa
            rec.note("install_failed:" + cls.__name__ + "." + name)
    from quimb.tensor import tensor_core as tc
    for cls in classes:
        for op in OPERATORS:
            if op in vars(cls):
                try:
                    attach.install(cls, op, mk(cls.__name__, op, is_op=True))
                except Exception:
                    rec.note("install_failed:" + cls.__name__ + "." + op)


# ---------------------------------------------------------------------------
# labelled comparison
# ---------------------------------------------------------------------------

def dense_outer(x, output=None):
    outer = tuple(sorted(map(str, x.outer_inds()))) if output is None else tuple(sorted(output))
    ops = ops_of(x)
    if len(ops) > 40:
        return None
    try:
        v, s = refv.value_and_scale(ops, exponent_of(x), outer, MAX_REF)
    except (refv.TooBig, ValueError, MemoryError):
        return None
    return outer, v, s


def labelled_equal(a, b, tol_rel=1e-7, output=None, loose=False, eps0=0.0):
    """returns (ok|None, why).  ``output``: declared output labels (hyper
    networks / simplifications); ``loose``: the method is a simplification whose
    tensor bookkeeping (which tensor absorbs which, tags of dropped scalars) is a
    heuristic - only class, output labels and value are compared"""
    if isinstance(a, (tuple, list)) and isinstance(b, (tuple, list)):
        if len(a) != len(b):
            return False, "length"
        for x, y in zip(a, b):
            ok, why = labelled_equal(x, y, tol_rel, output, loose, eps0)
            if ok is not True:
                return ok, why
        return True, ""
    if is_tnlike(a) and is_tnlike(b) and hasattr(a, "tensor_map") != hasattr(b, "tensor_map"):
        # contract-like methods unwrap a single remaining tensor in the plain
        # spelling while the in-place spelling keeps the (one tensor) network
        import quimb.tensor as qtn
        tn, t = (a, b) if hasattr(a, "tensor_map") else (b, a)
        if tn.num_tensors != 1:
            return False, "kind"
        t1 = next(iter(tn.tensor_map.values()))
        if exponent_of(tn):
            t1 = t1 * (10.0 ** exponent_of(tn))
        return labelled_equal(t1, t, tol_rel, eps0=eps0)
    if hasattr(a, "tensor_map") != hasattr(b, "tensor_map"):
        # a fully contracted result may come back as a scalar from one spelling
        # and as the (scalar valued) network from the other
        tn, sc = (a, b) if hasattr(a, "tensor_map") else (b, a)
        if is_tnlike(sc) and getattr(sc, "ndim", 1) != 0:
            return False, "kind"
        if tn.outer_inds():
            return False, "kind"
        d = dense_outer(tn)
        if d is None:
            return None, "unreferenced"
        v = to_numpy(sc.data) if is_tnlike(sc) else np.asarray(to_numpy(sc))
        if np.shape(v) != ():
            return False, "kind"
        ok, err, _ = close(np.asarray(v), d[1], max(d[2], abs(complex(v))),
                           max(eps0, eps_of(np.asarray(v).dtype, *[t.dtype for t in tn])),
                           1e5, rel=tol_rel)
        return ok, "value"
    if hasattr(a, "tensor_map"):
        if type(a) is not type(b):
            return False, "class"
        for ep in type(a)._EXTRA_PROPS:
            if repr(getattr(a, ep, None)) != repr(getattr(b, ep, None)):
                return False, "properties"
        if output is None:
            if set(map(str, a.outer_inds())) != set(map(str, b.outer_inds())):
                return False, "outer_labels"
        else:
            output = [ix for ix in output]
            if any((ix not in a.ind_map) != (ix not in b.ind_map) for ix in output):
                return False, "outer_labels"
            output = [ix for ix in output if ix in a.ind_map]
        if not loose and set(map(str, a.tag_map)) != set(map(str, b.tag_map)):
            return False, "tags"
        da, db = dense_outer(a, output), dense_outer(b, output)
        if da is None or db is None:
            return None, "unreferenced"
        if da[1].shape != db[1].shape:
            return False, "outer_sizes"
        eps = max(eps0, eps_of(*[t.dtype for t in a], *[t.dtype for t in b]))
        ok, err, _ = close(db[1], da[1], max(da[2], db[2]), eps, 1e5, rel=tol_rel)
        return ok, "value"
    if hasattr(a, "inds") and hasattr(a, "data") and hasattr(b, "inds"):
        if set(a.inds) != set(b.inds) or len(a.inds) != len(b.inds):
            return False, "labels"
        if set(map(str, a.tags)) != set(map(str, b.tags)):
            return False, "tags"
        if len(set(a.inds)) != len(a.inds):
            return None, "repeated_labels"
        x = to_numpy(a.data)
        y = np.transpose(to_numpy(b.data), [b.inds.index(i) for i in a.inds])
        if x.shape != y.shape:
            return False, "sizes"
        sc = float(np.abs(x).max()) if x.size else 0.0
        ok, err, _ = close(y, x, sc, max(eps0, eps_of(x.dtype, y.dtype)), 1e5, rel=tol_rel)
        return ok, "value"
    try:
        x, y = np.asarray(to_numpy(a)), np.asarray(to_numpy(b))
        if x.shape != y.shape:
            return False, "shape"
        if x.dtype == object:
            return (repr(a) == repr(b)), "repr"
        sc = float(np.abs(x).max()) if x.size else 0.0
        ok, err, _ = close(y, x, sc, max(eps0, eps_of(x.dtype) if x.dtype.kind in "fc" else 2.3e-16),
                           1e5, rel=tol_rel)
        return ok, "value"
    except Exception:
        return (a == b), "eq"


def permute_axes(rng, obj):
    """random permutation of the stored axes of every tensor (same labelled content)"""
    ts = list(obj.tensor_map.values()) if hasattr(obj, "tensor_map") else [obj]
    for t in ts:
        if t.ndim > 1:
            perm = list(t.inds)
            rng.shuffle(perm)
            li = t.left_inds
            t.transpose_(*perm)
            if li is not None:
                t.modify(left_inds=li)
    return obj


# ---------------------------------------------------------------------------
# recipes:  name -> fn(rng, x) -> (args, kwargs) or None
# ---------------------------------------------------------------------------

def _outer(x):
    return list(x.outer_inds()) if hasattr(x, "tensor_map") else list(x.inds)


def _a_tag(rng, x):
    tags = sorted(map(str, x.tag_map)) if hasattr(x, "tag_map") else sorted(map(str, x.tags))
    return gen.choice(rng, tags) if tags else None


def _two_connected_tags(rng, tn):
    cands = []
    for ix in tn.inner_inds():
        tids = list(tn.ind_map[ix])
        if len(tids) == 2:
            ta = [t for t in tn.tensor_map[tids[0]].tags if len(tn.tag_map[t]) == 1]
            tb = [t for t in tn.tensor_map[tids[1]].tags if len(tn.tag_map[t]) == 1]
            if ta and tb and len(tn.tensor_map[tids[0]].bonds(tn.tensor_map[tids[1]])) == 1:
                cands.append((ta[0], tb[0], ix))
    return gen.choice(rng, cands) if cands else None


def tn_recipes():
    R = {}

    def r(name):
        def deco(f):
            R[name] = f
            return f
        return deco

    @r("retag")
    def _(rng, x):
        t = _a_tag(rng, x)
        return (({t: "NEWTAG"},), {}) if t else None

    @r("reindex")
    def _(rng, x):
        o = _outer(x)
        return (({o[0]: "NEWIND"},), {}) if o else None

    @r("conj")
    def _(rng, x):
        return ((), {})

    @r("multiply")
    def _(rng, x):
        return ((gen.choice(rng, [2.5, -0.3, 1.5 + 0.5j]),), {"spread_over": gen.choice(rng, [1, 2, "all"])})

    @r("multiply_each")
    def _(rng, x):
        return ((0.7,), {})

    @r("negate")
    def _(rng, x):
        return ((), {})

    @r("isel")
    def _(rng, x):
        inds = list(x.ind_map)
        return (({gen.choice(rng, inds): 0},), {}) if inds else None

    @r("sum_reduce")
    def _(rng, x):
        o = _outer(x)
        return ((gen.choice(rng, o),), {}) if o else None

    @r("vector_reduce")
    def _(rng, x):
        o = _outer(x)
        if not o:
            return None
        ix = gen.choice(rng, o)
        return ((ix, gen.rand_array(rng, (x.ind_size(ix),), "complex128")), {})

    @r("squeeze")
    def _(rng, x):
        return ((), {"fuse": bool(rng.random() < 0.5)})

    @r("equalize_norms")
    def _(rng, x):
        return ((), {"value": gen.choice(rng, [None, 1.0])})

    @r("balance_bonds")
    def _(rng, x):
        return ((), {})

    @r("fuse_multibonds")
    def _(rng, x):
        return ((), {})

    @r("expand_bond_dimension")
    def _(rng, x):
        return ((int(rng.integers(2, 5)),), {"rand_strength": 0.0})

    @r("flip")
    def _(rng, x):
        o = _outer(x)
        return (([gen.choice(rng, o)],), {}) if o else None

    for nm in ("rank_simplify", "diagonal_reduce", "antidiag_gauge", "column_reduce",
               "pair_simplify", "loop_simplify"):
        R[nm] = (lambda rng, x: ((), {"output_inds": tuple(_outer(x))}))
    R["split_simplify"] = lambda rng, x: ((), {})

    @r("full_simplify")
    def _(rng, x):
        return ((gen.choice(rng, ["ADCR", "R", "ADCRS", "RPL"]),), {"output_inds": tuple(_outer(x))})

    @r("compress_simplify")
    def _(rng, x):
        return ((), {"output_inds": tuple(_outer(x))})

    @r("astype")
    def _(rng, x):
        return (("complex128",), {})

    @r("gate_inds")
    def _(rng, x):
        o = _outer(x)
        if not o:
            return None
        ix = gen.choice(rng, o)
        d = x.ind_size(ix)
        return ((gen.rand_array(rng, (d, d), "complex128"), [ix]),
                {"contract": gen.choice(rng, [False, True])})

    @r("canonize_around")
    def _(rng, x):
        t = _a_tag(rng, x)
        return ((t,), {"max_distance": 2}) if t else None

    @r("gauge_all_canonize")
    def _(rng, x):
        return ((), {"max_iterations": 2})

    @r("gauge_all_simple")
    def _(rng, x):
        return ((), {"max_iterations": 3})

    @r("gauge_all_random")
    def _(rng, x):
        return ((), {"seed": 7})

    @r("gauge_local")
    def _(rng, x):
        t = _a_tag(rng, x)
        return ((t,), {}) if t else None

    @r("compress_all")
    def _(rng, x):
        return ((), {"max_bond": None, "cutoff": 0.0})

    @r("compress_all_simple")
    def _(rng, x):
        # lossless only: a truncating sweep on a loopy graph is a heuristic whose
        # error legitimately depends on the sweep order
        return ((), {"max_bond": None, "cutoff": 0.0, "max_iterations": 3})

    @r("contract_tags")
    def _(rng, x):
        t = _a_tag(rng, x)
        return ((t,), {}) if t else None

    @r("contract")
    def _(rng, x):
        t = _a_tag(rng, x)
        return ((t,), {}) if t else None

    @r("insert_operator")
    def _(rng, x):
        c = _two_connected_tags(rng, x)
        if c is None:
            return None
        a, b, ix = c
        d = x.ind_size(ix)
        return ((gen.rand_array(rng, (d, d), "complex128"), a, b), {"tags": ["OP"]})

    @r("drape_bond_between")
    def _(rng, x):
        c = _two_connected_tags(rng, x)
        if c is None or x.num_tensors < 3:
            return None
        a, b, ix = c
        others = [t for t in x.tag_map if len(x.tag_map[t]) == 1 and t not in (a, b)
                  and not (set(x.tag_map[t]) & (set(x.tag_map[a]) | set(x.tag_map[b])))]
        return ((a, b, gen.choice(rng, sorted(map(str, others)))), {}) if others else None

    @r("hyperinds_resolve")
    def _(rng, x):
        return ((gen.choice(rng, ["dense", "mps", "tree"]),), {"output_inds": tuple(_outer(x))})

    @r("contract_compressed")
    def _(rng, x):
        return ((), {"max_bond": None, "cutoff": 0.0, "optimize": "greedy"}) if x.num_tensors >= 2 else None

    @r("isometrize")
    def _(rng, x):
        return ((), {"method": "svd", "allow_no_left_inds": True})

    @r("randomize")
    def _(rng, x):
        return ((), {"seed": 3})

    return R


def tensor_recipes():
    R = {}

    def r(name):
        def deco(f):
            R[name] = f
            return f
        return deco

    @r("isel")
    def _(rng, t):
        return (({gen.choice(rng, list(t.inds)): 0},), {}) if t.inds else None

    R["conj"] = lambda rng, t: ((), {})
    R["negate"] = lambda rng, t: ((), {})
    R["squeeze"] = lambda rng, t: ((), {})
    R["normalize"] = lambda rng, t: ((), {})
    R["collapse_repeated"] = lambda rng, t: ((), {})
    R["astype"] = lambda rng, t: (("complex128",), {})

    @r("transpose")
    def _(rng, t):
        p = list(t.inds)
        rng.shuffle(p)
        return (tuple(p), {})

    @r("moveindex")
    def _(rng, t):
        return ((gen.choice(rng, list(t.inds)), int(rng.integers(0, t.ndim))), {}) if t.inds else None

    @r("sum_reduce")
    def _(rng, t):
        return ((gen.choice(rng, list(t.inds)),), {}) if t.inds else None

    @r("vector_reduce")
    def _(rng, t):
        if not t.inds:
            return None
        ix = gen.choice(rng, list(t.inds))
        return ((ix, gen.rand_array(rng, (t.ind_size(ix),), "complex128")), {})

    @r("gate")
    def _(rng, t):
        if not t.inds:
            return None
        ix = gen.choice(rng, list(t.inds))
        d = t.ind_size(ix)
        return ((gen.rand_array(rng, (d, d), "complex128"), ix), {"transpose": bool(rng.random() < 0.5)})

    @r("retag")
    def _(rng, t):
        tags = list(t.tags)
        return (({tags[0]: "NEW"},), {}) if tags else None

    @r("reindex")
    def _(rng, t):
        return (({t.inds[0]: "NEWIX"},), {}) if t.inds else None

    @r("fuse")
    def _(rng, t):
        if t.ndim < 2:
            return None
        k = int(rng.integers(1, t.ndim + 1))
        grp = [t.inds[int(i)] for i in rng.choice(t.ndim, size=k, replace=False)]
        return (({"FUSED": tuple(grp)},), {})

    @r("flip")
    def _(rng, t):
        return ((gen.choice(rng, list(t.inds)),), {}) if t.inds else None

    @r("multiply_index_diagonal")
    def _(rng, t):
        if not t.inds:
            return None
        ix = gen.choice(rng, list(t.inds))
        return ((ix, gen.rand_array(rng, (t.ind_size(ix),), "complex128")), {})

    @r("symmetrize")
    def _(rng, t):
        pairs = [(a, b) for i, a in enumerate(t.inds) for b in t.inds[i + 1:]
                 if t.ind_size(a) == t.ind_size(b)]
        return (tuple(gen.choice(rng, pairs)), {}) if pairs else None

    @r("isometrize")
    def _(rng, t):
        if t.ndim < 2:
            return None
        return ((), {"left_inds": t.inds[:1], "method": "svd"})

    @r("new_ind_pair_diag")
    def _(rng, t):
        return ((t.inds[0], "NA", "NB"), {}) if t.inds else None

    @r("direct_product")
    def _(rng, t):
        import quimb.tensor as qtn
        o = qtn.Tensor(gen.rand_array(rng, t.shape, str(t.dtype)), t.inds, tags=["Q"])
        return ((o,), {"sum_inds": t.inds[:1]}) if t.inds else None

    return R


def mps_recipes():
    R = {}
    R["gate_split"] = lambda rng, x: ((gen.rand_array(rng, (x.phys_dim() ** 2,) * 2, "complex128"),
                                      (0, 1)), {"cutoff": 0.0})
    R["gate_with_auto_swap"] = lambda rng, x: (
        (gen.rand_array(rng, (x.phys_dim() ** 2,) * 2, "complex128"), (0, x.L - 1)), {"cutoff": 0.0})
    R["gate_nonlocal"] = lambda rng, x: (
        (gen.rand_array(rng, (x.phys_dim() ** 2,) * 2, "complex128"), (x.L - 1, 0)), {"cutoff": 0.0})
    R["swap_sites_with_compress"] = lambda rng, x: ((0, 1), {"cutoff": 0.0})
    R["swap_site_to"] = lambda rng, x: ((0, x.L - 1), {"cutoff": 0.0})
    R["gate"] = lambda rng, x: ((gen.rand_array(rng, (x.phys_dim(),) * 2, "complex128"),
                                int(rng.integers(0, x.L))), {"contract": gen.choice(rng, [False, True])})
    R["reindex_sites"] = lambda rng, x: (("q{}",), {})

    def add(rng, x):
        import quimb.tensor as qtn
        o = qtn.MPS_rand_state(x.L, 2, phys_dim=x.phys_dim(), dtype=str(x.dtype),
                               seed=int(rng.integers(1 << 30)))
        return ((o,), {})
    R["add_MPS"] = add
    R["measure"] = lambda rng, x: ((int(rng.integers(0, x.L)),), {"outcome": 0})
    return R


_TNR = _TR = _MR = None


LOOSE = {"rank_simplify", "diagonal_reduce", "antidiag_gauge", "column_reduce",
         "split_simplify", "pair_simplify", "loop_simplify", "full_simplify",
         "compress_simplify", "hyperinds_resolve", "contract_compressed"}
RANDOM = {"randomize", "gauge_all_random", "isometrize"}


def _run_pair(rng, rec, x, name, iname, args, kw, judge_axes=True):
    """O2 + O3 for one (f, f_) pair on receiver x"""
    cls = type(x).__name__
    judge_axes = judge_axes and name not in RANDOM
    xs = list(x.tensor_map.values()) if hasattr(x, "tensor_map") else [x]
    eps0 = eps_of(*[t.dtype for t in xs])
    tol = 1e-7 if eps0 < 1e-10 else 1e-3
    output = kw.get("output_inds") if hasattr(x, "tensor_map") else None
    loose = name in LOOSE
    if hasattr(x, "tensor_map"):
        d = dense_outer(x, output)
        if d is None:
            rec.count("plain_vs_inplace", f"{cls}.{name}", "unreferenced")
            return
        vmax = float(np.abs(d[1]).max()) if d[1].size else 0.0
        if not np.isfinite(vmax) or vmax <= 1e-6 * d[2] or d[2] == 0.0:
            # (numerically) zero-valued network: every gauge / simplification is
            # pure round-off there
            rec.count("plain_vs_inplace", f"{cls}.{name}", "out_of_domain")
            return
        if loose and abs(float(np.real(exponent_of(x)))) > 2.0 * max(x.num_tensors, 1):
            # the simplifications work with absolute thresholds (atol=1e-6, cutoff
            # 1e-10) on the tensor entries: once a large stored exponent is spread
            # over the tensors (entries ~1e-6) they discard most of the network and
            # what is left depends on processing order - not a function of the labels
            rec.count("plain_vs_inplace", f"{cls}.{name}", "out_of_domain")
            return
    sig = (cls, name, tuple(sorted(kw)), len(args))
    import copy
    try:
        x_in = copy.deepcopy(x)
        a_in = copy.deepcopy(args)
        k_in = copy.deepcopy(kw)
        x_ax = permute_axes(rng, copy.deepcopy(x))
        a_ax = copy.deepcopy(args)
        k_ax = copy.deepcopy(kw)
        for obj in list(a_ax) + list(k_ax.values()):
            if is_tnlike(obj):
                permute_axes(rng, obj)
    except Exception:
        return
    r1 = gen.attempt(getattr(x, name), *args, **kw)
    if r1 is None:
        rec.count("plain_vs_inplace", f"{cls}.{name}", "rejected")
        return
    # O2: in-place spelling on the copy
    try:
        r2 = getattr(x_in, iname)(*a_in, **k_in)
    except Exception as e:  # noqa
        rec.check("plain_vs_inplace", "equal", False,
                  mech=f"plain_vs_inplace:{cls}.{name}:inplace_raises",
                  detail={"method": f"{cls}.{name}", "error": repr(e)[:200], "kw": sorted(kw)})
        r2 = None
    if r2 is not None:
        res2 = r2 if (is_tnlike(r2) or isinstance(r2, tuple)) else x_in
        if is_tnlike(r1) and not is_tnlike(r2) and not isinstance(r2, tuple):
            res2 = x_in
        ok, why = labelled_equal(r1, res2, tol, output=output, loose=loose, eps0=eps0)
        rec.check("plain_vs_inplace", "equal", ok,
                  mech=f"plain_vs_inplace:{cls}.{name}:{why}",
                  detail={"method": f"{cls}.{name}", "why": why, "kw": sorted(kw)}, sig=sig)
    # O3: axis permuted receiver
    if judge_axes:
        r3 = gen.attempt(getattr(x_ax, name), *a_ax, **k_ax)
        if r3 is None:
            rec.check("axis_order", "equal", False,
                      mech=f"axis_order:{cls}.{name}:permuted_rejected",
                      detail={"method": f"{cls}.{name}", "kw": sorted(kw)})
        else:
            ok, why = labelled_equal(r1, r3, tol, output=output, loose=loose, eps0=eps0)
            rec.check("axis_order", "equal", ok, mech=f"axis_order:{cls}.{name}:{why}",
                      detail={"method": f"{cls}.{name}", "why": why, "kw": sorted(kw)}, sig=sig)


def wl_pairs_tn(rng, rec, tier):
    global _TNR
    from . import c04
    if _TNR is None:
        _TNR = tn_recipes()
    hyper = bool(rng.random() < 0.1)
    tn, desc = c04.rand_network(rng, hyper)
    pairs = {(p, i) for c, p, i in _DISC[2] if issubclass(type(tn), c)}
    cands = [(p, i) for p, i in pairs if p in _TNR]
    names = []
    for _ in range(3):
        p, i = gen.choice(rng, sorted(cands))
        if hyper and p not in ("hyperinds_resolve", "retag", "reindex", "conj", "multiply",
                               "negate", "astype", "isel", "equalize_norms", "rank_simplify"):
            continue
        rc = _TNR[p](rng, tn)
        if rc is None:
            continue
        names.append(p)
        _run_pair(rng, rec, tn, p, i, rc[0], rc[1])
    desc["methods"] = names
    return desc


def wl_pairs_tensor(rng, rec, tier):
    global _TR
    import quimb.tensor as qtn
    if _TR is None:
        _TR = tensor_recipes()
    nd = int(rng.integers(0, 5))
    shape = tuple(int(gen.choice(rng, [1, 2, 2, 3])) for _ in range(nd))
    inds = tuple(f"i{k}" for k in range(nd))
    t = qtn.Tensor(gen.rand_array(rng, shape, gen.choice(rng, gen.DTYPES)), inds, tags=["A", "B"])
    if nd >= 2 and rng.random() < 0.2:
        t.modify(left_inds=inds[:1])
    pairs = sorted({(p, i) for c, p, i in _DISC[2] if issubclass(type(t), c) and p in _TR})
    names = []
    for _ in range(4):
        p, i = gen.choice(rng, pairs)
        rc = _TR[p](rng, t)
        if rc is None:
            continue
        names.append(p)
        _run_pair(rng, rec, t, p, i, rc[0], rc[1])
    # binary operators: non-mutation only (monitor) + axis order
    o = qtn.Tensor(gen.rand_array(rng, shape, "complex128"), inds, tags=["C"])
    for f in (lambda: t + o, lambda: t - o, lambda: t * 2.0, lambda: t / 3.0, lambda: -t,
              lambda: t @ o, lambda: t & o, lambda: t | o, lambda: 2 * t, lambda: t ** 2):
        gen.attempt(f)
    return {"shape": shape, "methods": names}


def wl_pairs_mps(rng, rec, tier):
    global _MR
    import quimb.tensor as qtn
    if _MR is None:
        _MR = mps_recipes()
    L = int(rng.integers(3, 7))
    x = qtn.MPS_rand_state(L, int(rng.integers(1, 4)), dtype=gen.choice(rng, ["float64", "complex128"]),
                           seed=int(rng.integers(1 << 30)))
    if rng.random() < 0.3:
        x.exponent = 0.5
    pairs = sorted({(p, i) for c, p, i in _DISC[2] if issubclass(type(x), c) and p in _MR})
    names = []
    for _ in range(3):
        p, i = gen.choice(rng, pairs)
        rc = _MR[p](rng, x)
        names.append(p)
        _run_pair(rng, rec, x, p, i, rc[0], rc[1])
    # methods that are in-place by default, asked explicitly not to be
    for f in (lambda: x.expand_bond_dimension(int(rng.integers(3, 6)), inplace=False),
              lambda: x.left_canonicalize(inplace=False), lambda: x.right_canonicalize(inplace=False)):
        gen.attempt(f)
    # network level operators
    y = qtn.MPS_rand_state(L, 2, seed=int(rng.integers(1 << 30)))
    for f in (lambda: x + y, lambda: x - y, lambda: x * 2.0, lambda: x / 2.0, lambda: -x,
              lambda: x.H @ y, lambda: x & y.reindex_sites("q{}"), lambda: x ^ all, lambda: 3 * x):
        gen.attempt(f)
    # operands that share their bond names with the receiver (a copy, a
    # re-scaled copy, the object itself), also with different stored exponents
    z = x.copy()
    if rng.random() < 0.5:
        z.exponent = float(x.exponent) + 1.0
    w = x.copy()
    w.multiply_(0.5, spread_over=1)
    for f in (lambda: x - z, lambda: x + z, lambda: x - x, lambda: x + x, lambda: x - w,
              lambda: x.add_MPS(z), lambda: z - x):
        gen.attempt(f)
    return {"L": L, "methods": names}


def flat1d_recipes():
    R = {}
    R["canonicalize"] = lambda rng, x: ((int(rng.integers(0, x.L)),), {})
    R["left_canonicalize"] = lambda rng, x: ((), {"stop": int(rng.integers(1, x.L))})
    R["right_canonicalize"] = lambda rng, x: ((), {"stop": int(rng.integers(0, x.L - 1))})
    R["compress"] = lambda rng, x: ((), {"cutoff": 0.0})
    R["expand_bond_dimension"] = lambda rng, x: ((int(rng.integers(2, 6)),), {"rand_strength": 0.0})
    R["reindex_all"] = lambda rng, x: (("z{}",), {})
    R["retag_all"] = lambda rng, x: (("S{}",), {})
    return R


def mpo_recipes():
    import quimb.tensor as qtn
    R = {}
    R["reindex_lower_sites"] = lambda rng, x: (("c{}",), {})
    R["reindex_upper_sites"] = lambda rng, x: (("d{}",), {})
    R["partial_transpose"] = lambda rng, x: (([0, x.L - 1],), {})

    def add(rng, x):
        o = qtn.MPO_rand(x.L, 2, phys_dim=x.phys_dim(), dtype=str(x.dtype),
                         seed=int(rng.integers(1 << 30)))
        return ((o,), {})
    R["add_MPO"] = add
    R["dot"] = lambda rng, x: ((qtn.MPS_rand_state(x.L, 2, phys_dim=x.phys_dim(),
                                                   seed=int(rng.integers(1 << 30))),), {})
    R["gate_upper_with_op_lazy"] = lambda rng, x: (add(rng, x)[0], {})
    R["gate_lower_with_op_lazy"] = lambda rng, x: (add(rng, x)[0], {})
    R["gate_sandwich_with_op_lazy"] = lambda rng, x: (add(rng, x)[0], {})
    R["gate_sandwich_with_auto_swap"] = lambda rng, x: (
        (gen.rand_array(rng, (x.phys_dim() ** 2,) * 2, "complex128"), (0, x.L - 1)), {"cutoff": 0.0})
    R["canonicalize"] = lambda rng, x: ((int(rng.integers(0, x.L)),), {})
    R["compress"] = lambda rng, x: ((), {"cutoff": 0.0})
    return R


def d2_recipes():
    R = {}
    for w in ("xmin", "xmax", "ymin", "ymax"):
        R[f"contract_boundary_from_{w}"] = (lambda w: lambda rng, x: (
            ((0, 1) if w[0] == "x" else (0, 1),),
            {"max_bond": 256, "cutoff": 0.0, "mode": gen.choice(rng, ["mps", "full-bond"])}))(w)
    R["contract_boundary_from"] = lambda rng, x: (
        (), {"xrange": (0, x.Lx - 1), "yrange": (0, 1), "from_which": gen.choice(rng, ["ymin", "ymax"]),
             "max_bond": 256, "cutoff": 0.0})
    R["contract_boundary"] = lambda rng, x: ((), {"max_bond": 256, "cutoff": 0.0,
                                                  "final_contract": False})
    R["coarse_grain_hotrg"] = lambda rng, x: ((gen.choice(rng, ["x", "y"]),),
                                              {"max_bond": 256, "cutoff": 0.0})
    R["flatten"] = lambda rng, x: ((), {})
    R["equalize_norms"] = lambda rng, x: ((), {"value": 1.0})
    R["gauge_all_simple"] = lambda rng, x: ((), {"max_iterations": 2})
    R["conj"] = lambda rng, x: ((), {})
    R["multiply"] = lambda rng, x: ((1.5,), {"spread_over": "all"})
    R["canonize_row"] = lambda rng, x: ((0,), {})
    R["compress_row"] = lambda rng, x: ((0,), {"cutoff": 0.0})
    R["canonize_column"] = lambda rng, x: ((0,), {})
    R["compress_column"] = lambda rng, x: ((0,), {"cutoff": 0.0})
    return R


_FR = _OR = _DR = None


def _pairs_for(x, R):
    out = set()
    for c, p, i in _DISC[2]:
        if isinstance(x, c) and p in R:
            out.add((p, i))
    return sorted(out)


def wl_pairs_flat(rng, rec, tier):
    global _FR, _OR
    import quimb.tensor as qtn
    if _FR is None:
        _FR, _OR = flat1d_recipes(), mpo_recipes()
    L = int(rng.integers(3, 6))
    if rng.random() < 0.5:
        x = qtn.MPS_rand_state(L, int(rng.integers(2, 4)), dtype=gen.choice(rng, ["float64", "complex128"]),
                               seed=int(rng.integers(1 << 30)), cyclic=bool(rng.random() < 0.15))
        R = _FR
    else:
        x = qtn.MPO_rand(L, int(rng.integers(2, 4)), dtype=gen.choice(rng, ["float64", "complex128"]),
                         seed=int(rng.integers(1 << 30)))
        R = _OR
    if rng.random() < 0.3:
        x.exponent = -0.25
    names = []
    pairs = _pairs_for(x, R)
    for _ in range(3):
        p, i = gen.choice(rng, pairs)
        if x.cyclic and p in ("canonicalize", "left_canonicalize", "right_canonicalize", "compress"):
            continue
        rc = R[p](rng, x)
        names.append(p)
        _run_pair(rng, rec, x, p, i, rc[0], rc[1])
    return {"class": type(x).__name__, "L": L, "methods": names}


def wl_pairs_2d(rng, rec, tier):
    global _DR
    import quimb.tensor as qtn
    if _DR is None:
        _DR = d2_recipes()
    Lx, Ly = int(rng.integers(2, 4)), int(rng.integers(2, 4))
    kind = gen.choice(rng, ["tn2d", "peps_norm", "peps"])
    seed = int(rng.integers(1 << 30))
    if kind == "tn2d":
        x = qtn.TN2D_rand(Lx, Ly, 2, seed=seed, dtype=gen.choice(rng, ["float64", "complex128"]))
    elif kind == "peps":
        x = qtn.PEPS.rand(Lx, Ly, 2, seed=seed)
    else:
        ps = qtn.PEPS.rand(Lx, Ly, 2, seed=seed)
        x = ps.make_norm()
    names = []
    pairs = _pairs_for(x, _DR)
    for _ in range(2):
        p, i = gen.choice(rng, pairs)
        if kind == "peps" and (p.startswith("contract_boundary") or p.startswith("coarse")):
            continue
        if kind != "peps_norm" and p == "flatten":
            continue
        if kind == "peps_norm" and p in ("canonize_row", "compress_row", "canonize_column",
                                         "compress_column", "coarse_grain_hotrg"):
            continue
        rc = _DR[p](rng, x)
        if kind == "peps_norm" and p.startswith("contract_boundary"):
            rc[1]["layer_tags"] = gen.choice(rng, [None, ("KET", "BRA")])
            rc[1].pop("mode", None)
        names.append(p)
        _run_pair(rng, rec, x, p, i, rc[0], rc[1])
    if kind == "peps":
        y = qtn.PEPS.rand(Lx, Ly, 2, seed=seed + 1)
        pi = [(p, i) for c, p, i in _DISC[2] if p == "add_PEPS"]
        if pi:
            _run_pair(rng, rec, x, pi[0][0], pi[0][1], (y,), {})
            names.append("add_PEPS")
    return {"kind": kind, "Lx": Lx, "Ly": Ly, "methods": names}



def _borrow(modname, fname):
    def wl(rng, rec, tier):
        import importlib
        mod = importlib.import_module(f"qmon.props.{modname}")
        class _Null:
            """the borrowed workload only drives the API; C03's monitors judge"""
            case = rec.case

            def check(self, *a, **k):
                return None

            def count(self, *a, **k):
                return None

            def note(self, *a, **k):
                return None

            def sig(self, *a, **k):
                return None
        return getattr(mod, fname)(rng, _Null(), tier)
    return wl


WORKLOADS = [
    ("pairs_tn", 6, wl_pairs_tn),
    ("pairs_tensor", 3, wl_pairs_tensor),
    ("pairs_mps", 3, wl_pairs_mps),
    ("pairs_flat", 3, wl_pairs_flat),
    ("pairs_2d", 2, wl_pairs_2d),
    ("borrow_c04_compose", 2, _borrow("c04", "wl_compose")),
    ("borrow_c04_structured", 1, _borrow("c04", "wl_structured")),
    ("borrow_c06_sites", 2, _borrow("c06", "wl_sites")),
    ("borrow_c06_mps", 1, _borrow("c06", "wl_mps_modes")),
    ("borrow_c06_operator", 1, _borrow("c06", "wl_operator")),
]
