"""C17 - eigen / singular / exponential solvers return genuine, correctly
selected results.  Postcondition monitors on the real solver entry points vs
the dense spectrum computed with numpy/scipy.linalg."""

import numpy as np
import scipy.linalg as sla
import scipy.sparse as sp
import scipy.sparse.linalg as spla

from .. import attach, gen
from ..core import close
from ..ref import linalg as rl

PROP = "C17"
NCASES = {"quick": 20000, "thorough": 400000}
BUDGET = {"quick": 60, "thorough": 900}
RULE = ("Hermitian/general operators (random, degenerate, permuted block-diagonal) "
        "as dense / csr,csc,coo,bsr / LinearOperator / Lazy, sizes 2..90 straddling "
        "the backend-selection threshold, k, which, sigma, backend in "
        "numpy/scipy/lobpcg/AUTO, generalized with a metric; non-trivial = d>=3; "
        "distinct = (entry, d, k, which, backend, representation, spectrum kind)")
ASSUMPTIONS = [
    "dense spectrum reference from scipy.linalg.eigh/eig/svd",
    "selection is degeneracy-aware: ties at the selection boundary accept either "
    "member (margin 1e-7 * spectral scale)",
    "iterative backends are judged at residual 1e-6*|A| (lobpcg 1e-3), dense at 1e-9",
]
DECIDING = [("eigensystem", "residual"), ("eigensystem", "selection"),
            ("svds", "triplets"), ("expm", "value"), ("eigh_window", "window")]
MANIFEST = dict(
    technique="runtime postcondition monitors on eigensystem/eigensystem_partial/eigh_window/bound_spectrum/svd/svds/norm/expm/expm_multiply/sqrtm/eigensystem_autoblocked/rsvd/estimate_rank vs dense numpy/scipy spectra (degeneracy-aware selection oracle)",
    text="Every solver call made by the workloads is checked at exit: residual |Av-lBv|, B-orthonormality for Hermitian problems, documented order, and that the returned values are exactly the requested part (SA/LA/SM/LM/SR/LR/SI/LI, nearest sigma, relative window, generalized) of the dense spectrum as a multiset with ties at the boundary accepted; singular triplets, norms, expm/expm_multiply/sqrtm and autoblock spectra against their defining equations.",
    note="slepc/primme backends are absent in this sandbox and not exercised. Non-converging ARPACK/lobpcg runs raise and are counted as rejections.",
    ref="3/C17")


def densify(A):
    import quimb as qu
    if isinstance(A, qu.Lazy):
        A = A()
    if sp.issparse(A):
        return A.toarray()
    if isinstance(A, spla.LinearOperator):
        n = A.shape[1]
        return np.stack([np.asarray(A.matvec(np.eye(n, dtype=complex)[:, j])).reshape(-1)
                         for j in range(n)], axis=1)
    return np.asarray(A)


def sel_key(which, sigma):
    w = which.upper()
    return {
        "SA": lambda a: a.real, "LA": lambda a: -a.real,
        "SR": lambda a: a.real, "LR": lambda a: -a.real,
        "SI": lambda a: a.imag, "LI": lambda a: -a.imag,
        "SM": lambda a: np.abs(a), "LM": lambda a: -np.abs(a),
        "TR": lambda a: np.abs(a.real - sigma), "TM": lambda a: np.abs(np.abs(a) - sigma),
        "TI": lambda a: np.abs(a.imag - sigma),
        "NEAREST": lambda a: np.abs(a - sigma),
    }[w]


def match_values(got, true, tol):
    """greedy nearest matching of returned values to distinct true eigenvalues;
    returns list of matched indices or None"""
    true = np.asarray(true)
    used = np.zeros(len(true), dtype=bool)
    out = []
    for g in got:
        d = np.abs(true - g)
        d[used] = np.inf
        i = int(np.argmin(d)) if len(d) else -1
        if i < 0 or not np.isfinite(d[i]) or d[i] > tol:
            return None
        used[i] = True
        out.append(i)
    return out


def judge_selection(rec, entry, got, true, k, key, scale, tol, detail, sig,
                    degenerate_ambiguous=False):
    """got must be k values that are (a multiset of) true eigenvalues and form
    the best-k set under key, with ties accepted"""
    got = np.asarray(got).reshape(-1)
    if len(got) != min(k, len(true)):
        rec.check(entry, "count", False, mech=f"{entry}:count",
                  detail=dict(detail, got=len(got), want=min(k, len(true))))
        return
    idx = match_values(got, true, tol)
    if idx is None:
        rec.check(entry, "genuine", False, mech=f"{entry}:genuine:not_in_spectrum",
                  detail=dict(detail, got=got[:6], true=np.asarray(true)[:8]))
        return
    rec.check(entry, "genuine", True, sig=sig)
    keys = key(np.asarray(true))
    order = np.sort(keys)
    kk = len(got)
    t = order[kk - 1]
    margin = 1e-6 * scale + 10 * tol
    required = {i for i in range(len(true)) if keys[i] < t - margin}
    allowed = {i for i in range(len(true)) if keys[i] <= t + margin}
    M = set(idx)
    ok = required <= M <= allowed
    if not ok and degenerate_ambiguous:
        # single-vector Krylov solvers (ARPACK) can miss copies of an exactly
        # degenerate eigenvalue (third-party limitation): if the wanted region
        # of the spectrum is degenerate the case is ambiguous, not a violation
        best = np.sort(np.asarray(true)[np.argsort(keys)[:kk + 2]])
        if len(best) > 1 and np.min(np.abs(np.diff(best))) < 1e-7 * scale:
            ok = None
    rec.check(entry, "selection", ok, mech=f"{entry}:selection:wrong_part",
              detail=dict(detail, got=got[:6],
                          want=np.asarray(true)[np.argsort(keys)[:kk]][:6]),
              sig=sig)


def install(rec):
    import quimb as qu
    from quimb.linalg import base_linalg as bl
    from quimb.linalg import autoblock, rand_linalg

    def rep(A):
        if isinstance(A, qu.Lazy):
            return "lazy"
        if sp.issparse(A):
            return A.format
        if isinstance(A, spla.LinearOperator):
            return "linop"
        return "dense"

    # ------------------------------------------------------------------
    def pre_eig(A, *a, **k):
        del RAN[:]
        if A.shape[0] > 200:
            return None
        Ad = densify(A)
        B = k.get("B")
        Bd = densify(B) if B is not None else None
        return {"A": Ad, "B": Bd, "rep": rep(A)}

    class Buf:
        """captures checks so that a failing iterative-solver call can be
        re-run before anything is recorded"""

        def __init__(self):
            self.items = []

        def check(self, entry, clause, ok, **k):
            self.items.append(("check", entry, clause, ok, k))
            return ok

        def count(self, entry, clause, kind, n=1):
            self.items.append(("count", entry, clause, kind, n))

        def failed(self):
            return [it for it in self.items if it[0] == "check" and it[3] is False]

        def flush(self, to_ambiguous=False):
            for it in self.items:
                if it[0] == "count":
                    rec.count(it[1], it[2], it[3], it[4])
                else:
                    ok = it[3]
                    if ok is False and to_ambiguous:
                        ok = None
                        rec.note("third_party_flaky:" + it[1] + ":" + it[2])
                    rec.check(it[1], it[2], ok, **it[4])

    RAN = []

    def note_backend(name, fn):
        import functools as ft

        @ft.wraps(fn)
        def w(*a, **k):
            RAN.append(name)
            return fn(*a, **k)
        return w

    for name_, fn_ in list(bl._EIGS_METHODS.items()):
        bl._EIGS_METHODS[name_] = note_backend(name_, fn_)
    bl.eigs_scipy = note_backend("SCIPY", bl.eigs_scipy)

    def post_eig(snap, result, A, *a, **kw):
        ran = list(RAN)
        del RAN[:]
        buf = Buf()
        _judge_eig(buf, ran, snap, result, A, *a, **kw)
        iterative = any(r != "NUMPY" for r in ran)
        flaky = False
        if buf.failed() and iterative:
            # third-party Krylov solvers start from a random vector: a failure
            # that does not reproduce is not attributable to quimb
            orig = bl.eigensystem.__qmon_original__ if "k" in kw or not a or len(a) < 2 \
                else bl.eigensystem_partial.__qmon_original__
            for _ in range(2):
                try:
                    del RAN[:]
                    res2 = orig(A, *a, **kw)
                    ran2 = list(RAN)
                    del RAN[:]
                except Exception:
                    continue
                b2 = Buf()
                _judge_eig(b2, ran2, snap, res2, A, *a, **kw)
                if not b2.failed():
                    flaky = True
                    break
        buf.flush(to_ambiguous=flaky)

    def _judge_eig(rec, ran, snap, result, A, *a, **kw):
        isherm = kw.get("isherm", a[0] if a else None)
        if "k" not in kw and len(a) >= 2:  # eigensystem_partial(A, k, isherm)
            k, isherm = a[0], a[1]
        else:
            k = kw.get("k", -1)
        entry = "eigensystem"
        Ad, Bd = snap["A"], snap["B"]
        d = Ad.shape[0]
        return_vecs = kw.get("return_vecs", True)
        sort = kw.get("sort", True)
        which = kw.get("which")
        sigma = kw.get("sigma")
        backend = (kw.get("backend") or "AUTO").upper()
        full = k is None or k < 0
        if return_vecs:
            lk, vk = result
            vk = np.asarray(vk)
        else:
            lk, vk = result, None
        lk = np.asarray(lk).reshape(-1)
        scale = float(np.abs(Ad).max()) * max(d, 1) ** 0.5 + 1e-300
        dense_path = full or (bool(ran) and all(r == "NUMPY" for r in ran))
        if "LOBPCG" in ran:
            backend = "LOBPCG"
        rtol = 1e-9 if dense_path else (1e-3 if backend == "LOBPCG" else 1e-6)
        # non-normal matrices: eigenvalues are ill conditioned
        cond = 1.0
        if not isherm:
            try:
                w_, V_ = np.linalg.eig(Ad)
                cond = min(np.linalg.cond(V_), 1e8)
            except Exception:
                cond = 1e8
        tol = rtol * scale * cond
        sig = (d, k if not full else -1, which, sigma is not None, backend,
               snap["rep"], bool(isherm), Bd is not None)
        detail = {"d": d, "k": k, "which": which, "sigma": sigma,
                  "backend": backend, "rep": snap["rep"], "isherm": bool(isherm),
                  "generalized": Bd is not None}
        # reference spectrum
        try:
            if isherm:
                true = sla.eigvalsh(Ad, Bd) if Bd is not None else np.linalg.eigvalsh(Ad)
            else:
                true = sla.eigvals(Ad, Bd) if Bd is not None else np.linalg.eigvals(Ad)
        except Exception:
            rec.count(entry, "selection", "unreferenced")
            return
        # (1) residual + orthonormality
        if vk is not None and vk.size:
            Bv = Bd @ vk if Bd is not None else vk
            R = Ad @ vk - Bv * lk[None, :]
            vn = np.linalg.norm(vk, axis=0)
            res = float(np.max(np.linalg.norm(R, axis=0) / np.maximum(vn, 1e-300)))
            rec.check(entry, "residual", res <= tol * 10, mech=f"{entry}:residual",
                      detail=dict(detail, res=res, tol=tol * 10), sig=sig)
            if isherm and not (Bd is not None and not dense_path and not full
                               and k >= d - 1):
                # (generalized + k >= d-1 on the scipy path: scipy's dense
                # fallback returns 2-norm normalised vectors - third party)
                G = vk.conj().T @ Bv
                E = np.abs(G - np.eye(G.shape[0]))
                otol = 1e-8 if dense_path else 1e-5
                mech_o = f"{entry}:orthonormal"
                if not dense_path:
                    # inside an exactly degenerate eigenspace the iterative drivers
                    # return whatever basis they converged to: for real symmetric
                    # problems that basis is orthonormal, for complex Hermitian ones
                    # scipy's general ARPACK driver does not orthogonalise it - the
                    # property still asks for it, so it is judged, under its own key
                    sep = np.abs(lk[:, None] - lk[None, :]) > 1e-6 * scale
                    Esep = E * (sep | np.eye(len(lk), dtype=bool))
                    if float(Esep.max()) <= otol * max(d, 1) < float(E.max()):
                        mech_o = f"{entry}:orthonormal:within_degenerate_level"
                off = float(E.max())
                rec.check(entry, "orthonormal", off <= otol * max(d, 1),
                          mech=mech_o,
                          detail=dict(detail, off=off), sig=sig)
        # (2) order
        if sort and len(lk) > 1:
            key = lk.real if isherm else lk
            srt = np.all(np.diff(np.real(key)) >= -tol) if isherm or not np.iscomplexobj(lk) \
                else bool(np.all(np.argsort(lk) == np.arange(len(lk)))
                          or np.all(np.diff(lk.real) >= -tol))
            rec.check(entry, "sorted", bool(srt), mech=f"{entry}:sorted",
                      detail=dict(detail, lk=lk[:6]), sig=sig)
        # (3) selection
        if full:
            idx = match_values(lk, true, tol * 10)
            ok = idx is not None and len(lk) == len(true)
            rec.check(entry, "selection", ok, mech=f"{entry}:selection:full_spectrum",
                      detail=detail, sig=sig)
        else:
            if which is None:
                which_eff = "SA" if sigma is None else "NEAREST"
            elif "T" in which.upper() and sigma is not None:
                which_eff = which.upper() if dense_path else "NEAREST"
            elif sigma is not None and not dense_path:
                which_eff = "NEAREST" if which.upper() == "LM" else None
            else:
                which_eff = which.upper()
            if which_eff in ("LI", "SI") and not dense_path and not (
                    np.iscomplexobj(Ad) and np.abs(Ad.imag).max() > 0):
                which_eff = None  # ARPACK (real, non-symmetric) uses |imag|: third party
            if which_eff is None:
                rec.count(entry, "selection", "out_of_domain")
            else:
                judge_selection(rec, entry, lk, true, k, sel_key(which_eff, sigma),
                                scale, tol * 10, detail, sig,
                                degenerate_ambiguous=not dense_path)

    attach.install(bl, "eigensystem", attach.monitored(
        rec, "eigensystem", pre_eig, post_eig, fam="eig"))

    def pre_eigp(A, k, isherm, **kw):
        if rec.depth("eig") > 0:
            return None
        return pre_eig(A, **kw)

    def post_eigp(snap, result, A, k, isherm, **kw):
        post_eig(snap, result, A, k=k, isherm=isherm, **kw)

    attach.install(bl, "eigensystem_partial", attach.monitored(
        rec, "eigensystem_partial", pre_eigp, post_eigp, fam="eig"))

    # ------------------------------------------------------------------
    def pre_win(A, w_0, k, w_sz=None, backend="AUTO", return_vecs=True, **kw):
        if A.shape[0] > 200:
            return None
        return {"A": densify(A), "rep": rep(A)}

    def post_win(snap, result, A, w_0, k, w_sz=None, backend="AUTO",
                 return_vecs=True, **kw):
        Ad = snap["A"]
        true = np.linalg.eigvalsh(Ad)
        lmin, lmax = true[0], true[-1]
        wsz = 1.1 if w_sz is None else w_sz
        c = lmin + w_0 * (lmax - lmin)
        lo, hi = c - wsz * (lmax - lmin) / 2, c + wsz * (lmax - lmin) / 2
        lk = np.asarray(result[0] if return_vecs else result).reshape(-1)
        scale = float(np.abs(true).max()) + 1e-300
        tol = 1e-6 * scale
        sig = (Ad.shape[0], k, round(float(w_0), 3), w_sz, snap["rep"], backend)
        detail = {"d": Ad.shape[0], "k": k, "w_0": w_0, "w_sz": w_sz,
                  "rep": snap["rep"], "backend": backend}
        idx = match_values(lk, true, tol)
        inwin = bool(np.all((lk > lo - tol) & (lk < hi + tol)))
        ok = idx is not None and inwin
        if ok:
            dense_path = snap["rep"] == "dense" or backend.upper() == "NUMPY"
            inside = {i for i, l in enumerate(true) if lo + tol < l < hi - tol}
            # whatever the representation: the (up to) k eigenvalues nearest the
            # centre, trimmed to the window ("k: target number", "el: (k,) array")
            dist = np.abs(true - c)
            order = np.sort(dist)
            kk = min(k, len(true))
            t = order[kk - 1]
            req = {i for i in inside if dist[i] < t - 10 * tol}
            ok = req <= set(idx)
            if ok and len(lk) > kk:
                ok = False
                detail = dict(detail, returned=len(lk), note="more_than_k")
        rec.check("eigh_window", "window", ok, mech="eigh_window:window" + (":more_than_k" if detail.get("note") else ""),
                  detail=dict(detail, got=lk[:6], window=(lo, hi)), sig=sig)
        if return_vecs and len(lk):
            vk = np.asarray(result[1])
            R = Ad @ vk - vk * lk[None, :]
            res = float(np.abs(R).max())
            rec.check("eigh_window", "residual", res <= 1e-5 * scale * 10,
                      mech="eigh_window:residual", detail=dict(detail, res=res), sig=sig)

    attach.install(bl, "eigh_window", attach.monitored(
        rec, "eigh_window", pre_win, post_win, fam="win"))

    def pre_bound(A, backend="auto", **kw):
        if A.shape[0] > 200:
            return None
        return {"A": densify(A), "rep": rep(A)}

    def post_bound(snap, result, A, backend="auto", **kw):
        true = np.linalg.eigvalsh(snap["A"])
        scale = float(np.abs(true).max()) + 1e-300
        ok = abs(result[0] - true[0]) <= 1e-6 * scale and abs(result[1] - true[-1]) <= 1e-6 * scale
        rec.check("bound_spectrum", "value", ok, mech="bound_spectrum:value",
                  detail={"got": result, "want": (true[0], true[-1])},
                  sig=(snap["A"].shape[0], snap["rep"], backend))

    attach.install(bl, "bound_spectrum", attach.monitored(
        rec, "bound_spectrum", pre_bound, post_bound, fam="bound"))

    # ------------------------------------------------------------------
    def check_triplets(entry, Ad, U, s, VH, k, tolrel, sig, detail):
        strue = np.linalg.svd(Ad, compute_uv=False)
        scale = float(strue[0]) if len(strue) else 0.0
        tol = tolrel * (scale + 1e-300)
        s = np.asarray(s).reshape(-1)
        kk = min(k, len(strue)) if k is not None else len(strue)
        ok_vals = len(s) == kk and bool(np.all(np.abs(s - strue[:kk]) <= tol))
        rec.check(entry, "values", ok_vals, mech=f"{entry}:values",
                  detail=dict(detail, got=s[:6], want=strue[:6]), sig=sig)
        rec.check(entry, "descending", bool(np.all(np.diff(s) <= tol)),
                  mech=f"{entry}:descending", detail=detail, sig=sig)
        if U is not None:
            U, VH = np.asarray(U), np.asarray(VH)
            r1 = float(np.abs(Ad @ VH.conj().T - U * s[None, :]).max())
            r2 = float(np.abs(Ad.conj().T @ U - VH.conj().T * s[None, :]).max())
            rec.check(entry, "triplets", max(r1, r2) <= 10 * tol,
                      mech=f"{entry}:triplets", detail=dict(detail, r1=r1, r2=r2),
                      sig=sig)

    def pre_svd(A, return_vecs=True):
        return {"A": densify(A)}

    def post_svd(snap, result, A, return_vecs=True):
        Ad = snap["A"]
        if return_vecs:
            U, s, VH = result
        else:
            U, s, VH = None, result, None
        check_triplets("svd", Ad, U, s, VH, None, 1e-10, (Ad.shape, return_vecs),
                       {"shape": Ad.shape})

    attach.install(bl, "svd", attach.monitored(rec, "svd", pre_svd, post_svd, fam="svd"))

    def pre_svds(A, k, ncv=None, return_vecs=True, backend="AUTO", **kw):
        if max(A.shape) > 300:
            return None
        return {"A": densify(A), "rep": rep(A)}

    def post_svds(snap, result, A, k, ncv=None, return_vecs=True, backend="AUTO", **kw):
        Ad = snap["A"]
        if return_vecs:
            U, s, VH = result
        else:
            U, s, VH = None, result, None
        check_triplets("svds", Ad, U, s, VH, k, 1e-7,
                       (Ad.shape, k, backend, snap["rep"], return_vecs),
                       {"shape": Ad.shape, "k": k, "backend": backend, "rep": snap["rep"]})

    attach.install(bl, "svds", attach.monitored(rec, "svds", pre_svds, post_svds, fam="svds"))

    def pre_norm(A, ntype=2, **kw):
        if max(A.shape) > 300:
            return None
        return {"A": densify(A), "rep": rep(A)}

    def post_norm(snap, result, A, ntype=2, **kw):
        s = np.linalg.svd(snap["A"], compute_uv=False)
        t = {"2": "2", 2: "2", "spectral": "2", "f": "f", "fro": "f"}.get(ntype, "t")
        want = {"2": s[0], "f": float(np.sqrt(np.sum(s ** 2))), "t": float(np.sum(s))}[t]
        ok = abs(result - want) <= 1e-7 * (s[0] + 1e-300) * max(len(s), 1)
        rec.check("norm", "value", bool(ok), mech=f"norm:value:{t}",
                  detail={"ntype": ntype, "got": result, "want": want, "rep": snap["rep"]},
                  sig=(snap["A"].shape, t, snap["rep"]))

    attach.install(bl, "norm", attach.monitored(rec, "norm", pre_norm, post_norm, fam="norm"))

    # ------------------------------------------------------------------
    def pre_expm(A, herm=False):
        if A.shape[0] > 200:
            return None
        return {"A": densify(A), "rep": rep(A)}

    def post_expm(snap, result, A, herm=False):
        want = sla.expm(snap["A"])
        sc = float(np.abs(want).max())
        ok, err, bound = close(rl.dense(result), want, sc, 2.3e-16, 1e6)
        rec.check("expm", "value", ok, mech="expm:value",
                  detail={"herm": herm, "rep": snap["rep"], "err": err},
                  sig=(snap["A"].shape, herm, snap["rep"]))

    attach.install(bl, "expm", attach.monitored(rec, "expm", pre_expm, post_expm, fam="expm"))

    def pre_expmm(mat, vec, backend="AUTO", **kw):
        if mat.shape[0] > 300:
            return None
        return {"A": densify(mat), "v": np.array(rl.dense(vec), copy=True), "rep": rep(mat)}

    def post_expmm(snap, result, mat, vec, backend="AUTO", **kw):
        want = sla.expm(snap["A"]) @ snap["v"].reshape(snap["A"].shape[0], -1)
        got = rl.dense(result).reshape(want.shape)
        sc = float(np.abs(want).max()) + float(np.abs(snap["v"]).max())
        ok, err, bound = close(got, want, sc, 2.3e-16, 1e7)
        rec.check("expm_multiply", "value", ok, mech="expm_multiply:value",
                  detail={"rep": snap["rep"], "err": err},
                  sig=(snap["A"].shape, snap["rep"], snap["v"].shape))

    attach.install(bl, "expm_multiply", attach.monitored(
        rec, "expm_multiply", pre_expmm, post_expmm, fam="expmm"))

    def pre_sqrtm(A, herm=True):
        if sp.issparse(A) or A.shape[0] > 200:
            return None
        return {"A": densify(A)}

    def post_sqrtm(snap, result, A, herm=True):
        S = rl.dense(result)
        Ad = snap["A"]
        sc = float(np.abs(Ad).max())
        ok, err, bound = close(S @ S, Ad, sc, 2.3e-16, 1e7)
        rec.check("sqrtm", "squares_back", ok, mech="sqrtm:squares_back",
                  detail={"herm": herm, "err": err}, sig=(Ad.shape, herm))

    attach.install(bl, "sqrtm", attach.monitored(rec, "sqrtm", pre_sqrtm, post_sqrtm,
                                                 fam="sqrtm"))

    # ------------------------------------------------------------------
    def pre_ab(A, sort=True, return_vecs=True, isherm=True):
        return {"A": np.array(A, copy=True)}

    def post_ab(snap, result, A, sort=True, return_vecs=True, isherm=True):
        Ad = snap["A"]
        true = np.linalg.eigvalsh(Ad)
        el = np.asarray(result[0] if return_vecs else result)
        scale = float(np.abs(true).max()) + 1e-300
        ok = match_values(el, true, 1e-9 * scale) is not None and len(el) == len(true)
        rec.check("autoblock", "spectrum", ok, mech="autoblock:spectrum",
                  detail={"d": Ad.shape[0]}, sig=(Ad.shape[0], sort, return_vecs))
        if sort:
            rec.check("autoblock", "sorted", bool(np.all(np.diff(el) >= -1e-12 * scale)),
                      mech="autoblock:sorted", detail={"d": Ad.shape[0]})
        if return_vecs:
            ev = np.asarray(result[1])
            res = float(np.abs(Ad @ ev - ev * el[None, :]).max())
            orth = float(np.abs(ev.conj().T @ ev - np.eye(len(el))).max())
            rec.check("autoblock", "residual", res <= 1e-9 * scale * len(el)
                      and orth <= 1e-9 * len(el),
                      mech="autoblock:residual", detail={"res": res, "orth": orth},
                      sig=(Ad.shape[0], "vecs"))

    attach.install(autoblock, "eigensystem_autoblocked", attach.monitored(
        rec, "autoblock", pre_ab, post_ab, fam="ab"))


# ---------------------------------------------------------------------------
# workloads
# ---------------------------------------------------------------------------

def rand_herm(rng, d, kind, dtype):
    if kind == "random":
        a = gen.rand_array(rng, (d, d), dtype)
        return (a + a.conj().T) / 2
    if kind == "degenerate":
        vals = rng.integers(-3, 4, size=d).astype(float)
        q, _ = np.linalg.qr(gen.rand_array(rng, (d, d), dtype))
        return (q * vals) @ q.conj().T
    if kind == "blocks":
        A = np.zeros((d, d), dtype=dtype)
        i = 0
        while i < d:
            b = int(rng.integers(1, 5))
            b = min(b, d - i)
            blk = gen.rand_array(rng, (b, b), dtype)
            A[i:i + b, i:i + b] = (blk + blk.conj().T) / 2
            i += b
        p = rng.permutation(d)
        return A[np.ix_(p, p)]
    if kind == "psd":
        a = gen.rand_array(rng, (d, max(1, d // 2)), dtype)
        return a @ a.conj().T
    raise ValueError(kind)


def represent(rng, A, allow_linop=True):
    import quimb as qu
    r = gen.choice(rng, ["dense", "dense", "csr", "csc", "coo", "bsr", "linop", "lazy", "qarray"])
    if r == "linop" and not allow_linop:
        r = "csr"
    if r == "dense":
        return A, r
    if r == "qarray":
        return qu.qarray(A), r
    if r in ("csr", "csc", "coo", "bsr"):
        return sp.coo_matrix(A).asformat(r), r
    if r == "linop":
        return spla.aslinearoperator(A), r
    return qu.Lazy(lambda: A.copy(), shape=A.shape), r


def wl_eigh(rng, rec, tier):
    import quimb as qu
    d = int(gen.choice(rng, [2, 3, 5, 8, 13, 30, 44, 46, 60, 90]))
    kind = gen.choice(rng, ["random", "degenerate", "blocks", "psd"])
    dtype = gen.choice(rng, ["float64", "complex128"])
    A = rand_herm(rng, d, kind, dtype)
    mode = gen.choice(rng, ["full", "partial", "partial", "partial", "sigma", "general"])
    desc = {"d": d, "kind": kind, "dtype": dtype, "mode": mode}
    if mode == "full":
        Ar, r = represent(rng, A, allow_linop=False)
        if r in ("csr", "csc", "coo", "bsr", "lazy"):
            Ar, r = A, "dense"
        fn = gen.choice(rng, [qu.eigh, qu.eigvalsh, qu.eigvecsh])
        kw = {}
        if rng.random() < 0.3:
            kw["sort"] = bool(rng.random() < 0.5)
        if rng.random() < 0.3:
            kw["autoblock"] = True
        gen.attempt(fn, Ar, **kw)
        desc.update(rep=r, kw=kw)
        return desc
    Ar, r = represent(rng, A)
    backend = gen.choice(rng, [None, "numpy", "scipy", "AUTO", "lobpcg"])
    k = int(rng.integers(1, max(2, min(d - 1, 6))))
    kw = {"k": k}
    if backend:
        kw["backend"] = backend
    if mode == "partial":
        which = gen.choice(rng, ["SA", "LA", "SM", "LM", None])
        if backend == "lobpcg":
            which = gen.choice(rng, ["SA", "LA"])
            if dtype != "float64" or r in ("lazy",):
                kw["backend"] = "scipy"
        if which:
            kw["which"] = which
        if which == "SM" and backend not in ("numpy",) and d > 40:
            kw["which"] = "SA"  # ARPACK SM without shift-invert rarely converges
    elif mode == "sigma":
        ev = np.linalg.eigvalsh(A)
        kw["sigma"] = float(rng.uniform(ev[0], ev[-1])) + 1e-3
        if backend == "lobpcg":
            kw["backend"] = "scipy"
        if r == "linop":
            Ar, r = A, "dense"   # shift-invert needs an explicit matrix
        if rng.random() < 0.3:
            kw["which"] = "TR"
    else:
        b = rand_herm(rng, d, "psd", dtype) + np.eye(d) * 0.5
        kw["B"] = b if rng.random() < 0.5 else sp.csr_matrix(b)
        kw["which"] = gen.choice(rng, ["SA", "LA"])
        if backend == "lobpcg" and dtype != "float64":
            kw["backend"] = "scipy"
        if r in ("linop", "lazy"):
            Ar, r = A, "dense"
    if rng.random() < 0.25:
        kw["fallback_to_scipy"] = True
    if kw.get("backend") == "lobpcg":
        kw["maxiter"] = 2000
        kw["tol"] = 1e-10
    fn = gen.choice(rng, [qu.eigh, qu.eigh, qu.eigvalsh, qu.eigvecsh])
    if rng.random() < 0.15 and mode == "partial" and "which" not in kw:
        fn = gen.choice(rng, [qu.groundstate, qu.groundenergy])
        kw.pop("k")
    gen.attempt(fn, Ar, **kw)
    desc.update(rep=r, kw={a: (b if not hasattr(b, "shape") else "matrix")
                           for a, b in kw.items()})
    return desc


def wl_eig_general(rng, rec, tier):
    import quimb as qu
    d = int(gen.choice(rng, [2, 3, 5, 8, 13, 30, 50]))
    dtype = gen.choice(rng, ["float64", "complex128"])
    A = gen.rand_array(rng, (d, d), dtype)
    if rng.random() < 0.3:
        # normal matrix with well separated complex spectrum
        q, _ = np.linalg.qr(gen.rand_array(rng, (d, d), "complex128"))
        A = (q * gen.rand_array(rng, (d,), "complex128")) @ q.conj().T
    mode = gen.choice(rng, ["full", "partial"])
    if mode == "full":
        fn = gen.choice(rng, [qu.eig, qu.eigvals, qu.eigvecs])
        gen.attempt(fn, A)
    else:
        Ar, r = represent(rng, A)
        k = int(rng.integers(1, max(2, min(d - 2, 5))))
        which = gen.choice(rng, ["LM", "LR", "SR", "LI", "SI", "SM"])
        backend = gen.choice(rng, ["numpy", "scipy", None])
        if backend != "numpy" and which == "SM":
            which = "LM"
        if d - 2 <= k and backend != "numpy":
            backend = "numpy"
        kw = {"k": k, "which": which}
        if backend:
            kw["backend"] = backend
        if rng.random() < 0.3:
            # generalized non-Hermitian problem A v = l B v (dense path)
            b = rand_herm(rng, d, "psd", dtype) + np.eye(d) * 0.5
            kw["B"] = b
            kw["backend"] = "numpy"
            if r in ("linop", "lazy"):
                Ar, r = A, "dense"
        gen.attempt(gen.choice(rng, [qu.eig, qu.eigvals]), Ar, **kw)
    return {"d": d, "dtype": dtype, "mode": mode}


def wl_window(rng, rec, tier):
    import quimb as qu
    d = int(gen.choice(rng, [6, 12, 30, 60]))
    A = rand_herm(rng, d, gen.choice(rng, ["random", "blocks"]),
                  gen.choice(rng, ["float64", "complex128"]))
    r = gen.choice(rng, ["dense", "csr"])
    Ar = A if r == "dense" else sp.csr_matrix(A)
    w0 = float(rng.uniform(0.05, 0.95))
    k = int(rng.integers(1, 6))
    wsz = gen.choice(rng, [None, 0.3, 0.1, 0.6])
    fn = gen.choice(rng, [qu.eigh_window, qu.eigvalsh_window, qu.eigvecsh_window])
    gen.attempt(fn, Ar, w0, k, w_sz=wsz)
    gen.attempt(qu.bound_spectrum, Ar)
    return {"d": d, "rep": r, "w_0": w0, "k": k, "w_sz": wsz}


def wl_svd(rng, rec, tier):
    import quimb as qu
    m = int(gen.choice(rng, [1, 2, 5, 9, 20, 60]))
    n = int(gen.choice(rng, [1, 2, 5, 9, 20, 60]))
    dtype = gen.choice(rng, ["float64", "complex128"])
    A = gen.rand_array(rng, (m, n), dtype)
    if rng.random() < 0.3 and min(m, n) > 2:
        r = int(rng.integers(1, min(m, n)))
        A = gen.rand_array(rng, (m, r), dtype) @ gen.rand_array(rng, (r, n), dtype)
    gen.attempt(qu.svd, A, return_vecs=bool(rng.random() < 0.7))
    if min(m, n) >= 3:
        k = int(rng.integers(1, min(m, n) - 1))
        rep = gen.choice(rng, ["dense", "csr", "linop"])
        Ar = A if rep == "dense" else (sp.csr_matrix(A) if rep == "csr"
                                       else spla.aslinearoperator(A))
        backend = gen.choice(rng, ["AUTO", "numpy", "scipy"])
        if rep == "linop" and backend == "numpy":
            backend = "scipy"
        gen.attempt(qu.svds, Ar, k, backend=backend,
                    return_vecs=bool(rng.random() < 0.7))
    for nt in ([2, "fro", "tr", "spectral", "nuc"] if min(m, n) >= 3 else ["fro", "tr"]):
        if rng.random() < 0.5:
            As = sp.csr_matrix(A) if (nt in (2, "fro", "spectral") and rng.random() < 0.4) else A
            gen.attempt(qu.norm, As, nt)
    return {"m": m, "n": n, "dtype": dtype}


def wl_matfn(rng, rec, tier):
    import quimb as qu
    d = int(gen.choice(rng, [1, 2, 4, 9, 20, 40]))
    dtype = gen.choice(rng, ["float64", "complex128"])
    H = rand_herm(rng, d, gen.choice(rng, ["random", "degenerate", "psd"]), dtype)
    t = float(rng.uniform(0.1, 2.0))
    kind = gen.choice(rng, ["herm", "antiherm", "general", "sparse"])
    if kind == "herm":
        gen.attempt(qu.expm, H * t, herm=True)
        gen.attempt(qu.expm, H * t, herm=False)
    elif kind == "antiherm":
        gen.attempt(qu.expm, -1j * t * H)
    elif kind == "general":
        gen.attempt(qu.expm, gen.rand_array(rng, (d, d), dtype) * 0.5)
    else:
        gen.attempt(qu.expm, sp.csr_matrix(-1j * t * H))
    v = gen.rand_array(rng, (d, 1) if rng.random() < 0.5 else (d, 3), "complex128")
    M = -1j * t * H
    gen.attempt(qu.expm_multiply, sp.csr_matrix(M) if rng.random() < 0.5 else M, v)
    P = rand_herm(rng, d, "psd", dtype)
    gen.attempt(qu.sqrtm, P)
    gen.attempt(qu.sqrtm, P + np.eye(d), herm=False)
    return {"d": d, "dtype": dtype, "kind": kind}


def wl_autoblock(rng, rec, tier):
    import quimb as qu
    from quimb.linalg.autoblock import eigensystem_autoblocked
    d = int(gen.choice(rng, [1, 2, 5, 12, 30]))
    dtype = gen.choice(rng, ["float64", "complex128"])
    A = rand_herm(rng, d, gen.choice(rng, ["blocks", "blocks", "random"]), dtype)
    gen.attempt(eigensystem_autoblocked, A, sort=bool(rng.random() < 0.7),
                return_vecs=bool(rng.random() < 0.7))
    gen.attempt(qu.eigh, A, autoblock=True)
    return {"d": d, "dtype": dtype}


def wl_rsvd(rng, rec, tier):
    """randomised SVD: exact for exactly low-rank input; rank estimate on a
    spectrum with a clear gap (fixed seeds, judged only at advertised accuracy)"""
    import quimb as qu
    m, n = int(rng.integers(8, 60)), int(rng.integers(8, 60))
    r = int(rng.integers(1, min(m, n) // 2 + 1))
    dtype = gen.choice(rng, ["float64", "complex128"])
    A = gen.rand_array(rng, (m, r), dtype) @ gen.rand_array(rng, (r, n), dtype)
    qu.seed_rand(int(rng.integers(1 << 30)))
    strue = np.linalg.svd(A, compute_uv=False)
    res = gen.attempt(qu.rsvd, A, r + 2)
    if res is not None:
        U, s, V = res
        recon = np.asarray(U) @ np.diag(s) @ np.asarray(V)
        ok, err, _ = close(recon, A, float(strue[0]), 2.3e-16, 1e7)
        rec.check("rsvd", "low_rank_exact", ok, mech="rsvd:low_rank_exact",
                  detail={"m": m, "n": n, "r": r, "err": err}, sig=(m, n, r, dtype, "k"))
    res = gen.attempt(qu.rsvd, A, 1e-8)
    if res is not None:
        U, s, V = res
        recon = np.asarray(U) @ np.diag(s) @ np.asarray(V)
        ok, err, _ = close(recon, A, float(strue[0]), 2.3e-16, 1e10)
        rec.check("rsvd", "eps_mode", ok, mech="rsvd:eps_mode",
                  detail={"m": m, "n": n, "r": r, "err": err}, sig=(m, n, r, dtype, "eps"))
    # documented options of the adaptive (eps) mode: any starting block size, pure
    # 'adapt' mode below the concatenation threshold, values only
    kw = {"mode": gen.choice(rng, ["adapt", "adapt+block"]), "k_start": int(gen.choice(rng, [1, 2, 3, 7]))}
    if r + kw["k_start"] + 8 < 20:      # stays on the QB path of 'adapt' (the concatenating path is a documented rough pass)
        res = gen.attempt(qu.rsvd, A, 1e-8, **kw)
        if res is not None:
            try:
                U, s, V = res
                recon = np.asarray(U) @ np.diag(s) @ np.asarray(V)
                ok, err, _ = close(recon, A, float(strue[0]), 2.3e-16, 1e10)
            except Exception:
                ok, err = False, float("inf")
            rec.check("rsvd", "eps_mode", ok, mech=f"rsvd:eps_mode:{kw['mode']}:k_start={'1' if kw['k_start'] == 1 else 'n'}",
                      detail={"m": m, "n": n, "r": r, "err": err, "kw": kw}, sig=(m, n, r, dtype, "epskw", kw["mode"], kw["k_start"]))
        res = gen.attempt(qu.rsvd, A, 1e-8, compute_uv=False, **kw)
        if res is not None:
            sv = np.asarray(res) if not isinstance(res, tuple) else None
            ok = sv is not None and sv.ndim == 1 and len(sv) >= r and \
                float(np.abs(np.sort(sv)[::-1][:r] - strue[:r]).max()) <= 1e-6 * float(strue[0])
            rec.check("rsvd", "values_only", bool(ok), mech="rsvd:values_only:not_the_singular_values",
                      detail={"m": m, "n": n, "r": r, "type": type(res).__name__, "kw": kw}, sig=(m > n, dtype, "vals", kw["mode"]))
    return {"m": m, "n": n, "r": r, "dtype": dtype}


def wl_misc(rng, rec, tier):
    """norms of sparse matrices in every storage state scipy allows (duplicate
    COO entries, DIA padding), adjoint action of the scaled identity operator"""
    import quimb as qu
    from quimb.linalg.base_linalg import IdentityLinearOperator
    m, n = int(rng.integers(2, 9)), int(rng.integers(2, 9))
    which = gen.choice(rng, ["coo_dup", "dia", "ident", "lazy"])
    if which == "lazy":
        # a lazily built operator scaled in place denotes the scaled operator
        d_ = int(rng.integers(2, 6))
        M = gen.rand_array(rng, (d_, d_), "complex128")
        c = complex(np.round(rng.normal(), 3), np.round(rng.normal(), 3)) or 2.0
        H = qu.Lazy(lambda: M.copy(), shape=(d_, d_))
        try:
            H *= c
            got = None if H is None else np.asarray(H())
        except Exception:
            rec.count("lazy", "imul", "rejected")
            return {"which": which}
        ok = got is not None and float(np.abs(got - c * M).max()) <= 1e-12 * (abs(c) + 1)
        rec.check("lazy", "imul", bool(ok), mech="lazy:imul:operator_lost",
                  detail={"result_is_none": got is None}, sig=("lazy_imul",))
        return {"which": which}
    if which == "coo_dup":
        nnz = int(rng.integers(1, 3 * m))
        rows = rng.integers(0, m, size=nnz)
        cols = rng.integers(0, n, size=nnz)
        vals = gen.rand_array(rng, (nnz,), gen.choice(rng, ["float64", "complex128"]))
        A = sp.coo_matrix((vals, (rows, cols)), shape=(m, n))       # duplicates are summed by definition
        want = float(np.linalg.norm(A.toarray()))
        got = gen.attempt2(qu.norm, A, "fro")
    elif which == "dia":
        k = int(rng.integers(1, 4))
        offs = sorted(set(int(o) for o in rng.integers(-m + 1, n, size=k)))
        data = gen.rand_array(rng, (len(offs), n), "float64")         # entries outside the band are padding
        A = sp.dia_matrix((data, offs), shape=(m, n))
        want = float(np.linalg.norm(A.toarray()))
        got = gen.attempt2(qu.norm, A, "fro")
    else:
        c = complex(rng.normal(), rng.normal())
        I = IdentityLinearOperator(m, c)
        v = gen.rand_array(rng, (m,), "complex128")
        got = gen.attempt2(lambda: I.H @ v)
        if got is not gen.REJECTED:
            ok = float(np.abs(np.asarray(got).reshape(-1) - np.conj(c) * v).max()) <= 1e-12 * (abs(c) + 1)
            rec.check("linop", "adjoint", ok, mech="linop:IdentityLinearOperator:adjoint_not_conjugated",
                      detail={"c": repr(c)}, sig=("ident_adjoint",))
        return {"which": which}
    if got is not gen.REJECTED:
        try:
            ok = abs(float(got) - want) <= 1e-10 * max(want, 1e-300)
        except Exception:
            ok = False
        rec.check("norm", "value", ok, mech=f"norm:fro:sparse_{which}",
                  detail={"got": repr(got), "want": want, "shape": [m, n]}, sig=("normfro", which))
    return {"which": which}


WORKLOADS = [
    ("eigh", 8, wl_eigh),
    ("eig_general", 2, wl_eig_general),
    ("window", 2, wl_window),
    ("svd", 3, wl_svd),
    ("matfn", 2, wl_matfn),
    ("autoblock", 1, wl_autoblock),
    ("rsvd", 1, wl_rsvd),
    ("misc", 1, wl_misc),
]
