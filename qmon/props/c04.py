"""C04 - gauging, canonization and simplification preserve the denoted tensor.

Generic value-preservation monitor (dense value over the outer / requested
output labels at entry == at exit) on every representation-only operation,
plus the promised forms (isometry of flagged tensors, bond sizes, equal norms,
no multibonds, no hyper labels) and brute-force references for the structure
finders."""

import itertools

import numpy as np

from .. import attach, gen
from ..core import close, eps_of, exponent_of, ops_of, to_numpy
from ..ref import value as refv

PROP = "C04"
NCASES = {"quick": 8000, "thorough": 200000}
BUDGET = {"quick": 65, "thorough": 900}
RULE = ("trees and loopy graphs (ring, ladder, grid, random), planted structure "
        "(diagonal, anti-diagonal, single column, low rank, COPY tensors, scalars, "
        "size-1 dims), hyper labels, output label that is also a bond, stored "
        "exponent, 4 dtypes; single rewrites with random options and random "
        "compositions of 2-6 rewrites; non-trivial = >=2 tensors; distinct = "
        "(operation, options, shapes/dtypes) signatures")
ASSUMPTIONS = [
    "value compared over the once-only labels (or the explicit output_inds); "
    "size-1 outer labels dropped by squeeze are compared after indexing them at 0 "
    "(the pinned test suite requires squeeze to drop them)",
    "tolerance 1e4*eps*scale + 1e-8*scale (smudge 1e-12 / cutoff 1e-12 of the "
    "simple gauge and pair/loop simplifiers)",
    "left_inds of gate tensors / IsoTensor are grouping hints and not judged",
]
DECIDING = [("preserve", "value"), ("form", "isometric"), ("form", "equal_norms"),
            ("finders", "diag")]
SUITE = ["tests/test_tensor/test_tensor_core.py"]
MANIFEST = dict(
    technique="generic value-preservation runtime monitor (dense reference value at entry == at exit, exponent included) attached to every gauging / canonization / compression-without-truncation / simplification entry point and the tensor-level bond functions, plus form postconditions and brute-force structure-finder references",
    text="Every representation-only call made by the workloads (and nested ones: full_simplify -> rank_simplify_ ..., compress_all -> tensor_compress_bond ...) is checked to leave the dense value over the outer/requested labels unchanged, for single rewrites with random options and random compositions; promised forms are checked: tensors newly flagged left_inds are isometric, untruncated compression never grows a bond, equalize_norms equalises, fuse_multibonds leaves no multibond, hyperinds_resolve leaves no hyper label, simplifiers keep output_inds; find_diag_axes/find_antidiag_axes/find_columns agree with brute force scans (margin guarded at atol).",
    note="Networks limited to 2^20 reference elements. gauges kept outside the network (gauges=dict) are not judged except via the gauge_simple_temp round trip.",
    ref="3/C04")

MAX_REF = 1 << 20


class Snap:
    def __init__(self, obj, output=None, extra_exp=0.0):
        self.ops = [(np.array(a, copy=True), inds) for a, inds in ops_of(obj)]
        self.exp = exponent_of(obj) + extra_exp
        self.eps = eps_of(*[a.dtype for a, _ in self.ops])
        self.G = tuple(output) if output is not None else refv.default_output(self.ops)
        self.sizes = refv.label_sizes(self.ops)
        try:
            if len(self.ops) > 40:
                raise refv.TooBig("too many tensors")
            self.V, self.scale = refv.value_and_scale(self.ops, self.exp, self.G, MAX_REF)
        except (refv.TooBig, ValueError, MemoryError):
            self.V = None
        self.bonds = {ix: d for ix, d in self.sizes.items() if ix not in self.G}
        self.flagged = {id(t) for t in _tensors(obj) if getattr(t, "left_inds", None)}

    def sig(self):
        return tuple(sorted((a.shape, str(a.dtype)) for a, _ in self.ops)), self.exp != 0.0


def _tensors(obj):
    if hasattr(obj, "tensor_map"):
        return list(obj.tensor_map.values())
    if hasattr(obj, "inds"):
        return [obj]
    return list(obj)


def judge_value(rec, entry, snap, result, opts_sig, extra_tol=0.0):
    if snap.V is None:
        rec.count("preserve", "value", "unreferenced")
        return None
    pf = float(np.prod([np.linalg.norm(a) for a, _ in snap.ops])) * 10.0 ** snap.exp
    if np.abs(snap.V).max() <= max(1e-9, 1e3 * snap.eps) * pf:
        rec.count("preserve", "value", "out_of_domain")   # value is (numerically) zero by structure
        return None
    if snap.scale == 0.0 or not np.any(snap.V) or any(
            (not np.any(a)) or (not np.all(np.isfinite(a))) for a, _ in snap.ops):
        rec.count("preserve", "value", "out_of_domain")  # structurally zero network / tensor
        return None
    try:
        ops = ops_of(result)
        have = set(ix for _, inds in ops for ix in inds)
        G = snap.G
        dropped = [ix for ix in G if ix not in have]
        V = snap.V
        if dropped:
            if all(snap.sizes[ix] == 1 for ix in dropped):
                # singleton outer labels removed (squeeze): compare the rest
                keep = [i for i, ix in enumerate(G) if ix in have]
                V = V.reshape([V.shape[i] for i in keep])
                G = tuple(G[i] for i in keep)
            else:
                rec.check("preserve", "value", False, mech=f"preserve:{entry}:outer_label_lost",
                          detail={"lost": dropped, "opts": opts_sig})
                return False
        got = refv.value(ops, exponent_of(result), G, MAX_REF)
    except refv.TooBig:
        rec.count("preserve", "value", "unreferenced")
        return None
    except ValueError as e:
        if "exponent out of range" in str(e):
            rec.count("preserve", "value", "unreferenced")   # transient |exponent| > 300
            return None
        rec.check("preserve", "value", False, mech=f"preserve:{entry}:inconsistent_result",
                  detail={"error": str(e)[:200], "opts": opts_sig})
        return False
    ok, err, bound = close(got, V, snap.scale, snap.eps, 1e5, rel=1e-7 + extra_tol)
    rec.check("preserve", "value", ok, mech=f"preserve:{entry}:value",
              detail={"err": err, "bound": bound, "opts": opts_sig,
                      "ntensors": len(snap.ops), "exponent": snap.exp},
              sig=(entry, snap.sig(), opts_sig))
    return ok


def iso_defect(t, lix):
    a = to_numpy(t.data)
    lix = tuple(lix)
    perm = [t.inds.index(i) for i in lix] + [i for i, ix in enumerate(t.inds) if ix not in lix]
    dl = int(np.prod([a.shape[p] for p in perm[:len(lix)]], dtype=int))
    A = np.transpose(a, perm).reshape(dl, -1)
    if A.shape[0] < A.shape[1]:
        return None  # cannot be an isometry from right to left: flag is a hint
    return float(np.abs(A.conj().T @ A - np.eye(A.shape[1])).max())


FLAG_SETTERS = {"canonize_between", "canonize_around", "compress_between", "compress_all",
                "compress_all_1d", "compress_all_simple", "gauge_all_canonize", "gauge_local",
                "tensor_canonize_bond", "tensor_compress_bond"}


def judge_flags(rec, entry, snap, result):
    """tensors whose left_inds was set BY THIS operation are isometric (other
    operations only propagate flags set earlier, possibly by a Gram based
    method on a rank deficient tensor, which C05 exempts)"""
    if entry not in FLAG_SETTERS:
        return
    for t in _tensors(result):
        li = getattr(t, "left_inds", None)
        if not li or id(t) in snap.flagged or type(t).__name__ == "IsoTensor":
            continue
        if not isinstance(t.data, np.ndarray):
            continue
        dev = iso_defect(t, li)
        if dev is None:
            rec.count("form", "isometric", "ambiguous")
            continue
        eps = max(eps_of(t.data.dtype), snap.eps)   # mixed precision networks
        rec.check("form", "isometric", dev <= 1e4 * eps * max(t.data.shape or (1,)),
                  mech=f"form:isometric:{entry}", detail={"dev": dev, "inds": t.inds,
                                                          "left_inds": tuple(li)},
                  sig=(entry, t.data.shape))


def install(rec):
    import quimb.tensor as qtn
    from quimb.tensor import tensor_core as tc
    from quimb.tensor import array_ops
    TN = qtn.TensorNetwork

    def out_arg(a, k, name="output_inds"):
        return k.get(name)

    def osig(k):
        return tuple(sorted((kk, repr(v)[:40]) for kk, v in k.items()
                            if kk not in ("cache", "gauges", "info")))

    ATOL_OPS = {"diagonal_reduce": 1e-12, "antidiag_gauge": 1e-12, "column_reduce": 1e-12,
                "split_simplify": 1e-12, "full_simplify": 1e-12, "compress_simplify": 1e-6}

    def atol_ok(self, name, k):
        # `atol` is absolute: entries that are significant relative to their
        # tensor but below atol are (documented) treated as zero -> lossy request
        atol = k.get("atol", ATOL_OPS[name])
        # equalize_norms=True distributes the stored exponent into the tensors
        # between / after passes: entries are then judged at that scale
        eq = k.get("equalize_norms", name == "compress_simplify")
        fac = 1.0
        if eq is True and getattr(self, "num_tensors", 0):
            fac = 10.0 ** (min(exponent_of(self), 0.0) / self.num_tensors)
        for t in _tensors(self):
            x = np.abs(to_numpy(t.data)) * fac
            if not x.size:
                continue
            m = x.max()
            if np.any((x > 1e-9 * m) & (x <= 100 * atol)):
                return False
        return True

    def preserve(name, entry=None, post_form=None, output_kw="output_inds",
                 domain=None, extra_tol=0.0):
        entry = entry or name

        def pre(self, *a, **k):
            if domain is not None and not domain(self, *a, **k):
                rec.count("preserve", entry, "out_of_domain")
                return None
            if name in ATOL_OPS and not atol_ok(self, name, k):
                rec.count("preserve", entry, "out_of_domain")
                return None
            if k.get("gauges") is not None:
                return None
            return Snap(self, output=k.get(output_kw) if output_kw else None)

        def post(snap, result, self, *a, **k):
            res = result if hasattr(result, "tensor_map") else self
            xt = extra_tol
            if name in ATOL_OPS:
                xt += 30 * k.get("atol", ATOL_OPS[name])   # `atol` is also a truncation threshold
            if name in ("pair_simplify", "loop_simplify", "split_simplify"):
                # an explicit singular-value cutoff (compress_simplify passes its
                # atol as cutoff) is a truncation threshold as well
                try:
                    xt += 30 * max(float(k.get("cutoff") or 0.0), 0.0)
                except (TypeError, ValueError):
                    pass
            ok = judge_value(rec, entry, snap, res, osig(k), xt)
            if ":" not in str(k.get("method", "")):
                judge_flags(rec, entry, snap, res)
            if post_form is not None and ok is True:
                post_form(snap, res, self, *a, **k)

        attach.install(TN, name, attach.monitored(rec, "TN." + entry, pre, post,
                                                  fam="pres"))

    # ---- forms -------------------------------------------------------------
    def total_bond(ops, G):
        sizes = refv.label_sizes(ops)
        return float(np.prod([float(d) for ix, d in sizes.items() if ix not in G]))

    def no_growth(snap, res, self, *a, **k):
        # (multibonds may be fused into one larger label: judge the total)
        before = float(np.prod([float(d) for d in snap.bonds.values()]))
        after = total_bond(ops_of(res), snap.G)
        rec.check("form", "bond_not_larger", after <= before, mech="form:bond_not_larger",
                  detail={"before": before, "after": after}, sig=("nogrow", snap.sig()))

    def untrunc(self, *a, **k):
        mb = k.get("max_bond")
        co = k.get("cutoff", None)
        return mb is None and co is not None and co <= 0.0

    def form_equalize(snap, res, self, value=None, *a, **k):
        value = k.get("value", value)
        norms = [float(np.linalg.norm(to_numpy(t.data))) for t in _tensors(res)]
        if not norms or any(n == 0 for n in norms):
            return
        if not np.all(np.isfinite(norms)) and snap.eps > 1e-10:
            rec.check("form", "equal_norms", None)   # single precision norm overflow
            return
        eps = snap.eps
        if value is None:
            ok = max(norms) - min(norms) <= 1e4 * eps * max(norms)
        else:
            v = 1.0 if value is True else float(value)
            ok = max(abs(n - v) for n in norms) <= 1e4 * eps * max(v, 1e-300)
        rec.check("form", "equal_norms", ok, mech="form:equal_norms",
                  detail={"value": value, "norms": norms[:6]}, sig=("eq", repr(value), len(norms)))

    def form_fuse(snap, res, self, *a, **k):
        if k.get("include") is not None or k.get("exclude") is not None:
            return
        ts = _tensors(res)
        bad = []
        for t1, t2 in itertools.combinations(ts, 2):
            shared = [ix for ix in dict.fromkeys(t1.inds) if ix in t2.inds and ix not in snap.G]
            # labels on 3+ tensors (hyper) are not fused
            shared = [ix for ix in shared if sum(ix in t.inds for t in ts) == 2]
            if len(shared) > 1:
                bad.append(shared)
        rec.check("form", "no_multibonds", not bad, mech="form:no_multibonds",
                  detail={"bad": bad[:3]}, sig=("fuse", snap.sig()))

    def form_hyper(snap, res, self, *a, **k):
        ts = _tensors(res)
        out = set(k.get("output_inds") or ())
        cnt = {}
        for t in ts:
            for ix in set(t.inds):
                cnt[ix] = cnt.get(ix, 0) + 1
        bad = [ix for ix, c in cnt.items() if c + (ix in out) > 2]
        rec.check("form", "no_hyperinds", not bad, mech="form:no_hyperinds",
                  detail={"bad": bad[:3], "mode": k.get("mode"),
                          "before": [inds for _, inds in snap.ops],
                          "after": [t.inds for t in ts]}, sig=("hyp", snap.sig()))

    def form_outputs_kept(snap, res, self, *a, **k):
        have = set(ix for t in _tensors(res) for ix in t.inds)
        lost = [ix for ix in snap.G if ix not in have and snap.sizes[ix] > 1]
        rec.check("form", "output_inds_kept", not lost, mech="form:output_inds_kept",
                  detail={"lost": lost}, sig=("outs", snap.sig()))

    # ---- attach ---------------------------------------------------------------
    preserve("canonize_between", output_kw=None)
    preserve("canonize_around", output_kw=None)
    preserve("gauge_all_canonize", output_kw=None)
    preserve("gauge_all_simple", output_kw=None, extra_tol=1e-7)
    preserve("gauge_all_random", output_kw=None)
    preserve("gauge_local", output_kw=None, extra_tol=1e-7)
    preserve("replace_with_svd", output_kw=None, extra_tol=1e-9,
             domain=lambda self, where, left_inds, eps, **k: eps == 0.0
             and k.get("method", "isvd") in ("svd", "isvd", "svds") and k.get("max_bond") is None)
    preserve("insert_gauge", output_kw=None, extra_tol=1e-7)
    preserve("compress_between", output_kw=None, post_form=no_growth, domain=untrunc)
    preserve("compress_all", output_kw=None, post_form=no_growth, domain=untrunc)
    preserve("compress_all_1d", output_kw=None, post_form=no_growth, domain=untrunc)
    preserve("compress_all_simple", output_kw=None, post_form=no_growth, domain=untrunc,
             extra_tol=1e-7)
    preserve("strip_exponent", output_kw=None)
    preserve("distribute_exponent", output_kw=None)
    preserve("equalize_norms", output_kw=None, post_form=form_equalize)
    preserve("balance_bonds", output_kw=None)
    preserve("fuse_multibonds", output_kw=None, post_form=form_fuse)
    preserve("squeeze", output_kw=None)
    preserve("rank_simplify", post_form=form_outputs_kept)
    preserve("diagonal_reduce", post_form=form_outputs_kept)
    preserve("antidiag_gauge", post_form=form_outputs_kept)
    preserve("column_reduce", post_form=form_outputs_kept)
    preserve("split_simplify", output_kw=None)
    preserve("pair_simplify", post_form=form_outputs_kept, extra_tol=1e-7)
    preserve("loop_simplify", post_form=form_outputs_kept, extra_tol=1e-7)
    preserve("full_simplify", post_form=form_outputs_kept, extra_tol=1e-7)
    preserve("compress_simplify", post_form=form_outputs_kept, extra_tol=1e-5)
    preserve("hyperinds_resolve", post_form=form_hyper)
    preserve("expand_bond_dimension", output_kw=None,
             domain=lambda self, *a, **k: not k.get("rand_strength"))
    preserve("gauge_all_belief_propagation", extra_tol=1e-6,
             domain=lambda self, *a, **k: k.get("max_iterations", 5) >= 30)

    # ---- tensor level bond functions -------------------------------------------
    def pair(name, untrunc_only=False, extra_tol=0.0, form=None):
        def pre(t1, t2, *a, **k):
            if k.get("gauges") is not None:
                return None
            if not hasattr(t1, "data") or not hasattr(t2, "data"):
                return None
            if "absorb" in k and k["absorb"] is None:
                return None   # singular values handed out separately (info / gauges)
            if untrunc_only:
                co = dict(k.get("compress_opts") or {}, **{kk: v for kk, v in k.items()
                                                           if kk in ("max_bond", "cutoff")})
                if co.get("max_bond") is not None or co.get("cutoff", 1e-10) > 0:
                    rec.count("preserve", name, "out_of_domain")
                    return None
            s = Snap([t1, t2])
            return s

        def post(snap, result, t1, t2, *a, **k):
            ok = judge_value(rec, name, snap, [t1, t2], osig(k), extra_tol)
            gram = ":" in str(k.get("method", ""))
            if not gram:
                judge_flags(rec, name, snap, [t1, t2])
            if form and ok is True and not gram:
                form(snap, t1, t2, *a, **k)

        attach.install(tc, name, attach.monitored(rec, name, pre, post, fam="pres"))

    def form_canon(snap, t1, t2, absorb="right", *a, **k):
        absorb = k.get("absorb", absorb)
        shared = [ix for ix in t1.inds if ix in t2.inds]
        if len(shared) != 1 or absorb not in ("right", "left"):
            return
        t = t1 if absorb == "right" else t2
        if id(t) in snap.flagged:
            return   # already flagged: quimb (by design) trusts the flag and returns early
        lix = [ix for ix in t.inds if ix not in shared]
        dev = iso_defect(t, lix)
        if dev is None:
            return
        eps = max(eps_of(t.data.dtype), snap.eps)
        meth = k.get("method", "qr")
        tol = 1e4 * eps if ":" not in str(meth) else 1e-4
        rec.check("form", "canonized_isometric", dev <= tol * max(t.data.shape or (1,)),
                  mech=f"form:canonized_isometric:{absorb}", detail={"dev": dev, "method": meth},
                  sig=("canon", absorb, t.data.shape))

    def form_single(snap, t1, t2, *a, **k):
        shared = [ix for ix in t1.inds if ix in t2.inds]
        rec.check("form", "single_bond", len(shared) <= 1, mech="form:single_bond",
                  detail={"shared": shared}, sig=("single", t1.data.shape))

    def form_nogrow_pair(snap, t1, t2, *a, **k):
        before = float(np.prod([float(d) for d in snap.bonds.values()]))
        after = total_bond(ops_of([t1, t2]), snap.G)
        rec.check("form", "bond_not_larger", after <= before, mech="form:bond_not_larger:pair",
                  detail={"before": before, "after": after})

    pair("tensor_canonize_bond", form=form_canon)
    pair("tensor_compress_bond", untrunc_only=True, form=form_nogrow_pair)
    pair("tensor_balance_bond")
    pair("tensor_make_single_bond", form=form_single)
    pair("tensor_fuse_squeeze")

    # ---- structure finders vs brute force ---------------------------------------
    def mk_finder(name, brute):
        def pre(x, atol=1e-12):
            x = np.asarray(x)
            if x.size > 4096 or x.ndim > 6 or not np.all(np.isfinite(x)):
                return None
            return {"x": np.array(x, copy=True)}

        def post(snap, result, x, atol=1e-12):
            valid, amb = brute(snap["x"], atol)
            if amb:
                rec.check("finders", name, None)
                return
            if result is None:
                ok = not valid
            else:
                ok = tuple(result) in valid
            rec.check("finders", name, ok, mech=f"finders:{name}",
                      detail={"got": result, "valid": sorted(valid)[:4],
                              "shape": snap["x"].shape},
                      sig=(name, snap["x"].shape, result is None))

        attach.install(array_ops, "find_" + ("diag_axes" if name == "diag" else
                                             "antidiag_axes" if name == "antidiag" else "columns"),
                       attach.monitored(rec, "find_" + name, pre, post, fam="find"))

    def near(v, atol):
        return bool(np.any((np.abs(np.abs(v) - atol) <= 0.5 * atol) & (np.abs(v) > 0)))

    def brute_diag(x, atol, anti=False):
        valid = set()
        amb = near(x, atol)
        for i, j in itertools.combinations(range(x.ndim), 2):
            if x.shape[i] != x.shape[j]:
                continue
            d = x.shape[i]
            idx = np.indices(x.shape)
            mask = (idx[i] + idx[j] != d - 1) if anti else (idx[i] != idx[j])
            if np.all(np.abs(x[mask]) <= atol):
                valid.add((i, j))
        return valid, amb

    def brute_cols(x, atol):
        valid = set()
        amb = near(x, atol)
        if x.ndim < 1:
            return valid, amb
        idx = np.indices(x.shape)
        for ax in range(x.ndim):
            for j in range(x.shape[ax]):
                if np.all(np.abs(x[idx[ax] != j]) <= atol):
                    valid.add((ax, j))
        return valid, amb

    mk_finder("diag", lambda x, atol: brute_diag(x, atol))
    mk_finder("antidiag", lambda x, atol: brute_diag(x, atol, anti=True))
    mk_finder("columns", brute_cols)


# ---------------------------------------------------------------------------
# workloads
# ---------------------------------------------------------------------------

def graph_edges(rng):
    kind = gen.choice(rng, ["tree", "ring", "ladder", "grid", "random", "chain", "pair"])
    if kind == "pair":
        n, edges = 2, [(0, 1)]
    elif kind == "chain":
        n = int(rng.integers(2, 6))
        edges = [(i, i + 1) for i in range(n - 1)]
    elif kind == "tree":
        n = int(rng.integers(2, 7))
        edges = [(int(rng.integers(0, i)), i) for i in range(1, n)]
    elif kind == "ring":
        n = int(rng.integers(3, 6))
        edges = [(i, (i + 1) % n) for i in range(n)]
    elif kind == "ladder":
        L = int(rng.integers(2, 4))
        n = 2 * L
        edges = [(i, i + 1) for i in range(L - 1)] + [(L + i, L + i + 1) for i in range(L - 1)]
        edges += [(i, L + i) for i in range(L)]
    elif kind == "grid":
        n = 6
        edges = [(0, 1), (1, 2), (3, 4), (4, 5), (0, 3), (1, 4), (2, 5)]
    else:
        n = int(rng.integers(3, 7))
        edges = gen.rand_simple_graph(rng, n, p_edge=0.8)
    return kind, n, [tuple(sorted(e)) for e in edges]


def planted(rng, shape, dtype, kind):
    x = gen.rand_array(rng, shape, dtype)
    nd = len(shape)
    if kind == "diag" and nd >= 2:
        pairs = [(i, j) for i in range(nd) for j in range(i + 1, nd) if shape[i] == shape[j]]
        if pairs:
            i, j = pairs[int(rng.integers(len(pairs)))]
            idx = np.indices(shape)
            x[idx[i] != idx[j]] = 0
    elif kind == "antidiag" and nd >= 2:
        pairs = [(i, j) for i in range(nd) for j in range(i + 1, nd) if shape[i] == shape[j]]
        if pairs:
            i, j = pairs[int(rng.integers(len(pairs)))]
            idx = np.indices(shape)
            x[idx[i] + idx[j] != shape[i] - 1] = 0
    elif kind == "column" and nd >= 1:
        ax = int(rng.integers(nd))
        j = int(rng.integers(shape[ax]))
        idx = np.indices(shape)
        x[idx[ax] != j] = 0
    elif kind == "lowrank" and nd >= 2:
        k = nd // 2
        a = gen.rand_array(rng, shape[:k] + (1,), dtype)
        b = gen.rand_array(rng, (1,) + shape[k:], dtype)
        x = np.tensordot(a, b, axes=(k, 0)).astype(dtype)
    elif kind == "copy":
        x = np.zeros(shape, dtype=dtype)
        for i in range(min(shape) if shape else 0):
            x[(i,) * nd] = 1
        if not shape:
            x = np.ones((), dtype=dtype)
    return x


def rand_network(rng, hyper=False, max_outer=2):
    import quimb.tensor as qtn
    kind, n, edges = graph_edges(rng)
    dtype = gen.choice(rng, gen.DTYPES, p=[0.45, 0.35, 0.1, 0.1])
    inds = [[] for _ in range(n)]
    sizes = {}
    k = 0
    for (i, j) in edges:
        nb = 2 if rng.random() < 0.12 else 1
        for _ in range(nb):
            ix = f"b{k}"
            k += 1
            sizes[ix] = int(gen.choice(rng, [1, 2, 2, 3]))
            inds[i].append(ix)
            inds[j].append(ix)
    for i in range(n):
        for _ in range(int(rng.integers(0, max_outer + 1))):
            if len(inds[i]) < 5:
                ix = f"o{k}"
                k += 1
                sizes[ix] = int(gen.choice(rng, [1, 2, 2, 3]))
                inds[i].append(ix)
    if hyper and n >= 3:
        ix = f"h{k}"
        sizes[ix] = 2
        who = rng.choice(n, size=3, replace=False)
        for i in who:
            inds[int(i)].append(ix)
    ts = []
    for i in range(n):
        rng.shuffle(inds[i])
        shape = tuple(sizes[ix] for ix in inds[i])
        pk = gen.choice(rng, ["dense", "dense", "diag", "antidiag", "column", "lowrank", "copy"])
        data = planted(rng, shape, dtype, pk)
        ts.append(qtn.Tensor(data, inds[i], tags=[f"T{i}"] + (["E"] if i % 2 == 0 else ["O"])))
    tn = qtn.TensorNetwork(ts)
    if rng.random() < 0.3:
        tn.exponent = float(gen.choice(rng, [0.5, -0.5, 3.0, -3.0, 1.25] + (
            [20.0, -20.0] if dtype in ("float64", "complex128") else [])))
    return tn, {"graph": kind, "n": n, "dtype": dtype, "hyper": hyper,
                "shapes": [t.shape for t in ts]}


def one_rewrite(rng, tn, hyper):
    """perform one random representation-only operation; returns (name, result_tn)"""
    n = tn.num_tensors
    tags = [f"T{i}" for i in range(50) if f"T{i}" in tn.tag_map]
    outer = list(tn.outer_inds())
    keep = None
    if outer and rng.random() < 0.3:
        keep = tuple(outer)
    ops = ["equalize_norms", "balance_bonds", "fuse_multibonds", "squeeze", "strip_exponent",
           "distribute_exponent", "gauge_all_random"]
    if not hyper:
        ops += ["canonize_between", "canonize_around", "gauge_all_canonize", "gauge_all_simple",
                "gauge_local", "insert_gauge", "compress_between", "compress_all",
                "compress_all_simple", "rank_simplify", "diagonal_reduce", "antidiag_gauge",
                "column_reduce", "split_simplify", "pair_simplify", "loop_simplify",
                "full_simplify", "compress_simplify", "expand_bond_dimension",
                "tensor_pair", "gauge_simple_temp", "replace_with_svd"]
    else:
        ops += ["hyperinds_resolve", "rank_simplify", "diagonal_reduce", "column_reduce",
                "full_simplify", "hyperinds_resolve"]
    name = gen.choice(rng, ops)
    inplace = bool(rng.random() < 0.4)
    kw = {}

    def two_connected():
        for ix in tn.inner_inds():
            tids = list(tn.ind_map[ix])
            if len(tids) == 2:
                ta = [t for t in tn.tensor_map[tids[0]].tags if t.startswith("T")]
                tb = [t for t in tn.tensor_map[tids[1]].tags if t.startswith("T")]
                if not ta or not tb:
                    continue
                return ta[0], tb[0], ix
        return None

    if name == "replace_with_svd":
        # a tagged section replaced by its (untruncated) two-factor decomposition
        ttags = [t for t in tn.tag_map if t.startswith("T")]
        if len(ttags) < 2:
            return None
        where = [str(t) for t in rng.choice(ttags, size=int(rng.integers(1, len(ttags))), replace=False)]
        sec = tn.select_any(where)
        sec_outer = list(sec.outer_inds())
        if len(sec_outer) < 2:
            return None
        left = [ix for ix in sec_outer if rng.random() < 0.5] or sec_outer[:1]
        if len(left) == len(sec_outer):
            left = left[:-1]
        # (the default method is the iterative 'isvd': with eps = 0 nothing may be lost either)
        mkw = {"method": "svd"} if rng.random() < 0.6 else ({} if rng.random() < 0.7 else {"method": "svds"})
        r = tn.replace_with_svd(where, left, 0.0, inplace=inplace, **mkw)
        return name, (r if r is not None else tn)
    if name in ("canonize_between", "compress_between", "insert_gauge", "tensor_pair"):
        tc_ = two_connected()
        if tc_ is None:
            return None
        a, b, ix = tc_
        if rng.random() < 0.5:
            a, b = b, a
        if name == "canonize_between":
            tn.canonize_between(a, b, absorb=gen.choice(rng, ["right", "left", "both"]),
                                **({"method": gen.choice(rng, ["qr", "svd", "qr:cholesky"])}
                                   if rng.random() < 0.4 else {}))
            return name, tn
        if name == "compress_between":
            tn.compress_between(a, b, max_bond=None, cutoff=0.0,
                                absorb=gen.choice(rng, ["both", "left", "right"]),
                                canonize_distance=int(gen.choice(rng, [0, 0, 1, 2])),
                                **({"mode": gen.choice(rng, ["basic", "virtual-tree"])}
                                   if rng.random() < 0.3 else
                                   {"mode": "basic", "reduced": gen.choice(rng, [False, "lazy", "left", "right"])}
                                   if rng.random() < 0.5 else {}))
            return name, tn
        if name == "insert_gauge":
            d = tn.ind_size(ix)
            if not hasattr(tn[a], "bonds") or not hasattr(tn[b], "bonds") or \
                    len(tn[a].bonds(tn[b])) != 1:
                return None
            U = gen.rand_array(rng, (d, d), "complex128" if "complex" in str(tn.dtype) else "float64")
            U = U + 2 * np.eye(d)
            tn.insert_gauge(U, a, b)
            return name, tn
        import quimb.tensor as qtn
        from quimb.tensor import tensor_core as tcm
        t1, t2 = tn[a], tn[b]
        if not hasattr(t1, "bonds") or not hasattr(t2, "bonds") or t1 is t2:
            return None
        f = gen.choice(rng, ["canonize", "compress", "balance", "single", "fuse_squeeze"])
        if f == "canonize":
            if len(t1.bonds(t2)) != 1 and rng.random() < 0.5:
                tcm.tensor_make_single_bond(t1, t2)
            tcm.tensor_canonize_bond(t1, t2, absorb=gen.choice(rng, ["right", "left", "both"]))
        elif f == "compress":
            tcm.tensor_compress_bond(t1, t2, max_bond=gen.choice(rng, [None, None, 64]), cutoff=0.0,
                                     reduced=gen.choice(rng, [True, False, False, "lazy", "left", "right"]),
                                     absorb=gen.choice(rng, ["both", "left", "right"]))
        elif f == "balance":
            if len(t1.bonds(t2)) != 1:
                return None
            tcm.tensor_balance_bond(t1, t2)
        elif f == "single":
            tcm.tensor_make_single_bond(t1, t2)
        else:
            tcm.tensor_fuse_squeeze(t1, t2)
        return name + ":" + f, tn
    if name == "canonize_around":
        if not tags:
            return None
        kw = {"max_distance": gen.choice(rng, [None, 1, 2]),
              "absorb": gen.choice(rng, ["right", "left", "both"]),
              "gauge_links": bool(rng.random() < 0.3),
              "equalize_norms": gen.choice(rng, [False, True, 1.0])}
        r = tn.canonize_around(gen.choice(rng, tags), inplace=inplace, **kw)
    elif name == "gauge_all_canonize":
        r = tn.gauge_all_canonize(max_iterations=int(rng.integers(1, 4)),
                                  absorb=gen.choice(rng, ["both", "right"]),
                                  equalize_norms=gen.choice(rng, [False, True]), inplace=inplace)
    elif name == "gauge_all_simple":
        r = tn.gauge_all_simple(max_iterations=int(rng.integers(1, 6)),
                                **({"damping": float(gen.choice(rng, [0.2, 0.5]))} if rng.random() < 0.35 else {}),
                                power=float(gen.choice(rng, [1.0, 0.5])),
                                fuse_multibonds=bool(rng.random() < 0.7),
                                equalize_norms=gen.choice(rng, [False, True]), inplace=inplace)
    elif name == "gauge_all_random":
        r = tn.gauge_all_random(max_iterations=1, unitary=bool(rng.random() < 0.7),
                                seed=int(rng.integers(1 << 30)), inplace=inplace)
    elif name == "gauge_local":
        if not tags:
            return None
        r = tn.gauge_local(gen.choice(rng, tags), max_distance=int(rng.integers(1, 3)),
                           method=gen.choice(rng, ["canonize", "simple"]), inplace=inplace,
                           **({"equalize_norms": gen.choice(rng, [True, 1.0])} if rng.random() < 0.35 else {}))
    elif name == "compress_all":
        kw = {"canonize": bool(rng.random() < 0.5),
              "mode": gen.choice(rng, ["auto", "basic", "virtual-tree"])}
        if rng.random() < 0.3:
            kw["tree_gauge_distance"] = int(rng.integers(0, 3))
        elif rng.random() < 0.4:
            kw = {"canonize": False, "mode": "basic", "reduced": gen.choice(rng, [False, "lazy"])}
        r = tn.compress_all(max_bond=None, cutoff=0.0, inplace=inplace, **kw)
    elif name == "compress_all_simple":
        r = tn.compress_all_simple(max_bond=None, cutoff=0.0, max_iterations=3, inplace=inplace)
    elif name == "equalize_norms":
        r = tn.equalize_norms(value=gen.choice(rng, [None, 1.0, 2.5, True]), inplace=inplace)
    elif name == "balance_bonds":
        r = tn.balance_bonds(inplace=inplace)
    elif name == "fuse_multibonds":
        r = tn.fuse_multibonds(inplace=inplace)
    elif name == "squeeze":
        r = tn.squeeze(fuse=bool(rng.random() < 0.5),
                       exclude=(tuple(outer) if rng.random() < 0.5 else None), inplace=inplace)
    elif name == "strip_exponent":
        tid = gen.choice(rng, list(tn.tensor_map))
        tn.strip_exponent(tid, value=gen.choice(rng, [None, 1.0, 3.0]))
        r = tn
    elif name == "distribute_exponent":
        tn.distribute_exponent(float(gen.choice(rng, [0.0, 1.5])))
        r = tn
    elif name in ("rank_simplify", "diagonal_reduce", "antidiag_gauge", "column_reduce"):
        kw = {"output_inds": keep}
        if name == "rank_simplify":
            kw["equalize_norms"] = gen.choice(rng, [False, True, 1.0])
        if hyper:
            kw["output_inds"] = tuple(outer)
        r = getattr(tn, name)(inplace=inplace, **kw)
    elif name == "split_simplify":
        r = tn.split_simplify(inplace=inplace)
    elif name in ("pair_simplify", "loop_simplify"):
        r = getattr(tn, name)(output_inds=keep, inplace=inplace)
    elif name == "full_simplify":
        letters = "ADCRSLP" if not hyper else "ADCR"
        seq = "".join(gen.choice(rng, list(letters)) for _ in range(int(rng.integers(1, 6))))
        if "S" in seq:
            # split_simplify and pair/loop_simplify undo each other: full_simplify's
            # until-no-change loop never terminates on such sequences (liveness,
            # outside this property) - quimb itself never combines them
            seq = seq.replace("P", "").replace("L", "")
        kw = {"seq": seq, "output_inds": keep if not hyper else tuple(outer),
              "equalize_norms": gen.choice(rng, [False, True, 1.0])}
        r = tn.full_simplify(inplace=inplace, **kw)
    elif name == "compress_simplify":
        r = tn.compress_simplify(output_inds=keep, inplace=inplace,
                                 equalize_norms=gen.choice(rng, [True, False]))
    elif name == "hyperinds_resolve":
        r = tn.hyperinds_resolve(mode=gen.choice(rng, ["dense", "mps", "tree"]),
                                 output_inds=tuple(outer), inplace=inplace)
    elif name == "expand_bond_dimension":
        r = tn.expand_bond_dimension(int(rng.integers(2, 5)), rand_strength=0.0, inplace=inplace)
    elif name == "gauge_simple_temp":
        gauges = {}
        tn.gauge_all_simple_(max_iterations=3, gauges=gauges)
        # gauges live outside: round trip through the context manager must restore
        before = Snap(tn)
        with tn.gauge_simple_temp(gauges):
            pass
        return name, tn
    else:
        return None
    return name, (r if hasattr(r, "tensor_map") else tn)


def wl_single(rng, rec, tier):
    hyper = bool(rng.random() < 0.15)
    tn, desc = rand_network(rng, hyper)
    res = gen.attempt(one_rewrite, rng, tn, hyper)
    desc["op"] = res[0] if res else None
    return desc


def wl_compose(rng, rec, tier):
    hyper = bool(rng.random() < 0.1)
    tn, desc = rand_network(rng, hyper)
    names = []
    for _ in range(int(rng.integers(2, 7))):
        res = gen.attempt(one_rewrite, rng, tn, hyper)
        if res is None:
            continue
        names.append(res[0])
        tn = res[1]
        if tn.num_tensors == 0:
            break
        hyper = any(len(v) > 2 for v in tn.ind_map.values())
    desc["ops"] = names
    return desc


def wl_structured(rng, rec, tier):
    """MPS / PEPS / tree generators with their own gauging entry points"""
    import quimb.tensor as qtn
    kind = gen.choice(rng, ["mps", "peps", "tree", "mpo"])
    dtype = gen.choice(rng, ["float64", "complex128"])
    seed = int(rng.integers(1 << 30))
    if kind == "mps":
        tn = qtn.MPS_rand_state(int(rng.integers(2, 7)), int(rng.integers(1, 5)), dtype=dtype,
                                seed=seed, cyclic=bool(rng.random() < 0.2))
    elif kind == "mpo":
        tn = qtn.MPO_rand(int(rng.integers(2, 5)), int(rng.integers(1, 4)), dtype=dtype, seed=seed)
    elif kind == "peps":
        tn = qtn.PEPS.rand(2, int(rng.integers(2, 4)), 2, dtype=dtype, seed=seed)
    else:
        edges = qtn.edges_tree_rand(int(rng.integers(3, 8)), seed=seed)
        tn = qtn.TN_from_edges_rand(edges, D=2, phys_dim=2, dtype=dtype, seed=seed)
    calls = []
    for _ in range(int(rng.integers(1, 4))):
        op = gen.choice(rng, ["gauge_all_simple", "gauge_all_canonize", "compress_all",
                              "equalize_norms", "balance_bonds", "full_simplify",
                              "canonize_around", "compress_all_tree", "compress_all_1d"])
        calls.append(op)
        if op == "gauge_all_simple":
            gen.attempt(tn.gauge_all_simple_, max_iterations=int(rng.integers(1, 10)))
        elif op == "gauge_all_canonize":
            gen.attempt(tn.gauge_all_canonize_, max_iterations=2)
        elif op == "compress_all":
            gen.attempt(tn.compress_all_, max_bond=None, cutoff=0.0)
        elif op == "compress_all_tree":
            gen.attempt(tn.compress_all_tree_, max_bond=None, cutoff=0.0)
        elif op == "compress_all_1d":
            if kind in ("mps", "mpo"):
                gen.attempt(tn.compress_all_1d_, max_bond=None, cutoff=0.0)
        elif op == "equalize_norms":
            gen.attempt(tn.equalize_norms_, gen.choice(rng, [None, 1.0]))
        elif op == "balance_bonds":
            gen.attempt(tn.balance_bonds_)
        elif op == "full_simplify":
            gen.attempt(tn.full_simplify_, seq="ADCR", output_inds=tuple(tn.outer_inds()))
        else:
            tg = gen.choice(rng, list(tn.tags))
            gen.attempt(tn.canonize_around_, tg, max_distance=2)
    return {"kind": kind, "dtype": dtype, "calls": calls}


def wl_finders(rng, rec, tier):
    from quimb.tensor import array_ops
    nd = int(rng.integers(1, 5))
    shape = tuple(int(rng.integers(1, 4)) for _ in range(nd))
    kind = gen.choice(rng, ["dense", "diag", "antidiag", "column", "copy", "lowrank", "zero"])
    dtype = gen.choice(rng, ["float64", "complex128", "float32"])
    x = planted(rng, shape, dtype, kind) if kind != "zero" else np.zeros(shape, dtype)
    if rng.random() < 0.2:
        x = x + 1e-14 * gen.rand_array(rng, shape, dtype)  # below atol noise
    for f in (array_ops.find_diag_axes, array_ops.find_antidiag_axes, array_ops.find_columns):
        gen.attempt(f, x, atol=float(gen.choice(rng, [1e-12, 1e-12, 1e-6])))
    return {"shape": shape, "kind": kind, "dtype": dtype}


WORKLOADS = [
    ("single", 6, wl_single),
    ("compose", 5, wl_compose),
    ("structured", 2, wl_structured),
    ("finders", 2, wl_finders),
]
