"""C05 - tensor decomposition: exact when untruncated, optimal and honest when
truncated.  Postcondition monitors on array_split / tensor_split (hence
Tensor.split, TensorNetwork.split, TNLinearOperator.split and every internal
caller) against numpy.linalg.svd based rules."""

import numpy as np

from .. import attach, gen
from ..core import close, eps_of, ops_of, to_numpy
from ..ref import value as refv

PROP = "C05"
NCASES = {"quick": 30000, "thorough": 600000}
BUDGET = {"quick": 60, "thorough": 900}
RULE = ("method x absorb x cutoff_mode table (every combination attempted) x shapes "
        "(tall, wide, square, rank deficient, dim 1, 1x1) x 4 dtypes x spectra (flat, "
        "geometric, exact ties, zeros) x cutoffs x bond caps x renorm; random "
        "bipartitions of rank 2-5 tensors for tensor_split; non-trivial = min(m,n)>=2; "
        "distinct = (method, absorb, cutoff_mode, truncating?, shape class, dtype, "
        "renorm, cap) signatures")
ASSUMPTIONS = [
    "reference singular values from numpy.linalg.svd in double precision",
    "kept-rank decisions within a relative margin (1e-9 double / 1e-4 single; 1e-5 "
    "for Gram based methods) of a cutoff threshold are ambiguous, not judged",
    "Gram based methods (svd:eig, qr:cholesky, cholesky, eigh, eigsh) are judged at "
    "sqrt(eps) accuracy and their isometry only for well conditioned inputs",
]
DECIDING = [("array_split", "reconstruct"), ("array_split", "kept_rank"),
            ("array_split", "optimal"), ("array_split", "isometric"),
            ("tensor_split", "labels"), ("array_split", "info_error")]
EXTRA_MODES = [("nojit", {"NUMBA_DISABLE_JIT": "1"}),
               ("boundscheck", {"NUMBA_BOUNDSCHECK": "1"})]
EXTRA_MODE_SCALE = 0.25
SUITE = ["tests/test_tensor/test_decomp.py", "tests/test_tensor/test_tensor_core.py"]
MANIFEST = dict(
    technique="runtime postcondition monitors on array_split and tensor_split (reached by Tensor.split, TensorNetwork.split, TNLinearOperator.split and all internal callers) vs numpy.linalg.svd based reconstruction / isometry / kept-rank / Eckart-Young / reported-error oracles; exhaustive method x form x cutoff-mode table; generic-vs-accelerated differential; NUMBA_DISABLE_JIT and NUMBA_BOUNDSCHECK passes in thorough",
    text="Every decomposition call made by the workloads (and by quimb internally while they run) is checked at exit: untruncated products reproduce the input for every method x form (single-factor forms via projector / Gram identities), tensors flagged left_inds are isometric, truncated SVD-type results keep exactly the smallest rank allowed by the documented rule evaluated independently (never 0, never above the cap), attain the Eckart-Young error, report info['error'] equal to the actual Frobenius distance, conserve the stated norm under renorm, and the generic and numba implementations agree; tensor_split's labels, bond, tags are checked.",
    note="Randomised/iterative methods (svd:rand, rsvd, svds, isvd, eigsh) are judged only on inputs whose rank fits the request. Decisions inside the margin band are logged ambiguous.",
    ref="3/C05")

SVD_LIKE = {"svd", "svd:eig"}
GRAM = {"svd:eig", "qr:cholesky", "cholesky", "eigh", "eigsh"}
ITER = {"svds", "isvd", "rsvd", "svd:rand", "eigsh"}

ABS = {  # alias -> canonical form name
    None: "full", "U,s,VH": "full", "s": "s", "lsqrt": "lsqrt", "VH": "rorthog",
    "rorthog": "rorthog", "Us": "lfactor", "lfactor": "lfactor", "Us,VH": "left",
    "left": "left", "Usq,sqVH": "both", "both": "both", "U,sVH": "right",
    "right": "right", "U": "lorthog", "lorthog": "lorthog", "sVH": "rfactor",
    "rfactor": "rfactor", "sqVH": "rsqrt", "rsqrt": "rsqrt",
}
CODE2FORM = {2: "s", -12: "lsqrt", -11: "rorthog", -10: "lfactor", -1: "left", 0: "both",
             1: "right", 10: "lorthog", 11: "rfactor", 12: "rsqrt"}


def kept_rank(s, cutoff, mode, max_bond, margin):
    """independent evaluation of the documented rule on singular values s
    (descending). returns (k, ambiguous)"""
    d = len(s)
    amb = False
    if isinstance(mode, (int, np.integer)):
        # the numeric codes the low-level drivers take
        mode = {1: "abs", 2: "rel", 3: "sum2", 4: "rsum2", 5: "sum1", 6: "rsum1"}.get(int(mode), "rsum2")
    if cutoff is None or cutoff <= 0:
        k = d
    else:
        if mode == "abs":
            thr = cutoff
            k = int(np.sum(s > thr))
            amb = bool(np.any(np.abs(s - thr) <= margin * max(thr, s[0] if d else 0, 1e-300)))
        elif mode == "rel":
            thr = cutoff * (s[0] if d else 0.0)
            k = int(np.sum(s > thr))
            amb = bool(np.any(np.abs(s - thr) <= margin * max(s[0] if d else 0, 1e-300)))
        else:
            p = 2 if mode in ("sum2", "rsum2") else 1
            sp = s ** p
            tot = float(np.sum(sp))
            target = cutoff * tot if mode.startswith("r") else cutoff
            # discarded(k) = sum_{i>=k} sp ; smallest k with discarded(k) <= target
            tail = np.concatenate([np.cumsum(sp[::-1])[::-1], [0.0]])
            k = d
            for kk in range(d + 1):
                if tail[kk] <= target:
                    k = kk
                    break
            amb = bool(np.any(np.abs(tail - target) <= margin * max(tot, target, 1e-300)))
        k = max(k, 1)
    if max_bond is not None and max_bond > 0:
        k = min(k, max_bond)
    return min(k, d) if d else 0, amb


def install(rec):
    import os
    from quimb.tensor import decomp, tensor_core as tc
    if os.environ.get("NUMBA_DISABLE_JIT") == "1":
        # interpreted kernels: numpy's 0/0 -> NaN where the compiled kernel raises
        # ZeroDivisionError (svd:eig of an exactly zero matrix); keep the pass as
        # loud as the compiled code
        attach.CALL_ERRSTATE = {"divide": "raise", "invalid": "raise"}

    def resolve(method, absorb, max_bond, cutoff):
        mb = -1 if max_bond is None else max_bond
        co = -1.0 if cutoff is None else cutoff
        trunc = (mb > 0) or (co > 0.0)
        m, a = decomp.parse_method_absorb(method, absorb, truncation=trunc)
        import inspect
        if "absorb" not in inspect.signature(decomp._SPLIT_FNS[m]).parameters:
            a = decomp._DEFAULT_ABSORB[m]   # polar_*: absorb is ignored
        return m, ("full" if a is None else CODE2FORM[a])

    def fro(a):
        return float(np.sqrt(np.sum(np.abs(a) ** 2)))

    def judge(entry, x, L, s, R, method, form, max_bond, cutoff, mode, renorm, info,
              kwargs):
        x = np.asarray(x)
        if x.ndim != 2:
            rec.count(entry, "reconstruct", "batch_not_judged")
            return None
        if isinstance(mode, (int, np.integer)):
            mode = {1: "abs", 2: "rel", 3: "sum2", 4: "rsum2", 5: "sum1", 6: "rsum1"}.get(int(mode), "rsum2")
        m, n = x.shape
        dt = x.dtype
        xd = x.astype(np.complex128 if np.iscomplexobj(x) else np.float64)
        eps = eps_of(dt)
        gram = method in GRAM
        tol = (1e3 * eps) if not gram else 30 * np.sqrt(eps)
        margin = 1e-9 if eps < 1e-10 else 1e-4
        if gram:
            margin = max(margin, 1e-5)
        try:
            U0, s0, V0 = np.linalg.svd(xd, full_matrices=False)
        except np.linalg.LinAlgError:
            return None
        xn = fro(xd)
        d = len(s0)
        has_trunc = method in ("svd", "svd:eig", "svds", "isvd", "rsvd", "lu", "eigh", "eigsh")
        co = cutoff if (has_trunc and cutoff is not None) else None
        mb = max_bond if (has_trunc or method == "svd:rand") else None
        # the rule in the spectrum that the method actually truncates on
        if method in ("eigh", "eigsh"):
            sdec = np.sort(np.abs(np.linalg.eigvalsh((xd + xd.conj().T) / 2)))[::-1]
        else:
            sdec = s0
        k, amb = kept_rank(sdec, co, mode, mb, margin)
        truncating = k < d
        sig = (method, form, mode if co and co > 0 else None, truncating,
               ("tall" if m > n else "wide" if m < n else "square"),
               min(m, n) == 1, str(dt), renorm, mb is not None)
        detail = {"method": method, "form": form, "shape": (m, n), "dtype": str(dt),
                  "cutoff": co, "cutoff_mode": mode, "max_bond": mb, "renorm": renorm,
                  "k_expected": k}
        L = None if L is None else to_numpy(L).astype(xd.dtype)
        R = None if R is None else to_numpy(R).astype(xd.dtype)
        sv = None if s is None else np.asarray(to_numpy(s), dtype=float)

        # ---- which factors are present for this form
        present = {"full": (1, 1, 1), "both": (1, 0, 1), "left": (1, 0, 1),
                   "right": (1, 0, 1), "lorthog": (1, 0, 0), "rorthog": (0, 0, 1),
                   "lfactor": (1, 0, 0), "rfactor": (0, 0, 1), "lsqrt": (1, 0, 0),
                   "rsqrt": (0, 0, 1), "s": (0, 1, 0)}[form]
        got = (L is not None, sv is not None, R is not None)
        if tuple(bool(p) for p in present) != got:
            rec.check(entry, "form", False, mech=f"{entry}:form:wrong_factors_returned",
                      detail=dict(detail, got=got))
            return None
        rec.check(entry, "form", True, sig=sig)

        # ---- kept rank
        kk = (L.shape[1] if L is not None else R.shape[0] if R is not None else len(sv))
        if sv is not None and sv.ndim == 2:
            sv = np.diag(sv)
        if method in ("svd", "svd:eig") or (method in ("eigh",) and not amb):
            lo_, hi_ = min(kk, k), max(kk, k)
            zero_band = kk != k and kk >= 1 and (not mb or kk <= mb) and bool(
                np.all(sdec[lo_:hi_] <= max(margin, 1e3 * eps, 3 * np.sqrt(eps)) * max(sdec[0], 1e-300)))
            if amb or zero_band:
                amb = True
                rec.check(entry, "kept_rank", None, sig=sig)
            else:
                why = ("zero" if kk == 0 else "above_cap" if (mb and kk > mb)
                       else "too_many" if kk > k else "too_few")
                rec.check(entry, "kept_rank", kk == k,
                          mech=f"{entry}:kept_rank:{why}:{method}",
                          detail=dict(detail, k_got=kk, s=sdec[:8]), sig=sig)
                if kk != k:
                    return None
        else:
            capped = (mb is None or mb <= 0 or kk <= mb) and kk >= 1
            rec.check(entry, "bond_cap", bool(capped) or d == 0,
                      mech=f"{entry}:bond_cap:{method}", detail=dict(detail, k_got=kk),
                      sig=sig)
        k_eff = kk
        truncating = k_eff < d
        if method in ("svd:rand", "rsvd", "svds", "isvd", "eigsh"):
            tol = max(tol, 1e-8)
        if method in ("svd:rand", "rsvd") and k_eff >= 1 and s0[min(k_eff, len(s0)) - 1] > 0:
            # the sketch is sharpened by q power iterations without
            # re-orthogonalisation: directions with small singular values are
            # resolved to about eps * (s_1 / s_k) ** (2 q + 1) only
            q = 2
            tol = max(tol, 50 * eps * float(s0[0] / s0[min(k_eff, len(s0)) - 1]) ** (2 * q + 1))

        # ---- reconstruction / optimality
        xk_err = float(np.sqrt(np.sum(s0[k_eff:] ** 2)))  # Eckart-Young bound at rank k_eff
        svdtype = method in ("svd", "svd:eig", "svds", "isvd", "rsvd", "svd:rand")
        rscale = 1.0
        if renorm and truncating and method in ("svd", "svd:eig"):
            p = 2 if renorm is True and mode in ("sum2", "rsum2") else (
                1 if renorm is True else int(renorm))
            if renorm is True and mode in ("abs", "rel"):
                p = 0
            if p > 0:
                rscale = (np.sum(s0 ** p) / max(np.sum(s0[:k_eff] ** p), 1e-300)) ** (1 / p)
        prod = None
        if form == "full":
            prod = (L * sv[None, :]) @ R
        elif form in ("both", "left", "right"):
            prod = L @ R
        if prod is not None:
            err = fro(xd - prod)
            if not truncating and not (method in ITER and False):
                ok = err <= tol * max(xn, 1e-300) * max(m, n) ** 0.5 + 1e-300
                rec.check(entry, "reconstruct", bool(ok) or xn == 0,
                          mech=f"{entry}:reconstruct:{method}:{form}",
                          detail=dict(detail, err=err, xnorm=xn), sig=sig)
            elif svdtype and rscale == 1.0 and method not in ITER:
                # best rank-k approximation: error == sqrt(sum discarded^2)
                ok = abs(err - xk_err) <= 30 * tol * max(xn, 1e-300) + 1e-300
                rec.check(entry, "optimal", bool(ok),
                          mech=f"{entry}:optimal:{method}:{form}",
                          detail=dict(detail, err=err, best=xk_err), sig=sig)
                if info is not None and "error" in info and method in SVD_LIKE:
                    ie = float(np.real(to_numpy(info["error"])))
                    rec.check(entry, "info_error",
                              abs(ie - err) <= 30 * tol * max(xn, 1e-300) + 1e-300,
                              mech=f"{entry}:info_error:{method}",
                              detail=dict(detail, reported=ie, actual=err), sig=sig)
            elif svdtype and rscale != 1.0:
                # renormalised: the stated norm of the kept values is conserved
                sg = np.linalg.svd(prod, compute_uv=False)
                p = 2 if (renorm is True and mode in ("sum2", "rsum2")) else (
                    1 if renorm is True else int(renorm))
                lhs = float(np.sum(sg ** p)) ** (1 / p)
                rhs = float(np.sum(s0 ** p)) ** (1 / p)
                rec.check(entry, "renorm", abs(lhs - rhs) <= 1e3 * tol * max(rhs, 1e-300),
                          mech=f"{entry}:renorm:{method}",
                          detail=dict(detail, lhs=lhs, rhs=rhs, p=p), sig=sig)
            if info is not None and "error" in info and not truncating and method in SVD_LIKE:
                ie = float(np.real(to_numpy(info["error"])))
                rec.check(entry, "info_error", abs(ie) <= 30 * tol * max(xn, 1e-300) + 1e-300,
                          mech=f"{entry}:info_error:{method}:untruncated",
                          detail=dict(detail, reported=ie), sig=sig)
        elif not (method in ITER) and (method in ("svd", "svd:eig", "qr", "qr:cholesky")
                                       or form in ("lorthog", "rorthog")):
            # single factor forms: identities invariant under the unitary freedom
            gap_ok = True
            if truncating and k_eff < d and k_eff > 0:
                gap_ok = (s0[k_eff - 1] - s0[k_eff]) > 1e3 * tol * max(s0[0], 1e-300)
            if not gap_ok or amb:
                rec.check(entry, "single_factor", None, sig=sig)
            else:
                Uk, Vk, sk = U0[:, :k_eff], V0[:k_eff, :], s0[:k_eff] * rscale
                xk = (Uk * sk) @ Vk
                t2 = 100 * tol * max(xn, 1e-300) * max(m, n) ** 0.5 + 1e-300
                fullrank = d == 0 or s0[-1] > 1e3 * tol * s0[0]
                well = fullrank or method not in ("qr", "qr:cholesky")
                if form == "lorthog":
                    ok = fro(L @ (L.conj().T @ xk) - xk) <= t2 if (svdtype or fullrank) else None
                elif form == "rorthog":
                    ok = fro((xk @ R.conj().T) @ R - xk) <= t2 if (svdtype or fullrank) else None
                elif form == "lfactor":
                    ok = fro(L @ L.conj().T - xk @ xk.conj().T) <= t2 * max(xn, 1.0)
                elif form == "rfactor":
                    ok = fro(R.conj().T @ R - xk.conj().T @ xk) <= t2 * max(xn, 1.0)
                elif form == "lsqrt":
                    A = L @ L.conj().T
                    ok = fro(A @ A - xk @ xk.conj().T) <= t2 * max(xn, 1.0)
                elif form == "rsqrt":
                    A = R.conj().T @ R
                    ok = fro(A @ A - xk.conj().T @ xk) <= t2 * max(xn, 1.0)
                else:  # "s"
                    ok = len(sv) == k_eff and bool(
                        np.all(np.abs(np.sort(np.abs(sv))[::-1] - sk) <=
                               (tol if not gram else 30 * np.sqrt(eps) ** 0.5 * 1e-2 + tol)
                               * max(s0[0] if d else 0, 1e-300) * 10 + 1e-300))
                rec.check(entry, "single_factor", ok,
                          mech=f"{entry}:single_factor:{method}:{form}",
                          detail=detail, sig=sig)
                # SVD-type methods return *the singular vectors* in order: where
                # the spectrum is non-degenerate each returned vector equals the
                # reference singular vector up to a phase (an untruncated unitary
                # passes every projector identity above, so this is the clause
                # that pins e.g. a missing conjugate)
                if svdtype and form in ("lorthog", "rorthog") and k_eff > 0 and not gram_illcond(s0, k_eff, eps, gram):
                    F = L if form == "lorthog" else R
                    if F is not None and (F.shape[1] if form == "lorthog" else F.shape[0]) == k_eff:
                        worst = 0.0
                        nchk = 0
                        # (the order in which a lone orthogonal factor lists
                        # its vectors is not part of the contract)
                        Fm = F if form == "lorthog" else F.conj().T          # columns = vectors
                        Rm = U0 if form == "lorthog" else V0.conj().T
                        ovm = np.abs(Rm.conj().T @ Fm)
                        for j_ in range(Fm.shape[1]):
                            i_ = int(np.argmax(ovm[:, j_]))
                            lo_gap = (s0[i_ - 1] - s0[i_]) if i_ > 0 else np.inf
                            hi_gap = (s0[i_] - s0[i_ + 1]) if i_ + 1 < len(s0) else s0[i_]
                            g_ = min(lo_gap, hi_gap) / max(s0[0], 1e-300)
                            if g_ < 1e-2:
                                continue
                            worst = max(worst, abs(1.0 - float(ovm[i_, j_])))
                            nchk += 1
                        if nchk:
                            vt = (1e4 * tol if not gram else 1e-3) / 1e-2
                            rec.check(entry, "singular_vectors", worst <= max(vt, 1e-9),
                                      mech=f"{entry}:singular_vectors:{method}:{form}",
                                      detail=dict(detail, defect=worst, checked=nchk), sig=sig)

        # ---- isometry of factors the form promises to be isometric
        cond_ok = True
        if gram or method in ("qr",):
            cond_ok = d > 0 and s0[min(k_eff, d) - 1] > (1e-5 if gram else 1e3 * eps) * s0[0]
        if method.startswith("polar"):
            cond_ok = (m >= n) if method == "polar_right" else (m <= n)
        if method == "qr:cholesky":
            # Gram matrix must be non singular: tall for QR-like, wide for LQ-like forms
            cond_ok = cond_ok and ((m >= n) if form in ("right", "lorthog", "rfactor") else (m <= n))
        itol = 1e3 * eps
        if gram and d > 0 and cond_ok:
            cnd = s0[0] / max(s0[min(k_eff, d) - 1], 1e-300)
            itol = 100 * eps * cnd ** 2
            if itol > 1e-3:
                cond_ok = False   # Gram methods lose eps*cond^2: too ill conditioned to judge
        if cond_ok and method not in ITER:
            if form in ("full", "right", "lorthog") and L is not None:
                dev = fro(L.conj().T @ L - np.eye(L.shape[1]))
                rec.check(entry, "isometric", dev <= itol * max(L.shape[1], 1),
                          mech=f"{entry}:isometric:left:{method}:{form}",
                          detail=dict(detail, dev=dev), sig=sig)
            if form in ("full", "left", "rorthog") and R is not None:
                dev = fro(R @ R.conj().T - np.eye(R.shape[0]))
                rec.check(entry, "isometric", dev <= itol * max(R.shape[0], 1),
                          mech=f"{entry}:isometric:right:{method}:{form}",
                          detail=dict(detail, dev=dev), sig=sig)
        if form == "full" and sv is not None and method in SVD_LIKE and not truncating:
            # descending non-negative values for the plain svd
            if method == "svd":
                rec.check(entry, "values_descending",
                          bool(np.all(np.diff(sv) <= 1e3 * eps * max(sv[0] if len(sv) else 0, 1e-300))
                               and np.all(sv >= 0)),
                          mech=f"{entry}:values_descending:{method}", detail=detail, sig=sig)
        return {"k": k_eff, "truncating": truncating, "amb": amb, "sdec": sdec,
                # (squared values below eps vanish in the cumulative sums of the sum2 modes)
                "zero": max(margin, 1e3 * eps, 3 * np.sqrt(eps)) * max(sdec[0] if d else 0.0, 1e-300)}

    # ---- array_split ----------------------------------------------------------
    def pre_as(x, method="auto", absorb="auto", max_bond=None, cutoff=1e-10,
               cutoff_mode="rsum2", renorm=None, info=None, **kwargs):
        if not isinstance(x, np.ndarray) or x.size > 1 << 16:
            return None
        try:
            m, form = resolve(method, absorb, max_bond, cutoff)
        except Exception:
            return None
        return {"x": np.array(x, copy=True), "method": m, "form": form}

    def post_as(snap, result, x, method="auto", absorb="auto", max_bond=None,
                cutoff=1e-10, cutoff_mode="rsum2", renorm=None, info=None, **kwargs):
        L, s, R = result
        st = judge("array_split", snap["x"], L, s, R, snap["method"], snap["form"],
                   max_bond, cutoff, cutoff_mode, renorm, info, kwargs)
        # generic vs accelerated implementation of the same method
        if st is None or snap["x"].ndim != 2 or kwargs:
            return
        fn = decomp._SPLIT_FNS.get(snap["method"])
        gen_fn = getattr(fn, "_default_fn", None)
        if gen_fn is None or snap["method"] not in ("svd", "svd:eig", "qr", "eigh",
                                                      "qr:cholesky", "cholesky", "lu"):
            return
        try:
            _, opts = decomp.parse_split_opts(method, absorb, max_bond, cutoff,
                                              cutoff_mode, renorm)
            L2, s2, R2 = gen_fn(snap["x"].copy(), **opts)
        except Exception:
            rec.count("array_split", "generic_vs_numba", "generic_rejected")
            return
        k1 = (L.shape[1] if L is not None else R.shape[0] if R is not None else len(s))
        k2 = (np.shape(L2)[1] if L2 is not None else np.shape(R2)[0] if R2 is not None
              else len(s2))
        if st["amb"]:
            rec.check("array_split", "generic_vs_numba", None)
            return
        ok = k1 == k2
        if not ok:
            lo_, hi_ = min(k1, k2), max(k1, k2)
            if lo_ >= 1 and bool(np.all(st["sdec"][lo_:hi_] <= st["zero"])):
                rec.check("array_split", "generic_vs_numba", None)  # numerically zero values
                return
        if ok and snap["form"] in ("both", "left", "right"):
            # (ties make the optimal truncation non unique: compare the attained error)
            eps = eps_of(snap["x"].dtype)
            tol = (1e3 * eps if snap["method"] not in GRAM else 30 * np.sqrt(eps))
            xd_ = snap["x"].astype(complex)
            a = fro(xd_ - to_numpy(L).astype(complex) @ to_numpy(R).astype(complex))
            b = fro(xd_ - to_numpy(L2).astype(complex) @ to_numpy(R2).astype(complex))
            ok = abs(a - b) <= 100 * tol * max(fro(snap["x"]), 1e-300) * max(snap["x"].shape) ** 0.5 + 1e-300
        rec.check("array_split", "generic_vs_numba", bool(ok),
                  mech=f"array_split:generic_vs_numba:{snap['method']}",
                  detail={"method": snap["method"], "form": snap["form"], "k_numba": k1,
                          "k_generic": k2, "shape": snap["x"].shape, "dtype": str(snap["x"].dtype),
                          "opts": {kk_: (vv_ if not isinstance(vv_, dict) else "info")
                                   for kk_, vv_ in opts.items()}},
                  sig=(snap["method"], snap["form"], "gvn"))

    attach.install(decomp, "array_split", attach.monitored(
        rec, "array_split", pre_as, post_as, fam="as"))

    # ---- tensor_split: labels, tags, flags, value --------------------------------
    def pre_ts(T, left_inds, *, method="auto", absorb="auto", max_bond=None,
               cutoff=1e-10, cutoff_mode="rel", renorm=None, get=None, ltags=None,
               rtags=None, stags=None, bond_ind=None, right_inds=None,
               matrix_svals=False, info=None, **kw):
        if not hasattr(T, "inds") or not isinstance(T.data, np.ndarray):
            return None
        if T.data.size > 1 << 16 or get == "values":
            return None
        inds = tuple(T.inds)
        if left_inds is None:
            li = tuple(ix for ix in inds if ix not in tuple(right_inds))
        else:
            li = (left_inds,) if isinstance(left_inds, str) else tuple(left_inds)
        ri = tuple(ix for ix in inds if ix not in li) if right_inds is None else (
            (right_inds,) if isinstance(right_inds, str) else tuple(right_inds))
        if set(li) | set(ri) != set(inds) or set(li) & set(ri):
            return None
        try:
            m, form = resolve(method, absorb, max_bond, cutoff)
        except Exception:
            return None
        return {"data": np.array(T.data, copy=True), "inds": inds, "li": li, "ri": ri,
                "tags": set(T.tags), "method": m, "form": form}

    def post_ts(snap, result, T, left_inds, *, method="auto", absorb="auto",
                max_bond=None, cutoff=1e-10, cutoff_mode="rel", renorm=None, get=None,
                ltags=None, rtags=None, stags=None, bond_ind=None, right_inds=None,
                matrix_svals=False, info=None, **kw):
        form = snap["form"]
        li, ri = snap["li"], snap["ri"]
        sig = (snap["method"], form, get, len(li), len(ri), matrix_svals,
               bond_ind is not None)
        detail = {"method": snap["method"], "form": form, "get": get, "li": li, "ri": ri}
        if get == "arrays":
            return
        ts = tuple(result.tensor_map.values()) if hasattr(result, "tensor_map") else tuple(result)
        if get is None:
            # order of a TensorNetwork's tensors: (left, [s], right) minus Nones
            pass
        present = [t for t in ts if t is not None]
        lt = rt = stn = None
        for t in present:
            tin = set(t.inds)
            if tin & set(li) or (not li and lt is None and form in ("both", "left", "right", "full", "lorthog", "lfactor", "lsqrt") and not (tin & set(ri)) and t.ndim <= 1 + len(li) and stn is not None):
                lt = t if lt is None and (tin & set(li)) else lt
            if tin & set(ri):
                rt = t
        for t in present:
            if t is not lt and t is not rt:
                if not (set(t.inds) & (set(li) | set(ri))):
                    if form == "full" and stn is None and (lt is not None or not li) and (t.ndim in (1, 2)):
                        stn = t
        if (li and form in ("both", "left", "right", "full") and lt is None) or \
           (ri and form in ("both", "left", "right", "full") and rt is None):
            rec.check("tensor_split", "labels", False, mech="tensor_split:labels:factor_missing",
                      detail=detail)
            return
        ok = True
        why = ""
        bonds = set()
        if lt is not None:
            ok &= tuple(lt.inds[:len(li)]) == li and len(lt.inds) == len(li) + 1
            why = why or ("left_labels" if not ok else "")
            bonds.add(lt.inds[-1])
            want_tags = snap["tags"] | (set([ltags] if isinstance(ltags, str) else ltags or ()))
            if set(lt.tags) != want_tags:
                ok, why = False, why or "left_tags"
        if rt is not None:
            okr = tuple(rt.inds[1:]) == ri and len(rt.inds) == len(ri) + 1
            if not okr:
                ok, why = False, why or "right_labels"
            bonds.add(rt.inds[0])
            want_tags = snap["tags"] | (set([rtags] if isinstance(rtags, str) else rtags or ()))
            if set(rt.tags) != want_tags:
                ok, why = False, why or "right_tags"
        nb = 2 if (matrix_svals and form == "full") else 1
        if lt is not None and rt is not None and len(bonds) != nb:
            ok, why = False, why or "bond_count"
        if bond_ind is not None and not matrix_svals and bonds and bonds != {bond_ind}:
            ok, why = False, why or "bond_name"
        if bonds & (set(li) | set(ri)):
            ok, why = False, why or "bond_clashes_with_existing_label"
        rec.check("tensor_split", "labels", bool(ok), mech=f"tensor_split:labels:{why}",
                  detail=detail, sig=sig)
        # flagged isometries are isometric
        eps = eps_of(snap["data"].dtype)
        gram = snap["method"] in GRAM
        for t, side in ((lt, "left"), (rt, "right")):
            if t is None or not t.left_inds:
                continue
            a = to_numpy(t.data)
            lix = tuple(t.left_inds)
            perm = [t.inds.index(i) for i in lix] + [i for i, ix in enumerate(t.inds) if ix not in lix]
            A = np.transpose(a, perm).reshape(int(np.prod([a.shape[p] for p in perm[:len(lix)]], dtype=int)), -1)
            dev = float(np.abs(A.conj().T @ A - np.eye(A.shape[1])).max())
            if gram or snap["method"].startswith("polar") or snap["method"] in ITER:
                sv = np.linalg.svd(snap["data"].reshape(-1, 1) if snap["data"].ndim < 2 else
                                   np.transpose(snap["data"], [snap["inds"].index(i) for i in li + ri]
                                                ).reshape(int(np.prod([snap["data"].shape[snap["inds"].index(i)] for i in li], dtype=int)), -1),
                                   compute_uv=False)
                well = len(sv) > 0 and sv[min(A.shape[1], len(sv)) - 1] > 1e-5 * sv[0]
                if snap["method"] == "qr:cholesky":
                    mm = int(np.prod([snap["data"].shape[snap["inds"].index(i)] for i in li], dtype=int))
                    nn = int(np.prod([snap["data"].shape[snap["inds"].index(i)] for i in ri], dtype=int))
                    well = well and ((mm >= nn) if side == "left" else (mm <= nn))
                if snap["method"].startswith("polar"):
                    mm, nn = (int(np.prod([snap["data"].shape[snap["inds"].index(i)] for i in li], dtype=int)),
                              int(np.prod([snap["data"].shape[snap["inds"].index(i)] for i in ri], dtype=int)))
                    well = (mm >= nn) if snap["method"] == "polar_right" else (mm <= nn)
                gtol = 1e-4
                if gram and len(sv) > 0:
                    cnd = sv[0] / max(sv[min(A.shape[1], len(sv)) - 1], 1e-300)
                    gtol = 100 * eps * cnd ** 2
                    well = well and gtol <= 1e-3
                if not well or snap["method"] in ITER:
                    rec.count("tensor_split", "flag_isometric", "ambiguous")
                    continue
            else:
                gtol = 1e-4
            rec.check("tensor_split", "flag_isometric",
                      dev <= (1e3 * eps if not gram else max(gtol, 1e3 * eps)) * max(A.shape[1], 1),
                      mech=f"tensor_split:flag_isometric:{side}:{snap['method']}:{form}",
                      detail=dict(detail, dev=dev), sig=sig)

    attach.install(tc, "tensor_split", attach.monitored(
        rec, "tensor_split", pre_ts, post_ts, fam="ts"))


# ---------------------------------------------------------------------------
# workloads
# ---------------------------------------------------------------------------

METHODS = ["svd", "svd:eig", "svd:rand", "eigh", "qr", "lq", "cholesky", "qr:cholesky",
           "svds", "isvd", "rsvd", "eigsh", "lu", "polar_right", "polar_left", "auto"]
ABSORBS = ["auto", "both", "left", "right", None, "lorthog", "rorthog", "lfactor",
           "rfactor", "s", "lsqrt", "rsqrt", "U,sVH", "Us,VH"]
MODES = ["rsum2", "rel", "abs", "sum2", "rsum1", "sum1"]


def rand_matrix(rng, method=None):
    shape_kind = gen.choice(rng, ["tall", "wide", "square", "dim1", "one", "rankdef"])
    if shape_kind == "tall":
        m, n = int(rng.integers(3, 12)), int(rng.integers(1, 6))
        m = max(m, n + 1)
    elif shape_kind == "wide":
        n, m = int(rng.integers(3, 12)), int(rng.integers(1, 6))
        n = max(n, m + 1)
    elif shape_kind == "square":
        m = n = int(rng.integers(2, 9))
    elif shape_kind == "dim1":
        m, n = (1, int(rng.integers(1, 8))) if rng.random() < 0.5 else (int(rng.integers(1, 8)), 1)
    elif shape_kind == "one":
        m = n = 1
    else:
        m, n = int(rng.integers(3, 10)), int(rng.integers(3, 10))
    dtype = gen.choice(rng, gen.DTYPES, p=[0.4, 0.3, 0.15, 0.15])
    d = min(m, n)
    spec = gen.choice(rng, ["random", "flat", "geometric", "ties", "zeros"])
    cdt = "complex128" if np.dtype(dtype).kind == "c" else "float64"
    if shape_kind == "rankdef":
        r = int(rng.integers(1, d))
        x = gen.rand_array(rng, (m, r), cdt) @ gen.rand_array(rng, (r, n), cdt)
    elif spec == "random":
        x = gen.rand_array(rng, (m, n), cdt)
    else:
        if spec == "flat":
            s = np.ones(d)
        elif spec == "geometric":
            s = 0.5 ** np.arange(d) * float(rng.uniform(0.5, 4))
        elif spec == "ties":
            s = np.sort(rng.integers(1, 4, size=d).astype(float))[::-1]
        else:
            s = np.sort(rng.uniform(0.1, 2, size=d))[::-1]
            s[int(rng.integers(0, d)):] = 0.0
        u, _ = np.linalg.qr(gen.rand_array(rng, (m, d), cdt))
        v, _ = np.linalg.qr(gen.rand_array(rng, (n, d), cdt))
        x = (u * s) @ v.conj().T
    if method in ("eigh", "eigsh", "cholesky"):
        k = max(m, n)
        a = gen.rand_array(rng, (k, k), cdt)
        x = a @ a.conj().T + (0.5 * np.eye(k) if method == "cholesky" else 0)
        # (indefinite inputs make the sqrt-absorbing forms NaN: outside the domain)
    return np.ascontiguousarray(x.astype(dtype)), shape_kind, spec


def gram_illcond(s0, k_eff, eps, gram):
    """Gram-matrix methods lose eps*cond^2 in the vectors"""
    if not gram or len(s0) == 0:
        return False
    cnd = s0[0] / max(s0[min(k_eff, len(s0)) - 1], 1e-300)
    return 100 * eps * cnd ** 2 > 1e-5


def rand_opts(rng, x):
    d = min(x.shape)
    kw = {}
    r = rng.random()
    if r < 0.4:
        kw["cutoff"] = 0.0
    elif r < 0.9:
        kw["cutoff"] = float(gen.choice(rng, [1e-12, 1e-6, 1e-3, 0.05, 0.3, 0.5]))
    kw["cutoff_mode"] = gen.choice(rng, MODES)
    r = rng.random()
    if r < 0.5:
        kw["max_bond"] = int(gen.choice(rng, [1, max(d - 1, 1), d, d + 3]))
    elif r < 0.6:
        kw["max_bond"] = None
    r = rng.random()
    if r < 0.3:
        kw["renorm"] = gen.choice(rng, [True, 1, 2, 0, False])
    if rng.random() < 0.5:
        kw["info"] = {"error": None}
    return kw


def wl_table(rng, rec, tier):
    """walk the method x absorb x cutoff_mode table by case index"""
    from quimb.tensor import decomp
    idx = rec.case["idx"]
    method = METHODS[idx % len(METHODS)]
    absorb = ABSORBS[(idx // len(METHODS)) % len(ABSORBS)]
    x, sk, spec = rand_matrix(rng, method)
    kw = rand_opts(rng, x)
    kw["cutoff_mode"] = MODES[(idx // (len(METHODS) * len(ABSORBS))) % len(MODES)]
    if method in ITER or method == "lu":
        # only sensible when the requested rank covers the input rank
        kw.pop("renorm", None)
        if method in ("svds", "eigsh", "isvd", "rsvd", "svd:rand"):
            kw["max_bond"] = min(x.shape)
            kw["cutoff"] = 0.0
    if method == "svd:rand":
        kw.pop("cutoff", None)
        kw.pop("cutoff_mode", None)
        kw.pop("info", None)
    gen.attempt(decomp.array_split, x, method=method, absorb=absorb, **kw)
    return {"method": method, "absorb": absorb, "shape": x.shape, "dtype": str(x.dtype),
            "shape_kind": sk, "spectrum": spec,
            "kw": {k: (v if not isinstance(v, dict) else "info") for k, v in kw.items()}}


def wl_truncation(rng, rec, tier):
    """SVD-type truncation rules, hostile spectra near thresholds"""
    from quimb.tensor import decomp
    method = gen.choice(rng, ["svd", "svd:eig", "svd", "auto"])
    x, sk, spec = rand_matrix(rng)
    kw = rand_opts(rng, x)
    kw.setdefault("cutoff", float(gen.choice(rng, [1e-3, 0.05, 0.3])))
    absorb = gen.choice(rng, ["both", "left", "right", None, "s", "lorthog", "rfactor"])
    kw["info"] = {"error": None}
    gen.attempt(decomp.array_split, x, method=method, absorb=absorb, **kw)
    # a threshold placed exactly between two singular values
    s = np.linalg.svd(x.astype(complex), compute_uv=False)
    if len(s) >= 2 and s[0] > 0:
        i = int(rng.integers(0, len(s) - 1))
        thr = float((s[i] + s[i + 1]) / 2)
        gen.attempt(decomp.array_split, x, method=method, absorb=absorb, cutoff=thr,
                    cutoff_mode="abs", info={"error": None})
        gen.attempt(decomp.array_split, x, method=method, absorb=absorb,
                    cutoff=thr / s[0], cutoff_mode="rel", info={"error": None})
        tail = float(np.sum(s[i + 1:] ** 2) + 0.5 * s[i] ** 2)
        gen.attempt(decomp.array_split, x, method=method, absorb=absorb, cutoff=tail,
                    cutoff_mode="sum2", info={"error": None},
                    renorm=gen.choice(rng, [None, True, 2]))
    return {"method": method, "absorb": absorb, "shape": x.shape, "dtype": str(x.dtype),
            "spectrum": spec}


def wl_single_factor(rng, rec, tier):
    """single-factor forms of the SVD/QR-type methods, with and without a cap
    that truncates, on the short-cut paths (cutoff 0 / None)"""
    from quimb.tensor import decomp
    method = gen.choice(rng, ["svd", "svd:eig", "svd:eig", "eig", "qr", "lq", "qr:cholesky"])
    absorb = gen.choice(rng, ["lorthog", "rorthog", "lfactor", "rfactor", "s", "lsqrt", "rsqrt"])
    x, sk, spec = rand_matrix(rng, method)
    d = min(x.shape)
    kw = {}
    r = rng.random()
    if r < 0.45:
        kw["cutoff"] = 0.0
    elif r < 0.7:
        kw["cutoff"] = None
    else:
        kw["cutoff"] = float(gen.choice(rng, [1e-12, 1e-3]))
    if rng.random() < 0.55 and d > 1:
        kw["max_bond"] = int(rng.integers(1, d))
    if rng.random() < 0.3:
        kw["info"] = {"error": None}
    gen.attempt(decomp.array_split, x, method=method, absorb=absorb, **kw)
    return {"method": method, "absorb": absorb, "shape": x.shape, "dtype": str(x.dtype),
            "kw": {k: (v if not isinstance(v, dict) else "info") for k, v in kw.items()}}


def wl_batch(rng, rec, tier):
    """batched (ndim>2) inputs reach the generic implementation on numpy"""
    from quimb.tensor import decomp
    b = int(rng.integers(1, 4))
    m, n = int(rng.integers(1, 6)), int(rng.integers(1, 6))
    x = gen.rand_array(rng, (b, m, n), gen.choice(rng, ["float64", "complex128"]))
    method = gen.choice(rng, ["svd", "svd:eig", "qr"])
    absorb = gen.choice(rng, ["both", "left", "right", None])
    res = gen.attempt(decomp.array_split, x, method=method, absorb=absorb, cutoff=0.0)
    if res is not None:
        L, s, R = res
        if s is not None:
            prod = (np.asarray(L) * np.asarray(s)[:, None, :]) @ np.asarray(R)
        else:
            prod = np.asarray(L) @ np.asarray(R)
        ok, err, _ = close(prod, x, float(np.abs(x).max()), 2.3e-16,
                           1e4 if method != "svd:eig" else 1e9)
        rec.check("array_split", "batch_reconstruct", ok,
                  mech=f"array_split:batch_reconstruct:{method}",
                  detail={"shape": x.shape, "absorb": absorb, "err": err},
                  sig=(method, absorb, x.shape))
    return {"shape": x.shape, "method": method, "absorb": absorb}


def wl_tensor(rng, rec, tier):
    import quimb.tensor as qtn
    nd = int(rng.integers(2, 6))
    shape = tuple(int(rng.integers(1, 4)) for _ in range(nd))
    inds = tuple(f"i{k}" for k in range(nd))
    dtype = gen.choice(rng, gen.DTYPES, p=[0.4, 0.3, 0.15, 0.15])
    T = qtn.Tensor(gen.rand_array(rng, shape, dtype), inds, tags={"A", "B"})
    perm = [int(i) for i in rng.permutation(nd)]
    k = int(rng.integers(0, nd + 1)) if rng.random() < 0.2 else int(rng.integers(1, nd))
    li = tuple(inds[i] for i in perm[:k])
    ri = tuple(inds[i] for i in perm[k:])
    method = gen.choice(rng, ["auto", "svd", "svd:eig", "qr", "lq", "qr:cholesky",
                              "polar_right", "polar_left", "lu", "svd:rand"])
    absorb = gen.choice(rng, ["auto", "both", "left", "right", None, "lorthog",
                              "rorthog", "lfactor", "rfactor"])
    kw = {}
    if rng.random() < 0.5:
        kw["cutoff"] = 0.0
    if rng.random() < 0.3:
        kw["max_bond"] = int(rng.integers(1, 5))
    if rng.random() < 0.3:
        kw["bond_ind"] = "BOND"
    if rng.random() < 0.3:
        kw["ltags"] = "L"
        kw["rtags"] = ["R", "RR"]
    if absorb is None and rng.random() < 0.3:
        kw["matrix_svals"] = True
        kw.pop("bond_ind", None)
        if rng.random() < 0.5:
            kw["bond_ind"] = ("BL", "BR")
    get = gen.choice(rng, [None, None, "tensors", "arrays", "values"])
    if get == "values":
        kw = {}
    if rng.random() < 0.3:
        kw["right_inds"] = ri
        left = li if rng.random() < 0.5 else None
    else:
        left = li
    res = gen.attempt(T.split, left, method=method, absorb=absorb, get=get, **kw)
    # value: untruncated splits reproduce the tensor (labelled)
    if res is not None and get is None and kw.get("cutoff") == 0.0 and "max_bond" not in kw \
            and absorb in ("auto", "both", "left", "right", None) and method not in ("svd:rand", "lu"):
        try:
            got = refv.value(ops_of(res), 0.0, inds, 1 << 20)
            want = np.asarray(T.data)
            eps = eps_of(want.dtype)
            sc = float(np.abs(want).max()) if want.size else 0.0
            ok, err, _ = close(got, want, sc, eps if method not in GRAM else np.sqrt(eps),
                               1e4 if method not in GRAM else 100)
            rec.check("tensor_split", "value", ok, mech=f"tensor_split:value:{method}:{absorb}",
                      detail={"shape": shape, "li": li, "err": err, "kw": sorted(kw)},
                      sig=(method, absorb, nd, k))
        except (refv.TooBig, ValueError) as e:
            rec.check("tensor_split", "value", False,
                      mech="tensor_split:value:network_inconsistent",
                      detail={"error": str(e), "method": method, "absorb": absorb})
    # via a network / linear operator
    if rng.random() < 0.3 and 0 < k < nd:
        tn = qtn.TensorNetwork([T])
        gen.attempt(tn.split, li, method=gen.choice(rng, ["svd", "qr", "svds"]),
                    cutoff=0.0, **({"max_bond": int(np.prod(shape))} if rng.random() < 0.5 else {}))
    return {"shape": shape, "li": li, "ri": ri, "method": method, "absorb": absorb,
            "get": get, "kw": sorted(kw)}


WORKLOADS = [
    ("table", 8, wl_table),
    ("truncation", 4, wl_truncation),
    ("single_factor", 3, wl_single_factor),
    ("batch", 1, wl_batch),
    ("tensor", 4, wl_tensor),
]
