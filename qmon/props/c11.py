"""C11 - TEBD equals its documented Trotter product and converges at the stated
order.

(a) LocalHam1D: the embedded sum of its stored terms equals the independently
assembled sum of the supplied one- and two-site terms; get_gate_expm is the
exponential of the stored term.  (b) every TEBD.update_to call is compared with
an independent dense product formula (own coefficients) applied to the state at
entry; t == T exactly; norms.  (c) convergence order vs exact evolution."""

import numpy as np

from .. import attach, gen
from ..core import to_numpy
from ..ref import linalg as rl
from .c09 import GEOM, vec_of

PROP = "C11"
NCASES = {"quick": 4000, "thorough": 120000}
BUDGET = {"quick": 75, "thorough": 1200}
RULE = ("chains L 2-7 (odd/even, open/periodic), random Hermitian site-dependent and "
        "non-exchange-symmetric two-site terms plus one-site terms (array / default-key / "
        "per-site dict forms), orders 1/2/4, dt or tol, sequences of target times incl. "
        "non-multiples of dt, real and imaginary time, split cutoff 0 or default; distinct = "
        "(L, cyclic, order, imag, form of H, #targets)")
ASSUMPTIONS = [
    "formula equality is not required on periodic chains of odd length (the even/odd/boundary "
    "colouring is not a symmetric splitting there): only first-order convergence and t == T",
    "with the default split cutoff (1e-10 relative weight per split) the comparison tolerance "
    "is 3*sqrt(1e-10 * number of gates)",
]
DECIDING = [("localham", "sum"), ("localham", "expm"), ("tebd", "product_formula"), ("tebd", "time"),
            ("tebd", "order")]
SUITE = ["tests/test_tensor/test_tn1d/test_tebd.py"]
MANIFEST = dict(
    technique="runtime postcondition monitors on LocalHam1D construction/get_gate_expm and on every TEBD.update_to call (state at entry -> independent dense symmetric product formula with own Suzuki coefficients -> comparison with the MPS at exit, t == T, norm), plus an observed convergence-order check against exact evolution",
    text="Random local Hamiltonians in every accepted input form must represent exactly the supplied sum; TEBD runs (orders 1/2/4, real and imaginary time, target-time sequences that are not multiples of the step) must land exactly on the requested times, apply precisely the documented product formula when untruncated, preserve the norm in real time / return the normalised product in imaginary time, and converge at the stated order.",
    note="Dense references limit L <= 7.",
    ref="3/C11")

SUZ = 1.0 / (4.0 - 4.0 ** (1.0 / 3.0))


def herm(rng, d, dtype="complex128"):
    a = rng.normal(size=(d, d)) + (1j * rng.normal(size=(d, d)) if "complex" in dtype else 0)
    return ((a + a.conj().T) / 2).astype(dtype)


def expm_h(h, x):
    """expm(x*h) for Hermitian h"""
    w, v = np.linalg.eigh(h)
    return (v * np.exp(x * w)) @ v.conj().T


def apply2(v, U, i, j, L, d):
    """apply a two-site operator (on sites i, j in that order) to v (d,)*L"""
    U4 = U.reshape(d, d, d, d)
    out = np.tensordot(U4, v, axes=((2, 3), (i, j)))
    return np.moveaxis(out, (0, 1), (i, j))


def layers(L, cyclic):
    right = [(i, i + 1) for i in range(0, L - 1, 2)]
    left = [(i, i + 1) for i in reversed(range(1, L - 1, 2))]
    if cyclic:
        if L % 2 == 1:
            right = right + [(L - 1, 0)]
        else:
            left = [(L - 1, 0)] + left
    return right, left


def schedule(order):
    if order == 1:
        return [(0, 1.0), (1, 1.0)]
    s2 = [(0, 0.5), (1, 1.0), (0, 0.5)]
    if order == 2:
        return s2
    if order == 4:
        return [(k, f * w) for w in (SUZ, SUZ, 1 - 4 * SUZ, SUZ, SUZ) for k, f in s2]
    raise ValueError(order)


def formula(v, terms, L, cyclic, d, dt, order, imag):
    R, Lft = layers(L, cyclic)
    fac = -1.0 if imag else -1.0j
    for k, frac in schedule(order):
        for (i, j) in (R if k == 0 else Lft):
            h = terms[(i, j)]
            v = apply2(v, expm_h(h, fac * dt * frac), i, j, L, d)
    return v


def dense_H(terms, L, d):
    H = np.zeros((d ** L, d ** L), dtype=complex)
    eye = np.eye(d)
    for (i, j), h in terms.items():
        # h acts on (i, j) in that order
        T = np.eye(d ** L, dtype=complex).reshape((d,) * (2 * L))
        M = apply2(T, h, i, j, 2 * L, d) if False else None
        # build by acting on the identity's row indices
        I = np.eye(d ** L, dtype=complex).reshape((d,) * L + (d ** L,))
        out = np.tensordot(h.reshape(d, d, d, d), I, axes=((2, 3), (i, j)))
        out = np.moveaxis(out, (0, 1), (i, j))
        H += out.reshape(d ** L, d ** L)
    return H


TEBDS = {}


def install(rec):
    import quimb.tensor.tn1d.tebd as t1
    import quimb.tensor.tnag.tebd as tg

    # ---- LocalHam1D ----------------------------------------------------------
    def pre_lh(self, L, H2, H1=None, cyclic=False):
        L = int(L)
        if L > 7:
            return None
        # independent parse of the documented input forms
        def arr(x):
            return np.asarray(to_numpy(x), dtype=complex)
        if hasattr(H2, "shape"):
            h2 = {None: arr(H2)}
        else:
            h2 = {k: arr(v) for k, v in dict(H2).items()}
        if H1 is None:
            h1 = {}
        elif hasattr(H1, "shape"):
            h1 = {None: arr(H1)}
        else:
            h1 = {k: arr(v) for k, v in dict(H1).items()}
        any2 = next(iter(h2.values()))
        d = int(round(np.sqrt(any2.shape[0])))
        bonds = [(i, i + 1) for i in range(L - 1)] + ([(L - 1, 0)] if cyclic and L > 2 else [])
        if cyclic and L == 2:
            bonds = [(0, 1), (1, 0)]
        H = np.zeros((d ** L, d ** L), dtype=complex)
        terms = {}
        d2 = h2.pop(None, None)
        for (a, b) in bonds:
            if (a, b) in h2:
                terms[(a, b)] = h2[(a, b)]
            elif (b, a) in h2:
                # given in reversed site order: acts on (b, a)
                terms[(b, a)] = h2[(b, a)]
            elif d2 is not None:
                terms[(a, b)] = d2
        if len(terms) != len(set(map(frozenset, terms))) and not (cyclic and L == 2):
            return None
        extra = [k for k in h2 if k not in terms]
        if extra:
            return None     # non nearest-neighbour keys: outside the documented domain
        for (a, b), h in terms.items():
            H += dense_H({(a, b): h}, L, d)
        d1 = h1.pop(None, None)
        eye = np.eye(d)
        for i in range(L):
            h = h1.get(i, d1)
            if h is None:
                continue
            ops = [eye] * L
            ops[i] = h
            H += rl.kron_all(ops)
        return {"H": H, "L": L, "d": d, "cyclic": bool(cyclic), "nterms": len(terms),
                "form": ("array" if hasattr(H2, "shape") else "dict",
                         "none" if H1 is None else "array" if hasattr(H1, "shape") else "dict")}

    def post_lh(s, out, self, L, H2, H1=None, cyclic=False):
        L, d = s["L"], s["d"]
        got = np.zeros_like(s["H"])
        try:
            for where, h in self.terms.items():
                got += dense_H({tuple(where): np.asarray(to_numpy(h), dtype=complex)}, L, d)
        except Exception as e:  # noqa
            rec.check("localham", "sum", False, mech="localham:terms_malformed", detail={"error": repr(e)[:120]})
            return
        scale = max(float(np.abs(s["H"]).max()), 1e-300)
        err = float(np.abs(got - s["H"]).max())
        rec.check("localham", "sum", err <= 1e-10 * scale, mech="localham:sum_of_terms_differs",
                  detail={"err": err, "scale": scale, "L": L, "cyclic": s["cyclic"], "form": s["form"],
                          "nterms_library": len(self.terms)},
                  sig=("sum", L, s["cyclic"], s["form"]))
        # each stored term through get_gate / get_gate_expm
        for where in list(self.terms)[:3]:
            h = np.asarray(to_numpy(self.get_gate(where)), dtype=complex)
            x = -0.37j
            U = np.asarray(to_numpy(self.get_gate_expm(where, x)), dtype=complex)
            ref = rl.expm(x * h)
            e2 = float(np.abs(U - ref).max())
            rec.check("localham", "expm", e2 <= 1e-9, mech="localham:get_gate_expm_not_exponential",
                      detail={"err": e2, "where": list(where)}, sig=("expm", d))
    attach.install(t1.LocalHam1D, "__init__", attach.monitored(rec, "LocalHam1D.__init__", pre_lh, post_lh, fam="lh"))

    # every get_gate_expm call: the exponential of the *current* term
    def pre_ge(self, where, x):
        if rec.depth("ge") > 0:
            return None
        return {}

    def post_ge(s, out, self, where, x):
        try:
            h = np.asarray(to_numpy(self.terms[tuple(sorted(where))]), dtype=complex)
            U = np.asarray(to_numpy(out), dtype=complex)
            if h.ndim != 2 or U.shape != h.shape or h.shape[0] > 81:
                return
            ref = rl.expm(complex(x) * h)
        except Exception:
            return
        e2 = float(np.abs(U - ref).max())
        rec.check("localham", "expm", e2 <= 1e-8 * max(1.0, float(np.abs(ref).max())),
                  mech="localham:get_gate_expm_not_exponential_of_current_term",
                  detail={"err": e2, "where": list(where), "x": repr(x)}, sig=("expm_call", h.shape[0]))
    attach.install(tg.LocalHamGen, "get_gate_expm", attach.monitored(rec, "LocalHamGen.get_gate_expm", pre_ge, post_ge, fam="ge"))

    # ---- TEBD --------------------------------------------------------------
    def pre_up(self, T, dt=None, tol=None, order=4, progbar=None):
        if rec.depth("tebd") > 0:
            return None
        L = self.L
        if L > 7:
            return None
        r = vec_of(self._pt)
        if not r:
            return None
        d = r[0].shape[0]
        terms = {}
        for where, h in self.H.terms.items():
            terms[tuple(where)] = np.asarray(to_numpy(h), dtype=complex)
        # normalise keys to the (i, j) orientation of the sweep bonds
        R, Lf = layers(L, self.cyclic)
        tt = {}
        for (i, j) in R + Lf:
            if (i, j) in terms:
                tt[(i, j)] = terms[(i, j)]
            elif (j, i) in terms:
                # stored for (j, i): swap the two sites
                h = terms[(j, i)].reshape(d, d, d, d).transpose(1, 0, 3, 2).reshape(d * d, d * d)
                tt[(i, j)] = h
            else:
                return None
        return {"v": r[0].copy(), "t": float(self.t), "terms": tt, "d": d, "eps": r[2],
                "queued": getattr(self, "_queued_sweep", None)}

    def post_up(s, out, self, T, dt=None, tol=None, order=4, progbar=None):
        L, d = self.L, s["d"]
        rec.check("tebd", "time", abs(self.t - T) <= 1e-12 * max(1.0, abs(T)), mech="tebd:time_not_reached_exactly",
                  detail={"t": float(self.t), "T": float(T)}, sig=("time", order))
        if s["queued"]:
            return       # a sweep from an earlier (interrupted) call was pending
        r = vec_of(self._pt)
        if not r:
            return
        got = r[0]
        dt_used = float(self._dt)
        t = s["t"]
        v = s["v"]
        ngates = 0
        nsteps = 0
        # documented stepping: full steps while t < T - dt, then one step of T - t
        while t < T - dt_used:
            v = formula(v, s["terms"], L, self.cyclic, d, dt_used, order, self.imag)
            t += dt_used
            nsteps += 1
            if nsteps > 400:
                return
        last = T - t
        v = formula(v, s["terms"], L, self.cyclic, d, last, order, self.imag)
        nsteps += 1
        ngates = nsteps * len(schedule(order)) * max(1, L // 2)
        cutoff = self.split_opts.get("cutoff", 1e-10)
        odd_cyclic = self.cyclic and L % 2 == 1
        n0 = float(np.linalg.norm(s["v"]))
        ng = float(np.linalg.norm(got))
        if self.imag:
            nv = float(np.linalg.norm(v))
            if nv > 0:
                v = v / nv
            rec.check("tebd", "norm", abs(ng - 1.0) <= 1e-6, mech=f"tebd:imag_time_not_normalised:order{order}",
                      detail={"norm": ng, "order": order, "L": L, "cyclic": bool(self.cyclic)}, sig=("norm", "imag", order))
            if ng > 0:
                got = got / ng
        else:
            tolc = 1e-8 if not cutoff else 3 * (cutoff * ngates) ** 0.5
            rec.check("tebd", "norm", abs(ng - n0) <= max(tolc, 1e-8) * max(n0, 1e-300),
                      mech="tebd:real_time_norm_not_preserved",
                      detail={"before": n0, "after": ng, "order": order}, sig=("norm", "real", order))
        if odd_cyclic:
            rec.count("tebd", "product_formula", "out_of_domain")
            return
        if "max_bond" in self.split_opts and self.split_opts["max_bond"] is not None:
            return
        tolv = (1e-8 if not cutoff else 3 * (cutoff * ngates) ** 0.5) * max(n0 if not self.imag else 1.0, 1e-300)
        if s["eps"] > 1e-10:
            tolv = max(tolv, 1e-3)
        err = float(np.abs(got - v).max())
        rec.check("tebd", "product_formula", err <= tolv, mech=f"tebd:differs_from_product_formula:order{order}",
                  detail={"err": err, "tol": tolv, "L": L, "cyclic": bool(self.cyclic), "order": order,
                          "imag": bool(self.imag), "dt": dt_used, "t0": s["t"], "T": float(T), "steps": nsteps},
                  sig=("formula", L, bool(self.cyclic), order, bool(self.imag), nsteps > 1,
                       abs(last - dt_used) > 1e-12))
    attach.install(t1.TEBD, "update_to", attach.monitored(rec, "TEBD.update_to", pre_up, post_up, fam="tebd"))


# ---------------------------------------------------------------------------
# workloads
# ---------------------------------------------------------------------------

def rand_ham(rng, L, cyclic, d=2):
    import quimb.tensor as qtn
    form = gen.choice(rng, ["array", "default+override", "per-bond"])
    nb = L - 1 + (1 if cyclic else 0)
    bonds = [(i, (i + 1) % L) for i in range(nb)]
    if form == "array":
        H2 = herm(rng, d * d)
    elif form == "default+override":
        H2 = {None: herm(rng, d * d)}
        for b in bonds:
            if rng.random() < 0.4:
                key = b if rng.random() < 0.7 else (b[1], b[0])
                H2[key] = herm(rng, d * d)
    else:
        H2 = {}
        for b in bonds:
            key = b if rng.random() < 0.8 else (b[1], b[0])
            H2[key] = herm(rng, d * d)
    r = rng.random()
    if r < 0.35:
        H1 = None
    elif r < 0.55:
        H1 = herm(rng, d)
    elif r < 0.8:
        H1 = {None: herm(rng, d)}
        for i in range(L):
            if rng.random() < 0.4:
                H1[i] = herm(rng, d)
    else:
        H1 = {i: herm(rng, d) for i in range(L) if rng.random() < 0.7}
    ham = gen.attempt2(qtn.LocalHam1D, L, H2, H1, cyclic=cyclic)
    return ham, form


def wl_localham(rng, rec, tier):
    L = int(rng.integers(2, 7))
    cyclic = bool(rng.random() < 0.4) and L > 2
    d = int(gen.choice(rng, [2, 2, 3])) if L <= 4 else 2
    ham, form = rand_ham(rng, L, cyclic, d)
    if ham is not gen.REJECTED:
        import gc
        xs = [-0.37j, -0.1]
        for where in list(ham.terms):
            gen.attempt(ham.get_gate_expm, where, gen.choice(rng, xs))
        if rng.random() < 0.6:
            # replace the term arrays (the old ones are freed): cached results
            # must not survive
            f = float(gen.choice(rng, [2.0, 0.5, -1.0]))
            gen.attempt(ham.apply_to_arrays, lambda a: f * a)
            gc.collect()
            for where in list(ham.terms):
                gen.attempt(ham.get_gate_expm, where, gen.choice(rng, xs))
    return {"L": L, "cyclic": cyclic, "form": form, "rejected": ham is gen.REJECTED}


def wl_tebd(rng, rec, tier):
    import quimb.tensor as qtn
    L = int(rng.integers(2, 7))
    cyclic = bool(rng.random() < 0.3) and L > 2
    ham, form = rand_ham(rng, L, cyclic)
    if ham is gen.REJECTED:
        return {"rejected": "ham"}
    psi0 = qtn.MPS_rand_state(L, int(rng.integers(1, 4)), dtype="complex128", cyclic=cyclic,
                              seed=int(rng.integers(1 << 30)))
    order = int(gen.choice(rng, [1, 2, 4]))
    imag = bool(rng.random() < 0.3)
    kw = {"progbar": False, "imag": imag}
    if rng.random() < 0.7 and not cyclic:
        # (on a periodic chain nothing bounds the bond dimension when exact
        # zeros / round-off values are kept: keep the default cutoff there)
        kw["split_opts"] = {"cutoff": 0.0}
    if rng.random() < 0.75:
        kw["dt"] = float(gen.choice(rng, [0.05, 0.1, 0.03, 0.2]))
    else:
        # (tol with a first order formula means thousands of steps)
        if order == 1:
            order = 2
        kw["tol"] = float(gen.choice(rng, [1e-1, 1e-2]))
    targets = sorted(float(x) for x in rng.uniform(0.02, 0.6, size=int(rng.integers(1, 4))))
    if cyclic:
        # the library's periodic TEBD does not keep a canonical form: its bond
        # dimension grows by ~d^2 per step whatever the cutoff - keep runs short
        kw.pop("tol", None)
        kw["dt"] = float(gen.choice(rng, [0.05, 0.1]))
        if order == 4:
            order = int(gen.choice(rng, [1, 2]))     # (15 sweeps per step: bonds of several hundred)
        nmax = 2.0
        targets = sorted(float(x) for x in rng.uniform(0.02, nmax * kw["dt"], size=int(rng.integers(1, 3))))
        if rng.random() < 0.5:
            targets = [0.06, 0.13] if rng.random() < 0.5 else [0.1, 0.17]
    tebd = gen.attempt2(qtn.TEBD, psi0, ham, **kw)
    if tebd is gen.REJECTED:
        return {"rejected": "tebd"}

    if rng.random() < 0.3 and "dt" in kw:
        targets[0] = kw["dt"] * int(rng.integers(1, 4))      # an exact multiple too
    if rng.random() < 0.3:
        gen.attempt2(lambda: list(tebd.at_times(targets, order=order)))
    else:
        for n_, T in enumerate(targets):
            kw2 = {}
            if n_ > 0 and "dt" in kw and rng.random() < 0.6:
                # another step size for this leg, on the same TEBD object
                kw2["dt"] = float(gen.choice(rng, [0.05, 0.1, 0.07] if cyclic else [0.05, 0.1, 0.03, 0.2]))
            if gen.attempt2(tebd.update_to, T, order=order, **kw2) is gen.REJECTED:
                break
    return {"L": L, "cyclic": cyclic, "order": order, "imag": imag, "form": form, "targets": targets,
            "kw": {k: v for k, v in kw.items() if k != "progbar"}}


def wl_order(rng, rec, tier):
    """observed convergence order against exact evolution"""
    import quimb.tensor as qtn
    L = int(rng.integers(3, 6))
    cyclic = bool(rng.random() < 0.35)
    ham, form = rand_ham(rng, L, cyclic)
    if ham is gen.REJECTED:
        return {"rejected": True}
    order = int(gen.choice(rng, [1, 2, 4]))
    if cyclic:
        # the library's periodic TEBD truncates without a canonical form and its
        # bond dimension explodes within a few steps: the asymptotic regime of
        # the higher order formulas is not observable; first order is
        order = 1
    psi0 = qtn.MPS_rand_state(L, 2, dtype="complex128", cyclic=cyclic, seed=int(rng.integers(1 << 30)))
    rec.busy = True
    try:
        r = vec_of(psi0)
        d = 2
        terms = {tuple(w): np.asarray(to_numpy(h), dtype=complex) for w, h in ham.terms.items()}
        H = sum(dense_H({w: h}, L, d) for w, h in terms.items())
    finally:
        rec.busy = False
    if not r:
        return {"skipped": True}
    T = 0.4 if not cyclic else 0.2
    exact = (rl.expm(-1j * T * H) @ r[0].reshape(-1)).reshape(r[0].shape)
    errs = []
    for dt in (0.1, 0.05):
        tebd = gen.attempt2(qtn.TEBD, psi0, ham, dt=dt, progbar=False,
                            split_opts={"cutoff": 0.0} if not cyclic else {"cutoff": 1e-12})
        if tebd is gen.REJECTED or gen.attempt2(tebd.update_to, T, order=order) is gen.REJECTED:
            return {"rejected": True}
        rec.busy = True
        try:
            g = vec_of(tebd.pt)
        finally:
            rec.busy = False
        if not g:
            return {"skipped": True}
        errs.append(float(np.linalg.norm(g[0] - exact)))
    floor = 1e-10 if not cyclic else 3e-5
    if errs[1] > floor and errs[0] > 10 * floor:
        slope = float(np.log2(errs[0] / errs[1]))
        need = (1 if (cyclic and L % 2 == 1) else order) - 0.4
        rec.check("tebd", "order", slope >= need, mech=f"tebd:convergence_order_below_stated:order{order}",
                  detail={"slope": slope, "errs": errs, "order": order, "L": L, "cyclic": cyclic},
                  sig=("order", order, L, cyclic))
    else:
        rec.count("tebd", "order", "ambiguous")
    return {"L": L, "cyclic": cyclic, "order": order, "errs": errs}


WORKLOADS = [
    ("localham", 2, wl_localham),
    ("tebd", 5, wl_tebd),
    ("order", 2, wl_order),
]
