"""C08 - an MPS's recorded canonical form is always true, and its consumers are
correct.

Record monitor: every method that accepts ``info`` is wrapped; after each
outermost return the record ``info['cur_orthog']`` is compared with the object
it describes (independent isometry defects from the raw arrays).  The history
fuzzer threads ONE record through a random sequence of operations and also
checks it at every quiescent point against the object the caller holds.
Consumer oracles compare canonical-form queries with the dense state."""

import inspect

import numpy as np

from .. import attach, gen
from ..core import close, dense_of, eps_of, to_numpy
from ..ref import linalg as rl
from .c09 import GEOM, _spin_ops, isometry_defect, rand_mps, vec_of

PROP = "C08"
NCASES = {"quick": 9000, "thorough": 200000}
BUDGET = {"quick": 75, "thorough": 1200}
RULE = ("random MPS (L 2-8, bond 1-5, physical dims 2-3 mixed, four dtypes, "
        "normalised or not, stored exponent) and histories of 4-25 operations threading "
        "one record: canonicalize / compress_site / one- and two-site gates in every MPS "
        "mode (reversed `where`) / swaps / sub-operator application / measurement (with "
        "and without removal) / sampling / canonical-form queries; distinct = (entry, "
        "clause, L, dims, dtype, options)")
ASSUMPTIONS = [
    "a record of None or 'calc' asserts nothing",
    "gates applied with contract=True away from the centre are unitary (a non-unitary "
    "one-site gate legitimately destroys an isometry the record relies on)",
    "method='lazy' leaves several tensors per site: the record is not interpreted there",
    "entropy / Schmidt quantities follow the library's definition on the state as given "
    "(no implicit normalisation)",
]
DECIDING = [("record", "isometry"), ("record", "caller_object"), ("query", "value"),
            ("measure", "state"), ("sample", "omega")]
SUITE = ["tests/test_tensor/test_tn1d/test_core.py", "tests/test_tensor/test_circuit/test_mps.py"]
MANIFEST = dict(
    technique="runtime invariant monitor on every MPS method that accepts an orthogonality-centre record (independent isometry defects of the site tensors vs the record, checked on the returned/receiver object and, in the history fuzzer, on the object the caller holds at every quiescent point) + reference-model postconditions for canonical-form consumers against the dense state",
    text="A seeded history fuzzer threads one info record through random sequences of canonicalisation, gates in every MPS mode, swaps, sub-operator application, compress-site, measurement and sampling; after every call the record must describe true left/right isometries, flagged left_inds must be isometric, and Schmidt values, entropies, magnetisation, canonical reduced density matrices and expectations, measurement outcomes/post-measurement states and sample probabilities must equal the dense-state values.",
    note="Sizes limited to densifiable states (<= 2^12 amplitudes).",
    ref="3/C08")


def tol_of(eps):
    return 5e-3 if eps > 1e-10 else 1e-7


def site_t(x, i):
    return x[x.site_tag(i)]


def record_defects(x, lo, hi):
    """(worst left defect for sites < lo, worst right defect for sites > hi)"""
    L = x.L
    wl = wr = 0.0
    where = None
    for i in range(L):
        if lo <= i <= hi:
            continue
        t = site_t(x, i)
        j = i + 1 if i < lo else i - 1
        bs = list(t.bonds(site_t(x, j)))
        a = to_numpy(t.data)
        if len(bs) == 0:
            d = abs(float(np.vdot(a, a).real) - 1.0)
        elif len(bs) == 1:
            d = isometry_defect(t, bs[0])
        else:
            return None
        if i < lo:
            if d > wl:
                wl, where = d, i
        elif d > wr:
            wr, where = d, i
    return wl, wr, where


def flat_mps(x):
    try:
        return (hasattr(x, "site_tag_id") and hasattr(x, "L") and x.num_tensors == x.L
                and not getattr(x, "cyclic", False)
                and all(len(x.tag_map.get(x.site_tag(i), ())) == 1 for i in range(x.L)))
    except Exception:
        return False


def check_record(rec, x, info, entry, clause="isometry"):
    co = info.get("cur_orthog") if isinstance(info, dict) else None
    if co is None or isinstance(co, str):
        rec.count("record", clause, "no_record")
        return
    lo, hi = (co, co) if isinstance(co, (int, np.integer)) else (min(co), max(co))
    if not flat_mps(x):
        rec.count("record", clause, "out_of_domain")
        return
    L = x.L
    okr = 0 <= lo <= hi < L
    rec.check("record", "range", okr, mech=f"record:range:{entry}",
              detail={"record": [int(lo), int(hi)], "L": L}, sig=(entry, "range"))
    if not okr:
        return
    eps = eps_of(*[t.dtype for t in x])
    r = record_defects(x, lo, hi)
    if r is None:
        rec.count("record", clause, "out_of_domain")
        return
    wl, wr, where = r
    ok = max(wl, wr) <= tol_of(eps)
    rec.check("record", clause, ok, mech=f"record:{'stale_for_caller' if clause == 'caller_object' else 'false'}:{entry}",
              detail={"record": [int(lo), int(hi)], "L": L, "left_defect": wl, "right_defect": wr,
                      "site": where}, sig=(entry, clause, L, lo == hi))


def check_flags(rec, x, entry):
    if not hasattr(x, "tensor_map"):
        return
    # ``left_inds`` is an isometry claim only on the site tensors of a flat 1D
    # network (that is where tensor_canonize_bond trusts it as a shortcut); an
    # uncontracted gate tensor carries it as a mere orientation (input side), for
    # any matrix: networks with such extra tensors are not judged
    try:
        nsites = len(tuple(x.gen_sites_present()))
    except Exception:
        return
    if x.num_tensors != nsites:
        rec.count("flag", "isometric", "out_of_domain")
        return
    for t in x.tensor_map.values():
        li = t.left_inds
        if li is None or not isinstance(t.data, np.ndarray):
            continue
        a = to_numpy(t.data)
        axes = [t.inds.index(ix) for ix in li]
        rest = [k for k in range(a.ndim) if k not in axes]
        m = np.transpose(a, axes + rest).reshape(int(np.prod([a.shape[k] for k in axes])), -1)
        g = m.conj().T @ m
        d = float(np.abs(g - np.eye(g.shape[0])).max()) if g.size else 0.0
        rec.check("flag", "isometric", d <= tol_of(eps_of(a.dtype)),
                  mech=f"flag:left_inds_not_isometric:{entry}",
                  detail={"defect": d, "inds": list(map(str, t.inds)), "left_inds": list(map(str, li))},
                  sig=(entry, "flag"))


INFO_METHODS = [
    ("TensorNetwork1DFlat", "canonicalize"), ("TensorNetwork1DFlat", "compress_site"),
    ("TensorNetwork1DFlat", "singular_values"), ("TensorNetwork1DFlat", "swap_sites_with_compress"),
    ("TensorNetwork1DFlat", "swap_site_to"),
    ("MatrixProductState", "gate_with_auto_swap"), ("MatrixProductState", "gate_with_submpo"),
    ("MatrixProductState", "gate_nonlocal"), ("MatrixProductState", "magnetization"),
    ("MatrixProductState", "schmidt_values"), ("MatrixProductState", "entropy"),
    ("MatrixProductState", "schmidt_gap"), ("MatrixProductState", "bipartite_schmidt_state"),
    ("MatrixProductState", "measure"), ("MatrixProductState", "sample_configuration"),
    ("MatrixProductState", "partial_trace_to_dense_canonical"),
    ("MatrixProductState", "local_expectation_canonical"),
    ("MatrixProductState", "compute_local_expectation_canonical"),
    ("MatrixProductState", "gate_split"), ("MatrixProductState", "gate"),
    ("MatrixProductOperator", "gate_sandwich_with_auto_swap"),
]


def dense_state(x):
    r = vec_of(x)
    if not r:
        return None
    if not np.all(np.isfinite(r[0])) or not np.any(r[0]):
        return None       # NaN / zero state (e.g. after forcing an impossible outcome)
    return r


def install(rec):
    import quimb.tensor.tn1d.core as c1

    def mk(clsname, name):
        entry = f"{clsname}.{name}"
        cls = getattr(c1, clsname)
        raw = None
        for base in cls.__mro__:
            if name in vars(base):
                raw = vars(base)[name]
                break
        fn0 = getattr(raw, "__wrapped__", raw)
        try:
            sig = inspect.signature(fn0)
        except (TypeError, ValueError):
            sig = None

        def get_info(a, k):
            if "info" in k:
                return k["info"]
            if sig is not None:
                try:
                    ba = sig.bind_partial(*a, **{kk: vv for kk, vv in k.items() if kk in sig.parameters})
                    return ba.arguments.get("info")
                except TypeError:
                    return None
            return None

        def pre(self, *a, **k):
            if rec.depth("c08") > 0:
                return None
            info = get_info((self,) + a, k)
            snap = {"info": info, "dense": None}
            if name in CONSUMERS and flat_mps(self):
                snap["dense"] = dense_state(self)
                snap["phys"] = [self.phys_dim(i) for i in range(self.L)]
            return snap

        def post(s, out, self, *a, **k):
            info = s["info"]
            # which object does the record describe now?
            target = self
            cands = out if isinstance(out, tuple) else (out,)
            for c in cands:
                if hasattr(c, "tensor_map") and hasattr(c, "site_tag_id"):
                    target = c
                    break
            lazy = k.get("method") == "lazy" or k.get("contract") in (False, "split-gate", "swap-split-gate", "lazy")
            if isinstance(info, dict) and not lazy:
                if target is self and not k.get("inplace", False) and name in COPY_WORKERS \
                        and not (name == "measure" and k.get("get") != "outcome"):
                    # the method worked on a private copy and returned no
                    # network: the record still belongs to the receiver
                    check_record(rec, self, info, entry, clause="caller_object")
                else:
                    check_record(rec, target, info, entry)
            if hasattr(target, "tensor_map"):
                check_flags(rec, target, entry)
            if s["dense"] is not None and name in CONSUMERS:
                try:
                    CONSUMERS[name](rec, s, out, self, *a, **k)
                except _Skip:
                    rec.count("query", name, "out_of_domain")
        return attach.monitored(rec, entry, pre, post, fam="c08")

    for clsname, name in INFO_METHODS:
        cls = getattr(c1, clsname)
        if not hasattr(cls, name):
            rec.note("missing:" + clsname + "." + name)
            continue
        attach.install(cls, name, mk(clsname, name))


COPY_WORKERS = {"sample_configuration", "measure", "compute_local_expectation_canonical"}


class _Skip(Exception):
    pass


# ---------------------------------------------------------------------------
# consumer oracles: fn(rec, snap, out, self, *args, **kwargs)
# ---------------------------------------------------------------------------

def _sv_ref(s, i):
    v, sc, eps = s["dense"]
    m = v.reshape(int(np.prod(v.shape[:i])), -1)
    return np.linalg.svd(m, compute_uv=False), sc, eps


def _cmp_spectrum(rec, name, got, ref, sc, eps, power=1):
    got = np.sort(np.abs(np.asarray(to_numpy(got), dtype=float)))[::-1]
    ref = np.sort(ref ** power)[::-1]
    n = max(len(got), len(ref))
    g = np.zeros(n)
    r_ = np.zeros(n)
    g[:len(got)] = got
    r_[:len(ref)] = ref
    scale = max(float(r_[0]) if n else 0.0, 1e-300)
    tol = (2e-3 if eps > 1e-10 else 1e-8) * scale
    if power == 2:
        tol *= 2
    ok = bool(np.abs(g - r_).max() <= tol) if n else True
    rec.check("query", "value", ok, mech=f"query:{name}:value",
              detail={"err": float(np.abs(g - r_).max()) if n else 0.0, "scale": scale, "n": n},
              sig=(name, n))


def o_singular_values(rec, s, out, self, i, *a, **k):
    ref, sc, eps = _sv_ref(s, i)
    _cmp_spectrum(rec, "singular_values", out, ref, sc, eps, 1)


def o_schmidt_values(rec, s, out, self, i, *a, **k):
    ref, sc, eps = _sv_ref(s, i)
    _cmp_spectrum(rec, "schmidt_values", out, ref, sc, eps, 2)


def o_entropy(rec, s, out, self, i, *a, **k):
    ref, sc, eps = _sv_ref(s, i)
    S = ref ** 2
    nz = S[S > 1e-30]
    want = float(-(nz * np.log2(nz)).sum())
    scale = max(1.0, float(np.abs(nz * np.log2(nz)).sum()))
    tol = (5e-3 if eps > 1e-10 else 1e-7) * scale
    ok = abs(float(np.real(out)) - want) <= tol
    rec.check("query", "value", ok, mech="query:entropy:value",
              detail={"got": float(np.real(out)), "want": want}, sig=("entropy", len(S)))


def o_schmidt_gap(rec, s, out, self, i, *a, **k):
    ref, sc, eps = _sv_ref(s, i)
    S = np.sort(ref ** 2)[::-1]
    bond = len(to_numpy(site_t(self, i).data).shape) and None
    # the library returns S[0] when the *bond* has size one; with a padded
    # bond it returns S[0]-S[1] (S[1] may be ~0): both equal the dense value
    want = float(S[0] - (S[1] if len(S) > 1 else 0.0))
    tol = (5e-3 if eps > 1e-10 else 1e-7) * max(float(S[0]), 1e-300)
    rec.check("query", "value", abs(float(np.real(out)) - want) <= tol, mech="query:schmidt_gap:value",
              detail={"got": float(np.real(out)), "want": want}, sig=("schmidt_gap", len(S)))


def _embed_expect(v, ops, sites):
    """<v| prod ops_at_sites |v> for ndarray v with one axis per site"""
    w = v
    for O, q in zip(ops, sites):
        w = np.moveaxis(np.tensordot(O, w, axes=(1, q)), 0, q)
    return np.vdot(v, w)


def o_magnetization(rec, s, out, self, i, direction="Z", *a, **k):
    v, sc, eps = s["dense"]
    d = v.shape[i]
    sx, sy, sz = _spin_ops((d - 1) / 2)
    O = {"x": sx, "y": sy, "z": sz}[str(direction).lower()]
    want = _embed_expect(v, [O], [i])
    scale = float(np.vdot(v, v).real) * (d - 1) / 2
    tol = (5e-3 if eps > 1e-10 else 1e-8) * max(scale, 1e-300)
    got = complex(np.asarray(to_numpy(out)))
    ok = abs(got - want) <= tol
    why = "value"
    if not ok and abs(got + want) <= tol:
        why = "sign_flipped(transposed_operator)"
    rec.check("query", "value", ok, mech=f"query:magnetization:{why}",
              detail={"got": repr(got), "want": repr(complex(want)), "direction": str(direction), "d": d},
              sig=("magnetization", str(direction), d))


def _rho_ref(v, where):
    dims = list(v.shape)
    keep = list(where)
    order = sorted(keep)
    rho = rl.ptrace(v.reshape(-1, 1), dims, order)
    # reorder subsystems from sorted order to the order given
    n = len(keep)
    kd = [dims[q] for q in order]
    t = rho.reshape(kd + kd)
    perm = [order.index(q) for q in keep]
    t = np.transpose(t, perm + [n + p for p in perm])
    D = int(np.prod([dims[q] for q in keep]))
    return t.reshape(D, D)


def o_ptr_canonical(rec, s, out, self, where, normalized=True, *a, **k):
    v, sc, eps = s["dense"]
    where = (where,) if isinstance(where, (int, np.integer)) else tuple(where)
    if len(set(where)) != len(where):
        raise _Skip()
    rho = _rho_ref(v, where)
    tr = np.trace(rho)
    if normalized:
        rho = rho / tr
    got = np.asarray(to_numpy(out))
    scale = 1.0 if normalized else float(abs(tr))
    tol = (5e-3 if eps > 1e-10 else 1e-8) * scale
    if got.shape != rho.shape:
        rec.check("query", "value", False, mech="query:partial_trace_canonical:shape",
                  detail={"got": got.shape, "want": rho.shape})
        return
    err = float(np.abs(got - rho).max())
    why = "value"
    if err > tol and float(np.abs(got.T - rho).max()) <= tol:
        why = "transposed"
    rec.check("query", "value", err <= tol, mech=f"query:partial_trace_canonical:{why}",
              detail={"err": err, "where": list(map(int, where)), "normalized": normalized},
              sig=("ptr_canon", len(where), tuple(np.sign(np.diff(where))), normalized))
    herm = float(np.abs(got - got.conj().T).max())
    rec.check("query", "hermitian", herm <= tol, mech="query:partial_trace_canonical:not_hermitian",
              detail={"defect": herm})


def o_local_expec(rec, s, out, self, G, where, normalized=True, *a, **k):
    v, sc, eps = s["dense"]
    where = (where,) if isinstance(where, (int, np.integer)) else tuple(where)
    if len(set(where)) != len(where):
        raise _Skip()
    rho = _rho_ref(v, where)
    tr = np.trace(rho)
    if normalized:
        rho = rho / tr
    G = np.asarray(to_numpy(G))
    want = np.trace(G @ rho)
    scale = float(np.abs(G).max()) * (1.0 if normalized else float(abs(tr))) * G.shape[0]
    tol = (5e-3 if eps > 1e-10 else 1e-8) * max(scale, 1e-300)
    got = complex(np.asarray(to_numpy(out)))
    rec.check("query", "value", abs(got - want) <= tol, mech="query:local_expectation_canonical:value",
              detail={"got": repr(got), "want": repr(complex(want)), "where": list(map(int, where))},
              sig=("local_expec", len(where), normalized))


def o_compute_local(rec, s, out, self, terms, normalized=True, return_all=False, *a, **k):
    v, sc, eps = s["dense"]
    tot = 0.0
    each = {}
    scale = 0.0
    for where, G in terms.items():
        w = (where,) if isinstance(where, (int, np.integer)) else tuple(where)
        rho = _rho_ref(v, w)
        tr = np.trace(rho)
        if normalized:
            rho = rho / tr
        G = np.asarray(to_numpy(G))
        each[where] = np.trace(G @ rho)
        tot = tot + each[where]
        scale += float(np.abs(G).max()) * (1.0 if normalized else float(abs(tr))) * G.shape[0]
    tol = (5e-3 if eps > 1e-10 else 1e-8) * max(scale, 1e-300)
    if return_all:
        ok = set(out) == set(each) and all(abs(complex(out[w]) - each[w]) <= tol for w in each)
    else:
        ok = abs(complex(np.asarray(to_numpy(out))) - tot) <= tol
    rec.check("query", "value", ok, mech="query:compute_local_expectation_canonical:value",
              detail={"n": len(terms), "return_all": return_all}, sig=("compute_local", len(terms), return_all))


def o_measure(rec, s, out, self, site, remove=False, outcome=None, renorm=True, info=None,
              get=None, seed=None, backend_random="numpy", inplace=False, cur_orthog=None):
    v, sc, eps = s["dense"]
    n2 = float(np.vdot(v, v).real)
    if n2 <= 0:
        raise _Skip()
    o = out if get == "outcome" else out[0]
    o = int(o)
    d = v.shape[site]
    probs = np.array([float(np.vdot(np.take(v, j, axis=site), np.take(v, j, axis=site)).real) / n2
                      for j in range(d)])
    tolp = 5e-3 if eps > 1e-10 else 1e-9
    if outcome is None:
        rec.check("measure", "support", 0 <= o < d and probs[o] > tolp * 1e-3,
                  mech="measure:outcome_has_zero_probability",
                  detail={"outcome": o, "probs": probs.tolist()}, sig=("measure_support", d))
    else:
        rec.check("measure", "support", o == int(outcome), mech="measure:forced_outcome_not_returned",
                  detail={"outcome": o, "forced": int(outcome)})
    if get == "outcome":
        return
    psi = out[1]
    if probs[o] < 1e-6:
        raise _Skip()    # forced outcome of (nearly) zero probability: renormalisation is ill-defined
    proj = np.take(v, o, axis=site)
    if renorm:
        proj = proj / np.sqrt(probs[o])
    if not remove:
        full = np.zeros_like(v)
        idx = [slice(None)] * v.ndim
        idx[site] = o
        full[tuple(idx)] = proj
        proj = full
    okL = psi.L == (self.L if inplace and not remove else len(s["phys"])) - (1 if remove else 0) \
        if not inplace else psi.L == len(s["phys"]) - (1 if remove else 0)
    rec.check("measure", "geometry", okL and psi.num_tensors == psi.L, mech="measure:geometry",
              detail={"L": psi.L, "tensors": psi.num_tensors, "remove": remove, "site": site})
    r = vec_of(psi)
    if r is GEOM:
        rec.check("measure", "geometry", False, mech="measure:site_indices",
                  detail={"outer": list(map(str, psi.outer_inds()))[:10], "remove": remove, "site": site})
        return
    if r is None:
        return
    scale = float(np.abs(proj).max()) if proj.size else 0.0
    ok, err, bound = close(r[0], proj, max(scale, r[1]), eps, 1e5, rel=1e-7 if eps < 1e-10 else 2e-3)
    rec.check("measure", "state", ok, mech="measure:post_state",
              detail={"err": err, "bound": bound, "site": site, "outcome": o, "remove": remove,
                      "renorm": renorm}, sig=("measure", v.shape, site, remove, renorm))


def o_sample(rec, s, out, self, *a, **k):
    v, sc, eps = s["dense"]
    config, omega = out
    n2 = float(np.vdot(v, v).real)
    if n2 <= 0:
        raise _Skip()
    amp = v[tuple(int(c) for c in config)]
    p = float(abs(amp) ** 2) / n2
    tol = (5e-3 if eps > 1e-10 else 1e-8)
    rec.check("sample", "support", p > 0, mech="sample:configuration_has_zero_probability",
              detail={"config": [int(c) for c in config], "p": p})
    rec.check("sample", "omega", abs(float(omega) - p) <= tol * max(p, 1e-12) + (1e-7 if eps > 1e-10 else 1e-14),
              mech="sample:omega_not_probability",
              detail={"omega": float(omega), "p": p, "config": [int(c) for c in config]},
              sig=("sample", v.shape))


def o_bipartite(rec, s, out, self, sz_a, get="ket", *a, **k):
    ref, sc, eps = _sv_ref(s, sz_a)
    if "dense" in get:
        arr = np.asarray(to_numpy(out))
        sv = np.abs(arr.reshape(-1)) if "ket" in get else np.sqrt(np.abs(np.diag(arr)))
        if "rho" in get:
            # rho = |s><s| with s the vectorised diagonal matrix
            sv = sv
        n = int(round(np.sqrt(len(sv)))) if "ket" in get or "rho" in get else len(sv)
        sv = np.sort(sv)[::-1][:len(ref)] if len(sv) >= len(ref) else np.sort(sv)[::-1]
    else:
        t = out if hasattr(out, "data") and not hasattr(out, "tensor_map") else None
        if t is None:
            return
        sv = np.abs(np.diag(to_numpy(t.data)))
    _cmp_spectrum(rec, "bipartite_schmidt_state", sv, ref[:max(len(sv), 1)] if len(sv) < len(ref) and
                  float(np.abs(ref[len(sv):]).max(initial=0.0)) < 1e-8 * max(ref[0], 1e-300) else ref, sc, eps, 1)


CONSUMERS = {
    "singular_values": o_singular_values,
    "schmidt_values": o_schmidt_values,
    "entropy": o_entropy,
    "schmidt_gap": o_schmidt_gap,
    "magnetization": o_magnetization,
    "partial_trace_to_dense_canonical": o_ptr_canonical,
    "local_expectation_canonical": o_local_expec,
    "compute_local_expectation_canonical": o_compute_local,
    "measure": o_measure,
    "sample_configuration": o_sample,
    "bipartite_schmidt_state": o_bipartite,
}


# ---------------------------------------------------------------------------
# workloads
# ---------------------------------------------------------------------------

def rand_unitary(rng, d, dtype="complex128"):
    a = rng.normal(size=(d, d)) + (1j * rng.normal(size=(d, d)) if "complex" in dtype else 0)
    q, r = np.linalg.qr(a)
    q = q * (np.diag(r) / np.abs(np.diag(r)))
    return q.astype(dtype)


def wl_history(rng, rec, tier):
    import quimb.tensor as qtn
    L = int(rng.integers(2, 8))
    x, phys = rand_mps(rng, L, maxd=5)
    x.exponent = 0.0      # the canonical-form consumers are defined on the tensors
    uniform = len(set(phys)) == 1
    if rng.random() < 0.6:
        gen.attempt(x.normalize)
    dtype = str(x.dtype)
    cdt = "complex128" if "128" in dtype or "64" == dtype[-2:] and "float" in dtype else "complex64"
    cdt = {"float64": "float64", "complex128": "complex128", "float32": "float32", "complex64": "complex64"}[dtype]
    info = {}
    if rng.random() < 0.3:
        info["cur_orthog"] = "calc"
    nops = int(rng.integers(4, 26))
    names = []
    state = {"rejected": False}

    def att(fn, *a, **k):
        r = gen.attempt2(fn, *a, **k)
        if r is gen.REJECTED:
            # a rejected in-place operation may have stopped half way: the
            # history ends here (the library promises no roll-back)
            state["rejected"] = True
            return None
        return r

    nviol0 = len(rec.violations)
    for _ in range(nops):
        if state["rejected"] or len(rec.violations) > nviol0:
            break
        L = x.L
        if L < 2:
            break
        op = gen.choice(rng, OPS)
        names.append(op)
        i = int(rng.integers(0, L))
        j = int(rng.integers(0, L))
        out = None
        if op == "canonicalize":
            w = i if rng.random() < 0.5 else (min(i, j), max(i, j))
            if rng.random() < 0.5:
                att(x.canonicalize_, w, info=info)
            else:
                out = att(x.canonicalize, w, info=info)
        elif op == "compress_site":
            kw = {}
            if rng.random() < 0.4:
                kw["max_bond"] = int(rng.integers(1, 5))
            att(x.compress_site, i, info=info, **kw)
        elif op == "gate1":
            d = phys[i] if i < len(phys) else x.phys_dim(i)
            d = x.phys_dim(i)
            U = rand_unitary(rng, d, cdt)
            out = att(x.gate, U, i, contract=True, info=info)
        elif op == "gate1_nonunitary":
            # a non-unitary one-site operator (projector / exp(-tau h)) contracted
            # into a site away from the centre voids the caller's record - the
            # caller drops it - but no tensor may stay *flagged* isometric
            d = x.phys_dim(i)
            G = gen.rand_array(rng, (d, d), cdt)
            out = att(x.gate, G, i, contract=True)
            info.clear()
            info["cur_orthog"] = "calc" if rng.random() < 0.5 else None
        elif op in ("gate2_swap", "gate2_nonlocal", "gate2_auto"):
            if i == j:
                continue
            d1, d2 = x.phys_dim(i), x.phys_dim(j)
            U = rand_unitary(rng, d1 * d2, cdt)
            if rng.random() < 0.25:
                U = gen.rand_array(rng, (d1 * d2, d1 * d2), cdt)   # non-unitary is fine in these modes
            kw = {}
            if rng.random() < 0.3:
                kw["max_bond"] = int(rng.integers(2, 6))
            if rng.random() < 0.3:
                kw["cutoff"] = 0.0
            if op == "gate2_swap":
                if d1 != d2:
                    continue
                out = att(x.gate_with_auto_swap, U, (i, j), info=info, **kw)
            elif op == "gate2_nonlocal":
                m = gen.choice(rng, ["direct", "dm", "zipup", "fit"])
                if rng.random() < 0.3:
                    kw["sweep_reverse"] = True
                if m == "fit":
                    kw.setdefault("max_bond", 32)
                out = att(x.gate_nonlocal, U, (i, j), method=m, info=info, **kw)
            else:
                mode = gen.choice(rng, ["swap+split", "nonlocal", "auto-mps"])
                if mode == "swap+split" and d1 != d2:
                    continue
                out = att(x.gate, U, (i, j), contract=mode, info=info, **kw)
        elif op == "gate_split":
            if L < 2:
                continue
            i = int(rng.integers(0, L - 1))
            w = (i, i + 1) if rng.random() < 0.6 else (i + 1, i)
            U = rand_unitary(rng, x.phys_dim(i) * x.phys_dim(i + 1), cdt)
            # gate_split does not take a record: move the centre there first
            att(x.canonicalize_, (i, i + 1), info=info)
            ab = gen.choice(rng, ["right", "left"])
            r_ = att(x.gate_split_, U, w, absorb=ab, cutoff=0.0)
            if r_ is not None:
                # caller's knowledge: centre now at the absorbing site
                lo = min(w) if ab == "left" else max(w)
                # absorb refers to the order of `where`
                c = w[0] if ab == "left" else w[1]
                info["cur_orthog"] = (c, c)
        elif op == "swap":
            if i == j or x.phys_dim(i) != x.phys_dim(j) and abs(i - j) != 1:
                continue
            if abs(i - j) == 1:
                out = att(x.swap_sites_with_compress, i, j, info=info, cutoff=0.0)
            else:
                out = att(x.swap_site_to, i, j, info=info, cutoff=0.0)
        elif op == "submpo":
            n = int(rng.integers(2, min(L, 3) + 1)) if rng.random() < 0.9 else 1
            sites = sorted(int(q) for q in rng.choice(L, size=n, replace=False))
            if len({x.phys_dim(q) for q in sites}) != 1:
                continue
            d = x.phys_dim(sites[0])
            M = rand_unitary(rng, d ** n, cdt)
            A = att(qtn.MatrixProductOperator.from_dense, M, dims=d, sites=sites, L=L, cutoff=0.0)
            if A is None:
                continue
            kw = {"method": gen.choice(rng, ["direct", "dm", "zipup", "fit", "src"]) if n > 1 else "direct"}
            if rng.random() < 0.3:
                kw["sweep_reverse"] = True
            if kw["method"] in ("fit", "src"):
                kw["max_bond"] = 32
            out = att(x.gate_with_submpo, A, info=info, **kw)
        elif op == "measure":
            kw = {"remove": bool(rng.random() < 0.35) and L > 2}
            if rng.random() < 0.5:
                # force an outcome that is possible (an impossible one divides by zero)
                rec.busy = True
                try:
                    r0 = vec_of(x)
                finally:
                    rec.busy = False
                if not r0:
                    continue
                pr = np.array([float(np.linalg.norm(np.take(r0[0], q_, axis=i)) ** 2)
                               for q_ in range(x.phys_dim(i))])
                if not np.all(np.isfinite(pr)) or pr.sum() <= 0:
                    break
                okq = [q_ for q_ in range(len(pr)) if pr[q_] > 1e-3 * pr.sum()]
                kw["outcome"] = int(gen.choice(rng, okq))
            else:
                kw["seed"] = int(rng.integers(1 << 30))
            if rng.random() < 0.2:
                kw["renorm"] = False
            if rng.random() < 0.15:
                kw["get"] = "outcome"
            if rng.random() < 0.5:
                kw["inplace"] = True
            r_ = att(x.measure, i, info=info, **kw)
            if r_ is not None and kw.get("get") != "outcome":
                out = r_[1]
        elif op == "sample":
            if rng.random() < 0.5:
                att(x.sample_configuration, seed=int(rng.integers(1 << 30)), info=info)
            else:
                att(lambda: list(x.sample(2, seed=int(rng.integers(1 << 30)), info=info)))
        elif op == "query":
            q = gen.choice(rng, ["singular_values", "schmidt_values", "entropy", "schmidt_gap",
                                 "magnetization", "ptr", "expec", "compute", "bipartite"])
            b = int(rng.integers(1, L))
            if q in ("singular_values", "schmidt_values", "entropy", "schmidt_gap"):
                att(getattr(x, q), b, info=info)
            elif q == "magnetization":
                att(x.magnetization, i, gen.choice(rng, ["X", "Y", "Z"]), info=info)
            elif q == "bipartite":
                att(x.bipartite_schmidt_state, b, get=gen.choice(rng, ["ket", "ket-dense"]), info=info)
            else:
                w = (i,) if (i == j or rng.random() < 0.4) else (i, j)
                D = int(np.prod([x.phys_dim(q_) for q_ in w]))
                if D > 16:
                    continue
                G = gen.rand_array(rng, (D, D), "complex128")
                nrm = bool(rng.random() < 0.7)
                if q == "ptr":
                    att(x.partial_trace_to_dense_canonical, w if len(w) > 1 or rng.random() < 0.5 else w[0],
                                normalized=nrm, info=info)
                elif q == "expec":
                    att(x.local_expectation_canonical, G, w, normalized=nrm, info=info)
                else:
                    terms = {w: G}
                    k2 = int(rng.integers(0, L))
                    terms[(k2,)] = gen.rand_array(rng, (x.phys_dim(k2),) * 2, "complex128")
                    att(x.compute_local_expectation_canonical, terms, normalized=nrm,
                                return_all=bool(rng.random() < 0.5), info=info,
                                inplace=bool(rng.random() < 0.5))
        if out is not None and hasattr(out, "tensor_map"):
            x = out
        if state["rejected"]:
            break     # (an exception may leave the record and the object out of step)
        # quiescent point: the record the caller holds vs the object it holds
        rec.busy = True
        try:
            check_record(rec, x, info, "history:" + op, clause="caller_object")
            check_flags(rec, x, "history:" + op)
        finally:
            rec.busy = False
    return {"L0": len(phys), "dtype": dtype, "ops": names[:30]}


OPS = ["canonicalize", "canonicalize", "compress_site", "gate1", "gate1_nonunitary", "gate2_swap", "gate2_nonlocal",
       "gate2_auto", "gate_split", "swap", "submpo", "measure", "sample", "query", "query", "query"]


def wl_queries(rng, rec, tier):
    """consumers on fresh states with no record / 'calc' / wrong-but-unused records"""
    L = int(rng.integers(2, 8))
    x, phys = rand_mps(rng, L, maxd=5)
    x.exponent = 0.0
    if rng.random() < 0.7:
        gen.attempt(x.normalize)
    for _ in range(4):
        i = int(rng.integers(0, L))
        b = int(rng.integers(1, L))
        q = gen.choice(rng, ["singular_values", "entropy", "schmidt_gap", "magnetization", "ptr", "measure", "sample"])
        kw = {}
        r = rng.random()
        if r < 0.3:
            kw["info"] = {}
        elif r < 0.5:
            kw["info"] = {"cur_orthog": "calc"}
        elif r < 0.6:
            kw["cur_orthog"] = "calc" if q != "ptr" and q != "sample" else None
            if kw["cur_orthog"] is None:
                kw.pop("cur_orthog")
        if q in ("singular_values", "entropy", "schmidt_gap"):
            gen.attempt(getattr(x, q), b, **kw)
        elif q == "magnetization":
            gen.attempt(x.magnetization, i, gen.choice(rng, ["X", "Y", "Z"]), **kw)
        elif q == "ptr":
            j = int(rng.integers(0, L))
            w = (i, j) if i != j else (i,)
            if int(np.prod([x.phys_dim(q_) for q_ in w])) <= 16:
                gen.attempt(x.partial_trace_to_dense_canonical, w, normalized=bool(rng.random() < 0.5), **kw)
        elif q == "measure":
            gen.attempt(x.measure, i, seed=int(rng.integers(1 << 30)), remove=bool(rng.random() < 0.3) and L > 2, **kw)
        else:
            gen.attempt(x.sample_configuration, seed=int(rng.integers(1 << 30)), **kw)
    return {"L": L}


def wl_circuit(rng, rec, tier):
    """the record that the MPS circuit classes thread through their gates
    (gate_opts['info']) vs the state they hold, after every circuit call"""
    import quimb.tensor as qtn
    from . import c07
    N = int(rng.integers(2, 7))
    kind = gen.choice(rng, ["CircuitMPS", "CircuitMPS", "CircuitPermMPS"])
    kw = {}
    if rng.random() < 0.5:
        kw["cutoff"] = 0.0
    if kind == "CircuitMPS" and rng.random() < 0.4:
        kw["gate_contract"] = gen.choice(rng, ["auto-mps", "swap+split", "nonlocal"])
    if rng.random() < 0.2:
        kw["convert_eager"] = False
    circ = gen.attempt2(getattr(qtn, kind), N, **kw)
    if circ is gen.REJECTED:
        return {"rejected": True}
    circs = [circ]
    names = []
    for step in range(int(rng.integers(2, 25))):
        c = gen.choice(rng, circs)
        r = rng.random()
        if r < 0.6:
            g = c07.rand_gate(rng, N)
            res = c07.do_gate(c, g, rng)
            names.append("gate")
            if res is gen.REJECTED:
                # documented: a rejected gate leaves the circuit as it was
                names.append("rejected")
        elif r < 0.9:
            c07.do_query(c, rng, N, False)
            names.append("query")
        elif len(circs) < 3:
            c2 = gen.attempt2(c.copy)
            if c2 is not gen.REJECTED:
                circs.append(c2)
                names.append("copy")
        rec.busy = True
        try:
            for cc in circs:
                check_record(rec, cc._psi, cc.gate_opts.get("info"), "circuit:" + kind, clause="caller_object")
        finally:
            rec.busy = False
    return {"kind": kind, "N": N, "ops": names[:30]}


WORKLOADS = [
    ("history", 6, wl_history),
    ("queries", 2, wl_queries),
    ("circuit", 2, wl_circuit),
]
