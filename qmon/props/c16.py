"""C16 - threaded / parallel kernels give the serial answer.

O1 exhaustive partition arithmetic on the real jitted helpers,
O2 differential monitors (threaded routine vs numpy serial reference),
O3 instrumented thread pool: every future submitted during a monitored call
   must have completed without exception (quimb's cf.wait never looks)."""

import functools
import threading

import os

import numpy as np

from .. import attach, gen
from ..core import close
from ..ref import linalg as rl

PROP = "C16"
NCASES = {"quick": 6000, "thorough": 200000}
BUDGET = {"quick": 60, "thorough": 900}
RULE = ("(a) partition grid size_total x target_block_size x num_threads on the "
        "real helpers; (b) threaded routines with thread counts 1..33, block sizes "
        "positive/negative/tiny, sizes from 1 (below the thread count) up; a case "
        "is non-trivial when num_threads>1 and the threaded path was taken; "
        "distinct = (routine, size, threads, block size, dtype) signatures")
ASSUMPTIONS = [
    "schedules are those the OS produces (nogil numba kernels cannot be "
    "instrumented): equality with the serial reference + exact tiling of the "
    "partition is what is decided, not race freedom",
    "elementwise kernels are compared bit-exactly, row sums to 1e3*eps*scale",
]
DECIDING = [("partition", "tiling"), ("complex_array", "value"),
            ("par_dot_csr_matvec", "value"), ("kron_dense", "value"),
            ("builder", "parallel_equals_serial"), ("futures", "no_exception")]
EXTRA_MODES = [("boundscheck", {"NUMBA_BOUNDSCHECK": "1"})]
MANIFEST = dict(
    technique="exhaustive enumeration of the real partition helpers over a bounded grid + differential runtime monitors (threaded vs numpy serial) + instrumented thread pool that surfaces swallowed future exceptions; NUMBA_BOUNDSCHECK pass in thorough",
    text="The real threading_choose_num_blocks/threading_get_block_range are driven over a grid (sizes 0..200, |block| in 1..40,128,1024 both signs, threads 1..33) and the emulated per-thread loops must tile range(size) exactly once. Every threaded routine (complex_array, phase_to_complex, subtract/divide_update_, par_dot_csr_matvec, l/r_diag_dot_dense, outer, kron_dense, par_reduce/kron(parallel), randn(num_threads), SparseOperatorBuilder build/matvec(parallel=k)) is compared with a numpy serial reference for thread counts up to 33 and sizes below the thread count, and every future it submitted must be exception-free.",
    note="Only OS-produced schedules are observed (see DESIGN 2); thorough tier repeats under CPU oversubscription and NUMBA_BOUNDSCHECK=1. Trusted: numpy serial references.",
    ref="3/C16")

EPS = 2.3e-16


# ---------------------------------------------------------------------------
# instrumented pool (O3)
# ---------------------------------------------------------------------------

class FutureLog:
    """futures keyed by the SUBMITTING thread: a monitored call only inspects
    what it (its own thread) submitted, never the future it is running in"""

    def __init__(self):
        self.lock = threading.Lock()
        self.futs = {}

    def add(self, f):
        with self.lock:
            self.futs.setdefault(threading.get_ident(), []).append(f)

    def drain(self):
        with self.lock:
            return self.futs.pop(threading.get_ident(), [])


FLOG = FutureLog()


def install(rec):
    import quimb as qu
    from quimb import core
    import concurrent.futures as cf

    # every pool handed out records what is submitted to it
    orig_submit = cf.ThreadPoolExecutor.submit

    @functools.wraps(orig_submit)
    def submit(self, fn, *a, **k):
        f = orig_submit(self, fn, *a, **k)
        FLOG.add(f)
        return f

    cf.ThreadPoolExecutor.submit = submit

    def check_futures(entry, detail):
        fs = FLOG.drain()
        bad = []
        for f in fs:
            try:
                e = f.exception(timeout=60)
            except Exception as ex:  # noqa
                e = ex
            if e is not None:
                bad.append(type(e).__name__)
        if fs:
            rec.check("futures", "no_exception", not bad,
                      mech=f"futures:swallowed_exception:{entry}:{bad[0] if bad else ''}",
                      detail=dict(detail, errors=bad[:3], nfut=len(fs)),
                      sig=(entry, len(fs)))
        return not bad

    def mon(entry, owner, name, ref_fn, exact=True, inplace_arg=None):
        """ref_fn(*copied_args, **kw) -> expected result (ndarray)"""

        def pre(*a, **k):
            FLOG.drain()
            ca = [np.array(x, copy=True) if isinstance(x, np.ndarray) else x for x in a]
            return {"args": ca}

        def post(snap, result, *a, **k):
            kk = {x: v for x, v in k.items()
                  if x not in ("num_threads", "target_block_size")}
            want = ref_fn(*snap["args"], **kk)
            got = a[inplace_arg] if inplace_arg is not None else result
            got = rl.dense(got)
            detail = {"num_threads": k.get("num_threads"),
                      "target_block_size": k.get("target_block_size"),
                      "shape": list(np.shape(got))}
            fut_ok = check_futures(entry, detail)
            sig = (entry, np.shape(got), k.get("num_threads"),
                   k.get("target_block_size"), str(got.dtype))
            if got.shape != np.shape(want):
                rec.check(entry, "value", False, mech=f"{entry}:value:shape",
                          detail=detail)
                return
            if exact:
                ok = bool(np.array_equal(got, want, equal_nan=True))
                err = float(np.max(np.abs(got - want))) if got.size and not ok else 0.0
            else:
                sc = float(np.abs(want).max()) if want.size else 0.0
                eps = 1.2e-7 if got.dtype in (np.float32, np.complex64) else EPS
                if got.dtype in (np.float32, np.complex64) and np.asarray(want).dtype.itemsize >= 8 \
                        and np.asarray(want).dtype.kind in "iufc" and np.asarray(want).dtype not in (np.float32, np.complex64):
                    # the single-threaded form works in (at least) double precision / exact
                    # integers for these operands: the threaded one is held to that
                    eps = EPS
                ok, err, _ = close(got, want, sc, eps, 1e3)
            mech = f"{entry}:value"
            if not ok and not fut_ok:
                mech += ":after_swallowed_exception"
            rec.check(entry, "value", ok, mech=mech, detail=dict(detail, err=err),
                      sig=sig)

        attach.install(owner, name, attach.monitored(rec, entry, pre, post, fam=entry))

    def cplx(x, y):
        return (x + 1j * y).astype("complex64" if x.dtype == np.float32 else "complex128")

    def phase(x):
        return (np.cos(x) + 1j * np.sin(x)).astype(
            "complex64" if x.dtype == np.float32 else "complex128")

    mon("complex_array", core, "complex_array", cplx)
    mon("phase_to_complex", core, "phase_to_complex", phase, exact=False)
    mon("subtract_update_", core, "subtract_update_", lambda X, c, Y: X - c * Y,
        exact=False, inplace_arg=0)
    mon("divide_update_", core, "divide_update_", lambda X, c, out: X / c,
        exact=False, inplace_arg=2)
    mon("par_dot_csr_matvec", core, "par_dot_csr_matvec",
        lambda A, x: (A.toarray() @ np.asarray(x).reshape(-1)).reshape(
            (A.shape[0],) + tuple(np.shape(x)[1:])),
        exact=False)
    mon("l_diag_dot_dense", core, "l_diag_dot_dense",
        lambda d, m: np.asarray(d).reshape(-1, 1) * np.asarray(m), exact=False)
    mon("r_diag_dot_dense", core, "r_diag_dot_dense",
        lambda m, d: np.asarray(m) * np.asarray(d).reshape(1, -1), exact=False)
    mon("outer", core, "outer",
        lambda a, b: np.outer(np.asarray(a).reshape(-1), np.asarray(b).reshape(-1)),
        exact=False)
    mon("kron_dense", core, "kron_dense",
        lambda a, b: np.kron(np.asarray(a), np.asarray(b)), exact=False)
    rec._c16_check_futures = check_futures


# ---------------------------------------------------------------------------
# workloads
# ---------------------------------------------------------------------------

THREADS = [1, 2, 3, 5, 8, 16, 33]
BLOCKS = [1, 2, 3, 7, 16, 128, -1, -2, -5, -16, -128, -1024]


def wl_partition(rng, rec, tier):
    """O1: a slab of the exhaustive grid (the union over case indices covers
    the whole grid several times per run)"""
    from quimb import core
    sizes = list(range(0, 201))
    tbs = [s * b for s in (1, -1) for b in list(range(1, 41)) + [128, 1024]]
    nts = list(range(1, 34))
    # pick a (size, threads) pair deterministically from the case index
    idx = rec.case["idx"]
    combos = len(sizes) * len(nts)
    c = (idx * 7919) % combos
    size = sizes[c % len(sizes)]
    nt = nts[c // len(sizes)]
    nbad = 0
    for tb in tbs:
        sig = (size, tb, nt)
        try:
            nb, base, remn = core.threading_choose_num_blocks(size, tb, nt)
        except ZeroDivisionError:
            if size == 0:
                rec.count("partition", "tiling", "out_of_domain")
                continue
            rec.check("partition", "tiling", False,
                      mech="partition:tiling:zero_blocks",
                      detail={"size_total": size, "target_block_size": tb,
                              "num_threads": nt})
            nbad += 1
            continue
        cover = np.zeros(size, dtype=np.int64)
        okint = float(nb) == int(nb) and float(base) == int(base) and float(remn) == int(remn)
        nb_i = int(nb)
        for rank in range(nt):
            for b in range(rank, nb_i, nt):
                s, e = core.threading_get_block_range(b, base, remn)
                if float(s) != int(s) or float(e) != int(e) or s < 0 or e > size:
                    okint = False
                    continue
                cover[int(s):int(e)] += 1
        ok = okint and nb_i >= 1 and bool(np.all(cover == 1))
        rec.check("partition", "tiling", ok, mech="partition:tiling:not_exact_cover",
                  detail={"size_total": size, "target_block_size": tb,
                          "num_threads": nt, "num_blocks": float(nb),
                          "min_cover": int(cover.min()) if size else None,
                          "max_cover": int(cover.max()) if size else None},
                  sig=sig)
    return {"size_total": size, "num_threads": nt, "blocks_tried": len(tbs)}


def _sz(rng):
    r = rng.random()
    if r < 0.35:
        return int(rng.integers(1, 12))
    if r < 0.8:
        return int(rng.integers(12, 400))
    return int(rng.integers(400, 5000))


def wl_kernels(rng, rec, tier):
    import quimb as qu
    from quimb import core
    import scipy.sparse as sp
    nt = int(gen.choice(rng, THREADS))
    tb = int(gen.choice(rng, BLOCKS))
    which = gen.choice(rng, ["complex_array", "phase_to_complex", "subtract_update_",
                             "divide_update_", "par_dot_csr_matvec", "l_diag",
                             "r_diag", "outer", "kron_dense"])
    n = _sz(rng)
    f32 = rng.random() < 0.25
    kw = {"num_threads": nt, "target_block_size": tb}
    reps = 1 if tier == "quick" else 5
    for _ in range(reps):
        if which == "complex_array":
            x = rng.standard_normal(n).astype("float32" if f32 else "float64")
            y = rng.standard_normal(n).astype(x.dtype)
            gen.attempt(core.complex_array, x, y, **kw)
        elif which == "phase_to_complex":
            shape = (n,) if rng.random() < 0.6 else (max(n // 7, 1), 7)
            x = rng.standard_normal(shape).astype("float32" if f32 else "float64")
            gen.attempt(core.phase_to_complex, x, **kw)
        elif which == "subtract_update_":
            m = int(rng.integers(1, 5))
            shape = (n,) if rng.random() < 0.5 else (n, m)
            X = gen.rand_array(rng, shape, "complex128")
            Y = gen.rand_array(rng, shape, "complex128")
            gen.attempt(core.subtract_update_, X, 0.37 - 0.2j, Y, **kw)
        elif which == "divide_update_":
            m = int(rng.integers(1, 5))
            shape = (n,) if rng.random() < 0.5 else (n, m)
            X = gen.rand_array(rng, shape, "complex128")
            out = np.full(shape, np.nan + 0j)
            gen.attempt(core.divide_update_, X, 1.7 + 0.1j, out, **kw)
        elif which == "par_dot_csr_matvec":
            nn = min(n, 1500)
            dens = min(1.0, 6.0 / nn)
            mm = nn
            if rng.random() < 0.4:
                # rectangular operators (row slabs of a distributed matrix, isometries)
                mm = nn + int(rng.integers(1, max(2, nn))) if rng.random() < 0.5 else int(rng.integers(1, nn + 1))
            A = sp.random(mm, nn, density=dens, format="csr",
                          random_state=int(rng.integers(1 << 30)), dtype=float)
            if rng.random() < 0.5:
                A = A + 1j * sp.random(mm, nn, density=dens, format="csr",
                                       random_state=int(rng.integers(1 << 30)))
                A = A.tocsr()
            x = gen.rand_array(rng, (nn, 1) if rng.random() < 0.5 else (nn,), "complex128")
            if rng.random() < 0.15:
                # integer operands (adjacency / counting matrices): exact arithmetic,
                # values well beyond single precision
                A = sp.random(mm, nn, density=dens, format="csr", random_state=int(rng.integers(1 << 30)),
                              data_rvs=lambda size: rng.integers(1, 100000, size=size)).astype(np.int64)
                x = rng.integers(1, 100000, size=(nn,)).astype(np.int64)
            gen.attempt(core.par_dot_csr_matvec, A, x, **kw)
        elif which == "l_diag":
            nn = min(n, 600)
            m = int(rng.integers(1, 9))
            gen.attempt(core.l_diag_dot_dense, gen.rand_array(rng, (nn,), "complex128"),
                        gen.rand_array(rng, (nn, m), "complex128"), **kw)
        elif which == "r_diag":
            nn = min(n, 600)
            m = int(rng.integers(1, 9))
            gen.attempt(core.r_diag_dot_dense, gen.rand_array(rng, (nn, m), "complex128"),
                        gen.rand_array(rng, (m,), "complex128"), **kw)
        elif which == "outer":
            nn = min(n, 600)
            m = int(rng.integers(1, 9))
            gen.attempt(core.outer, gen.rand_array(rng, (nn,), "complex128"),
                        gen.rand_array(rng, (m,), "complex128"), **kw)
        else:
            a = gen.rand_array(rng, (int(rng.integers(1, 40)), int(rng.integers(1, 6))),
                               "complex128")
            b = gen.rand_array(rng, (int(rng.integers(1, 6)), int(rng.integers(1, 6))),
                               "complex128")
            gen.attempt(core.kron_dense, a, b, **kw)
    return {"which": which, "n": n, "num_threads": nt, "target_block_size": tb}


def wl_par_reduce(rng, rec, tier):
    import quimb as qu
    from quimb import core
    k = int(rng.integers(1, 8))
    ops = [gen.rand_array(rng, (int(rng.integers(1, 4)),) * 2, "complex128")
           for _ in range(k)]
    nt = int(gen.choice(rng, THREADS))
    FLOG.drain()
    want = rl.kron_all(ops)
    try:
        got = core.par_reduce(core.kron_dispatch, ops, num_threads=nt)
    except Exception:
        rec.count("par_reduce", "value", "rejected")
        return {"k": k, "nt": nt, "rejected": True}
    rec._c16_check_futures("par_reduce", {"k": k, "num_threads": nt})
    sc = float(np.abs(want).max())
    ok, err, _ = close(rl.dense(got), want, sc, EPS, 1e3)
    rec.check("par_reduce", "value", ok, mech="par_reduce:value",
              detail={"k": k, "num_threads": nt, "err": err},
              sig=(tuple(o.shape for o in ops), nt))
    # sum-reduce: order must not matter for an associative op on exact ints
    seq = [int(x) for x in rng.integers(-50, 50, size=int(rng.integers(1, 40)))]
    got = core.par_reduce(lambda a, b: a + b, seq, num_threads=nt)
    rec.check("par_reduce", "sum", got == sum(seq), mech="par_reduce:sum",
              detail={"n": len(seq), "num_threads": nt}, sig=(len(seq), nt, "sum"))
    desc = {"k": k, "num_threads": nt}
    if rng.random() < 0.04:
        # bounded progress: a parallel Kronecker product of a few larger operands with
        # a small worker count must finish (nested use of the one cached pool); run in
        # a child process so that a hang is an observation, not the end of the shard
        import subprocess
        import sys
        nw = int(gen.choice(rng, [2, 2, 3]))
        nk = 4 if nw == 2 else 6
        dim = int(rng.integers(12, 17))
        code = (
            "import numpy as np, quimb as qu\n"
            f"rng = np.random.default_rng({int(rng.integers(1 << 30))})\n"
            f"ops = [qu.qu(rng.normal(size={dim})) for _ in range({nk})]\n"
            "got = qu.kron(*ops, parallel=True)\n"
            "want = ops[0]\n"
            "for o in ops[1:]:\n"
            "    want = np.kron(want, o)\n"
            "assert np.allclose(got, want)\n"
            "print('DONE')\n")
        env = dict(os.environ, QUIMB_NUM_THREAD_WORKERS=str(nw), OMP_NUM_THREADS=str(nw))
        try:
            r = subprocess.run([sys.executable, "-c", code], env=env, capture_output=True, text=True, timeout=90)
            outcome = "done" if "DONE" in r.stdout else "failed"
        except subprocess.TimeoutExpired:
            outcome = "hang"
        if outcome == "failed":
            rec.count("par_reduce", "finishes", "rejected")
        else:
            rec.check("par_reduce", "finishes", outcome == "done", mech="par_reduce:kron_parallel:no_progress_with_few_workers",
                      detail={"workers": nw, "operands": nk, "dim": dim, "timeout_s": 90}, sig=("finishes", nw))
        desc["child"] = outcome
    return desc


def wl_randn(rng, rec, tier):
    import quimb as qu
    from quimb.gen import rand as qrand
    import math
    seed = int(rng.integers(1 << 30))
    nt = int(gen.choice(rng, [2, 3, 5, 8]))
    d = int(gen.choice(rng, [1, 2, 3, 7, 50, 1000, 40001]))
    dtype = gen.choice(rng, ["float64", "float32", "complex128", "complex64"])
    dist = gen.choice(rng, ["normal", "uniform", "exp"])
    FLOG.drain()
    try:
        a = qu.randn(d, dtype=dtype, num_threads=nt, seed=seed, dist=dist)
        futs_ok = rec._c16_check_futures("randn", {"d": d, "num_threads": nt,
                                                   "dtype": dtype})
        b = qu.randn(d, dtype=dtype, num_threads=nt, seed=seed, dist=dist)
        FLOG.drain()
    except Exception:
        rec.count("randn", "value", "rejected")
        return {"d": d, "nt": nt, "rejected": True}
    rec.check("randn", "reproducible", bool(np.array_equal(a, b)),
              mech="randn:reproducible", detail={"d": d, "num_threads": nt,
                                                 "dtype": dtype, "dist": dist},
              sig=(d, nt, dtype, dist, "rep"))
    # serial replay of the same per-thread generators
    seq = np.random.SeedSequence(seed)
    seeds = []
    while len(seeds) < nt:
        seeds += seq.spawn(4)
    gens = [np.random.default_rng(s) for s in seeds[:nt]]
    meth = {"uniform": "random", "normal": "standard_normal",
            "exp": "standard_exponential"}[dist]
    S = math.ceil(d / nt)
    sub = {"complex128": "float64", "complex64": "float32"}.get(dtype, dtype)

    def create():
        out = np.empty(d, sub)
        for i, g in enumerate(gens):
            sl = out[i * S:(i + 1) * S]
            if sl.size:
                getattr(g, meth)(out=sl, dtype=sub)
        return out

    if dtype.startswith("complex"):
        re, im = create(), create()
        want = (re + 1j * im).astype(dtype)
    else:
        want = create()
    ok = bool(np.allclose(np.asarray(a).reshape(-1), want, rtol=1e-6, atol=0))
    rec.check("randn", "serial_replay", ok,
              mech="randn:serial_replay" + ("" if futs_ok else ":after_swallowed_exception"),
              detail={"d": d, "num_threads": nt, "dtype": dtype, "dist": dist},
              sig=(d, nt, dtype, dist))
    return {"d": d, "num_threads": nt, "dtype": dtype, "dist": dist}


def wl_builder(rng, rec, tier):
    import quimb as qu
    from quimb.operator import SparseOperatorBuilder
    from quimb.operator import models
    n = int(rng.integers(2, 7))
    edges = [(i, i + 1) for i in range(n - 1)]
    if n > 2 and rng.random() < 0.5:
        edges.append((0, n - 1))
    which = gen.choice(rng, ["heis", "fermi"])
    symmetry = None
    sector = None
    if which == "heis":
        H = models.heisenberg_from_edges(edges, j=(1.0, 0.8, 0.6) if rng.random() < 0.5 else 1.0,
                                         b=float(rng.random()))
    else:
        r = rng.random()
        if r < 0.5:
            H = models.fermi_hubbard_spinless_from_edges(edges, t=0.7, V=1.3, mu=0.2)
        else:
            H = models.fermi_hubbard_from_edges(edges[: max(1, n // 2)], t=0.9, U=2.0)
    hs = H.hilbert_space
    nt = int(gen.choice(rng, [2, 3, 5, 8, 16]))
    FLOG.drain()
    try:
        A0 = H.build_sparse_matrix(stype="csr")
        A1 = H.build_sparse_matrix(stype="csr", parallel=nt)
    except Exception as e:
        rec.count("builder", "parallel_equals_serial", "rejected")
        rec.note("builder_reject:" + type(e).__name__ + ":" + str(e)[:60])
        return {"which": which, "n": n, "rejected": True}
    rec._c16_check_futures("builder.build", {"n": n, "parallel": nt})
    d0, d1 = A0.toarray(), A1.toarray()
    sc = float(np.abs(d0).max()) if d0.size else 0.0
    ok, err, _ = close(d1, d0, sc, EPS, 1e3)
    rec.check("builder", "parallel_equals_serial", ok,
              mech="builder:parallel_equals_serial:build",
              detail={"which": which, "n": n, "parallel": nt, "err": err,
                      "D": d0.shape[0]}, sig=(which, n, len(edges), nt, "build"))
    x = gen.rand_array(rng, (d0.shape[0],), "complex128")
    try:
        y0 = H.matvec(x)
        y1 = H.matvec(x, parallel=nt)
        lo = H.aslinearoperator(parallel=nt)
        # (a real operator's LinearOperator rejects complex vectors loudly)
        x2 = x if np.dtype(lo.dtype).kind == "c" else x.real.copy()
        y2 = lo @ x2
    except Exception as e:
        rec.count("builder", "parallel_equals_serial", "rejected")
        rec.note("builder_reject_mv:" + type(e).__name__ + ":" + str(e)[:60])
        return {"which": which, "n": n, "rejected_matvec": True}
    rec._c16_check_futures("builder.matvec", {"n": n, "parallel": nt})
    want = d0 @ x
    sc = float(np.abs(want).max())
    for name, y in (("matvec_serial", y0), ("matvec_parallel", y1), ("linop_parallel", y2)):
        w = want if name != "linop_parallel" else d0 @ x2
        ok, err, _ = close(y, w, sc, EPS, 1e4)
        rec.check("builder", "parallel_equals_serial", ok,
                  mech=f"builder:parallel_equals_serial:{name}",
                  detail={"which": which, "n": n, "parallel": nt, "err": err},
                  sig=(which, n, len(edges), nt, name))
    # a caller-supplied result buffer: "an array to store the result in", whatever it
    # held before, serial and parallel alike
    try:
        b0 = gen.rand_array(rng, x.shape, "complex128")
        b1 = b0.copy()
        r0 = H.matvec(x, out=b0)
        r1 = H.matvec(x, out=b1, parallel=nt)
    except Exception as e:
        rec.count("builder", "parallel_equals_serial", "rejected")
        rec.note("builder_reject_out:" + type(e).__name__ + ":" + str(e)[:60])
        return {"which": which, "n": n, "rejected_out": True}
    for name, y in (("matvec_out_serial", r0), ("matvec_out_parallel", r1)):
        ok, err, _ = close(y, want, sc, EPS, 1e4)
        rec.check("builder", "parallel_equals_serial", ok,
                  mech=f"builder:parallel_equals_serial:{name}",
                  detail={"which": which, "n": n, "parallel": nt, "err": err},
                  sig=(which, n, len(edges), nt, name))
    return {"which": which, "n": n, "parallel": nt, "D": int(d0.shape[0])}


def wl_errors(rng, rec, tier):
    """a call that fails in its single-threaded form must fail in its threaded
    form too (same arguments, only the size / thread count decides the path):
    never a silently returned, partly written buffer"""
    import quimb as qu
    from quimb import core
    which = gen.choice(rng, ["subtract_update_", "complex_array", "randn"])
    big = int(rng.integers(40000, 70000))

    def outcome(f):
        try:
            f()
            return "returned"
        except Exception as e:  # noqa
            return "raised:" + type(e).__name__
    if which == "subtract_update_":
        # real receiver, complex coefficient: not representable
        c = 0.3 + 0.2j
        small = outcome(lambda: core.subtract_update_(np.ones(10), c, np.ones(10)))
        large = outcome(lambda: core.subtract_update_(np.ones(big), c, np.ones(big)))
    elif which == "complex_array":
        small = outcome(lambda: core.complex_array(np.ones((4, 4)), np.ones((4, 4))))
        n2 = int(big ** 0.5) + 1
        large = outcome(lambda: core.complex_array(np.ones((n2, n2)), np.ones((n2, n2))))
    else:
        small = outcome(lambda: qu.randn(64, dist="no_such_distribution", num_threads=1))
        large = outcome(lambda: qu.randn(64, dist="no_such_distribution", num_threads=int(rng.integers(2, 9))))
    FLOG.drain()
    if small.startswith("raised"):
        rec.check("threads", "error_like_serial", large.startswith("raised"),
                  mech=f"threads:error_swallowed:{which}",
                  detail={"serial": small, "threaded": large}, sig=("errors", which))
    else:
        rec.count("threads", "error_like_serial", "out_of_domain")
    return {"which": which, "serial": small, "threaded": large}


WORKLOADS = [
    ("partition", 6, wl_partition),
    ("kernels", 10, wl_kernels),
    ("par_reduce", 1, wl_par_reduce),
    ("randn", 1, wl_randn),
    ("builder", 1, wl_builder),
    ("errors", 1, wl_errors),
]
