"""C09 - MPS/MPO arithmetic and 1D compression match dense linear algebra.

Function-level postconditions on the real builders / arithmetic / compression
entry points; the reference is numpy on the independent dense denotation
(qmon.ref.value) of the *inputs*."""

import itertools

import numpy as np

from .. import attach, gen
from ..core import close, dense_of, eps_of, exponent_of, to_numpy
from ..ref import linalg as rl

PROP = "C09"
NCASES = {"quick": 12000, "thorough": 300000}
BUDGET = {"quick": 75, "thorough": 1200}
RULE = ("random MPS/MPO with site-dependent bond and physical dimensions, open and "
        "periodic, four dtypes, stored exponents; dense arrays and named generators; "
        "sub-operators on sorted/unsorted site subsets; every registered 1D compression "
        "method x sweep direction x caps {1,2,exact,inf} x cutoffs {0,1e-12,1e-3}; "
        "distinct = (entry, clause, class, L, dims, dtype, options)")
ASSUMPTIONS = [
    "value clauses of compression are judged only when nothing needs truncating "
    "(cap >= every exact Schmidt rank of the dense input and cutoff <= 1e-10); the cap "
    "clause is judged always",
    "the error bound for the direct method uses the tails of the input's own Schmidt "
    "spectra (TT-SVD bound: each discarded weight is at most the corresponding tail)",
    "randomised compression (src*) is judged with the 5x looser tolerance the library's "
    "own tests use; fit methods to their convergence tolerance",
]
DECIDING = [("from_dense", "roundtrip"), ("sum", "value"), ("apply", "value"),
            ("compress", "cap"), ("compress", "lossless"), ("generator", "value")]
SUITE = ["tests/test_tensor/test_tn1d"]
MANIFEST = dict(
    technique="runtime postcondition monitors on the real 1D builders, arithmetic and compression entry points, compared with numpy on an independent dense denotation of the inputs (reference-model differential monitoring)",
    text="from_dense round trips, named MPS/MPO generators vs their dense definitions, sums/differences/scalar multiples, operator-on-state and operator-on-operator application (all which_A/which_B), overlaps, expectation values, traces, partial traces and transposes, fill_empty_sites, permute_arrays, and every registered 1D compression method (value when nothing needs truncating, bond cap always, promised canonical form, TT-SVD error bound for 'direct') are checked on every monitored call in a seeded random workload.",
    note="Sizes are limited to what can be densified (<= 2^12 amplitudes for states, <= 3^5 for operators).",
    ref="3/C09")

MAXV = 1 << 16


# ---------------------------------------------------------------------------
# dense helpers
# ---------------------------------------------------------------------------

class _Geom:
    """sentinel: the object does not have the expected outer indices"""

    def __bool__(self):
        return False


GEOM = _Geom()


def sites_of(x):
    """sites that actually carry a tensor (``x.sites`` lists all *possible* sites)"""
    try:
        return tuple(x.gen_sites_present())
    except Exception:
        return tuple(x.sites)


def vec_of(x, sites=None):
    """dense amplitudes of a vector-like TN as ndarray with one axis per site"""
    sites = sites_of(x) if sites is None else sites
    inds = [x.site_ind(s) for s in sites]
    present = [ix for ix in inds if ix in x.ind_map]
    if len(present) != len(inds):
        return GEOM
    if set(x.outer_inds()) != set(inds):
        return GEOM
    r = dense_of(x, output=inds, max_size=MAXV)
    return r


def op_of(A, sites=None):
    """dense operator as ndarray (upper sites..., lower sites...)"""
    sites = sites_of(A) if sites is None else sites
    up = [A.upper_ind(s) for s in sites]
    lo = [A.lower_ind(s) for s in sites]
    if set(A.outer_inds()) != set(up) | set(lo):
        return GEOM
    return dense_of(A, output=up + lo, max_size=MAXV * 4)


def mat(v, n):
    """reshape (up..., lo...) array into matrix"""
    d = int(np.prod(v.shape[:n])) if n else 1
    return v.reshape(d, -1)


def isometry_defect(t, bond):
    """|| T^dag T - 1 || over the index ``bond`` (all other axes contracted)"""
    a = to_numpy(t.data)
    ax = t.inds.index(bond)
    m = np.moveaxis(a, ax, -1).reshape(-1, a.shape[ax])
    g = m.conj().T @ m
    return float(np.abs(g - np.eye(g.shape[0])).max())


def schmidt_ranks(v, tol=1e-12):
    """exact Schmidt ranks and spectra across each cut of an ndarray with one
    axis per site"""
    out = []
    n = v.ndim
    for k in range(1, n):
        m = v.reshape(int(np.prod(v.shape[:k])), -1)
        s = np.linalg.svd(m, compute_uv=False)
        out.append(s)
    return out


# ---------------------------------------------------------------------------
# monitors
# ---------------------------------------------------------------------------

def _cut(split_opts):
    return split_opts.get("cutoff", 1e-10), split_opts.get("max_bond", None)


def install(rec):
    import quimb.tensor as qtn
    import quimb.tensor.tensor_builder as tb
    import quimb.tensor.tn1d.core as c1
    import quimb.tensor.tn1d.compress as cmp1
    import quimb.tensor.tnag.core as ca

    # ---- from_dense ------------------------------------------------------
    def pre_fd_mps(cls, psi, dims=2, *a, **k):
        psi = to_numpy(psi)
        if psi.size > MAXV:
            return None
        return {"psi": np.array(psi), "dims": dims}

    def post_fd_mps(s, out, cls, psi, dims=2, *a, **k):
        cutoff, mb = _cut(k)
        r = vec_of(out)
        if r is None:
            rec.count("unreferenced", "dense", "unreferenced")
            return
        if r is GEOM:
            rec.check("from_dense", "roundtrip", False, mech="from_dense:mps:geometry",
                      detail={"outer": list(map(str, out.outer_inds()))[:8]})
            return
        v, sc, eps = r
        ref = s["psi"].reshape(v.shape) if s["psi"].size == v.size else None
        if ref is None:
            rec.check("from_dense", "roundtrip", False, mech="from_dense:mps:size", detail={})
            return
        if mb is not None:
            got_mb = out.max_bond() or 1
            rec.check("from_dense", "cap", got_mb <= mb, mech="from_dense:mps:cap",
                      detail={"max_bond": mb, "got": got_mb})
            return
        if k.get("method", "svd") not in ("svd", "eig", "svd:eig") or "cutoff_mode" in k:
            rec.count("from_dense", "roundtrip", "out_of_domain")
            return
        rel = 1e-9 if not cutoff else max(1e-9, 3 * (cutoff * v.ndim) ** 0.5)
        ok, err, bound = close(v, ref, sc, eps, 1e4, rel=rel)
        rec.check("from_dense", "roundtrip", ok, mech="from_dense:mps:value",
                  detail={"err": err, "bound": bound, "dims": str(s["dims"]), "cutoff": cutoff},
                  sig=("mps", v.shape, str(ref.dtype), cutoff))
        # documented: canonical (absorb towards the right by default)
    attach.install(c1.MatrixProductState, "from_dense",
                   attach.monitored(rec, "MPS.from_dense", pre_fd_mps, post_fd_mps))

    def pre_fd_mpo(cls, A, dims=2, sites=None, L=None, *a, **k):
        A = to_numpy(A)
        if A.size > MAXV * 4:
            return None
        return {"A": np.array(A)}

    def post_fd_mpo(s, out, cls, A, dims=2, sites=None, L=None, *a, **k):
        cutoff, mb = _cut(k)
        n = len(sites) if sites is not None else (len(dims) if not isinstance(dims, int) else None)
        osites = sites_of(out)
        if sites is not None:
            if sorted(osites) != sorted(sites):
                rec.check("from_dense", "roundtrip", False, mech="from_dense:mpo:sites",
                          detail={"sites": list(sites), "got": list(osites)})
                return
            order = tuple(sites)
        else:
            order = osites
        rec.check("from_dense", "L", (L is None) or out.L == L, mech="from_dense:mpo:L",
                  detail={"L": L, "got": out.L})
        r = op_of(out, order)
        if r is None:
            rec.count("unreferenced", "dense", "unreferenced")
            return
        if r is GEOM:
            rec.check("from_dense", "roundtrip", False, mech="from_dense:mpo:geometry",
                      detail={"outer": list(map(str, out.outer_inds()))[:8]})
            return
        v, sc, eps = r
        if s["A"].size != v.size:
            rec.check("from_dense", "roundtrip", False, mech="from_dense:mpo:size", detail={})
            return
        if mb is not None:
            got_mb = out.max_bond() or 1
            rec.check("from_dense", "cap", got_mb <= mb, mech="from_dense:mpo:cap",
                      detail={"max_bond": mb, "got": got_mb})
            return
        if k.get("method", "svd") not in ("svd", "eig", "svd:eig") or "cutoff_mode" in k:
            rec.count("from_dense", "roundtrip", "out_of_domain")
            return
        ref = s["A"].reshape(v.shape)
        rel = 1e-9 if not cutoff else max(1e-9, 3 * (cutoff * v.ndim) ** 0.5)
        ok, err, bound = close(v, ref, sc, eps, 1e4, rel=rel)
        rec.check("from_dense", "roundtrip", ok, mech="from_dense:mpo:value",
                  detail={"err": err, "bound": bound, "sites": None if sites is None else list(sites),
                          "L": L},
                  sig=("mpo", v.shape, str(ref.dtype), cutoff, sites is None or list(sites) == sorted(sites)))
    attach.install(c1.MatrixProductOperator, "from_dense",
                   attach.monitored(rec, "MPO.from_dense", pre_fd_mpo, post_fd_mpo))

    # ---- sums -------------------------------------------------------------
    def dense_any(x):
        if hasattr(x, "upper_ind_id") and hasattr(x, "lower_ind_id"):
            return op_of(x)
        if hasattr(x, "site_ind_id"):
            return vec_of(x)
        return None

    def pre_sum(tna, tnb, site_tags=None, negate=False, compress=False, inplace=False, **k):
        if compress:
            return None
        a, b = dense_any(tna), dense_any(tnb)
        if not a or not b or a[0].shape != b[0].shape:
            return None
        return {"a": a, "b": b}

    def post_sum(s, out, tna, tnb, site_tags=None, negate=False, compress=False, inplace=False, **k):
        r = dense_any(out)
        if r is None:
            rec.count("unreferenced", "dense", "unreferenced")
            return
        if r is GEOM:
            rec.check("sum", "value", False, mech="sum:geometry", detail={})
            return
        (va, sa, ea), (vb, sb, eb) = s["a"], s["b"]
        ref = va - vb if negate else va + vb
        eps = max(ea, eb)
        ok, err, bound = close(r[0], ref, max(sa + sb, r[1]), eps, 1e4)
        why = "value"
        if ok is False:
            ea_, eb_ = exponent_of(tna), exponent_of(tnb)
            if ea_ != eb_:
                why = "exponent_mismatch_ignored"
        rec.check("sum", "value", ok, mech=f"sum:{why}",
                  detail={"err": err, "bound": bound, "negate": negate, "class": type(out).__name__,
                          "exponents": [exponent_of(tna), exponent_of(tnb)]},
                  sig=(type(out).__name__, ref.shape, negate, str(ref.dtype)))
        rec.check("sum", "class", type(out) is type(tna), mech="sum:class",
                  detail={"in": type(tna).__name__, "out": type(out).__name__})
    attach.install(ca, "tensor_network_ag_sum", attach.monitored(rec, "tensor_network_ag_sum", pre_sum, post_sum))

    # ---- apply ------------------------------------------------------------
    def pre_ov(A, x, which_A="lower", contract=False, fuse_multibonds=True, compress=False,
               inplace=False, inplace_A=False, **k):
        sx = sites_of(x)
        sA = sites_of(A)
        if not set(sA) <= set(sx):
            return None
        a, v = op_of(A), vec_of(x)
        if not a or not v:
            return None
        return {"A": a, "x": v, "sA": sA, "sx": sx}

    def post_ov(s, out, A, x, which_A="lower", contract=False, fuse_multibonds=True,
                compress=False, inplace=False, inplace_A=False, **k):
        (va, sa, ea), (vx, sx_, ex) = s["A"], s["x"]
        n = len(s["sA"])
        pos = [s["sx"].index(q) for q in s["sA"]]
        M = va if which_A == "lower" else np.transpose(
            va, list(range(n, 2 * n)) + list(range(n)))
        # contract lower axes of M with the site axes of x
        ref = np.tensordot(M, vx, axes=(list(range(n, 2 * n)), pos))
        ref = np.moveaxis(ref, list(range(n)), pos)
        r = vec_of(out, s["sx"])
        if r is None:
            rec.count("unreferenced", "dense", "unreferenced")
            return
        if r is GEOM:
            rec.check("apply", "value", False, mech="apply:op_vec:geometry",
                      detail={"outer": list(map(str, out.outer_inds()))[:8]})
            return
        lossless = (not compress) or (k.get("max_bond") is None and not k.get("cutoff", 1e-10))
        contiguous = list(sorted(s["sA"])) == list(range(min(s["sA"]), max(s["sA"]) + 1)) \
            if all(isinstance(q, int) for q in s["sA"]) else True
        if compress and k.get("max_bond") is not None:
            if not contiguous:
                # a sub-operator on non-contiguous sites leaves a long range
                # bond; the sweep of `x.compress` only visits neighbouring
                # sites (the documented route is gate_with_mpo / submpo)
                rec.count("apply", "cap", "out_of_domain")
            else:
                rec.check("apply", "cap", (out.max_bond() or 1) <= k["max_bond"], mech="apply:op_vec:cap",
                          detail={"cap": k["max_bond"], "got": out.max_bond()})
        rel = 0.0
        if compress and not lossless:
            if k.get("max_bond") is not None:
                return
            rel = max(1e-7, 3 * (k.get("cutoff", 1e-10) * vx.ndim) ** 0.5)
        eps = max(ea, ex)
        scale = max(r[1], float(np.abs(ref).max()) if ref.size else 0.0, sa * sx_ / max(1.0, 1.0))
        ok, err, bound = close(r[0], ref, min(scale, max(r[1], sa * sx_)), eps, 1e4, rel=rel)
        rec.check("apply", "value", ok, mech=f"apply:op_vec:{which_A}:value",
                  detail={"err": err, "bound": bound, "which_A": which_A, "contract": contract,
                          "compress": compress, "sA": list(s["sA"])},
                  sig=("op_vec", which_A, contract, bool(compress), ref.shape, n))
    attach.install(ca, "tensor_network_apply_op_vec",
                   attach.monitored(rec, "tensor_network_apply_op_vec", pre_ov, post_ov))

    def pre_oo(A, B, which_A="lower", which_B="upper", contract=False, fuse_multibonds=True,
               compress=False, inplace=False, inplace_A=False, **k):
        sA, sB = sites_of(A), sites_of(B)
        if not set(sA) <= set(sB):
            return None
        a, b = op_of(A), op_of(B)
        if not a or not b:
            return None
        return {"A": a, "B": b, "sA": sA, "sB": sB}

    def post_oo(s, out, A, B, which_A="lower", which_B="upper", contract=False,
                fuse_multibonds=True, compress=False, inplace=False, inplace_A=False, **k):
        (va, sa, ea), (vb, sb, eb) = s["A"], s["B"]
        n, m = len(s["sA"]), len(s["sB"])
        pos = [s["sB"].index(q) for q in s["sA"]]
        # A's `which_A` indices are contracted with B's `which_B` indices; the
        # result keeps B's index names
        a_con = list(range(n, 2 * n)) if which_A == "lower" else list(range(n))
        a_free = list(range(n)) if which_A == "lower" else list(range(n, 2 * n))
        b_con = [p + (0 if which_B == "upper" else m) for p in pos]
        ref = np.tensordot(va, vb, axes=(a_con, b_con))
        # remaining axes: A free (n) then B's remaining in order; put A free axes
        # back at B's contracted positions
        ref = np.moveaxis(ref, list(range(n)), b_con)
        r = op_of(out, s["sB"])
        if r is None:
            rec.count("unreferenced", "dense", "unreferenced")
            return
        if r is GEOM:
            rec.check("apply", "value", False, mech="apply:op_op:geometry",
                      detail={"outer": list(map(str, out.outer_inds()))[:8]})
            return
        if compress and k.get("max_bond") is not None:
            contiguous = list(sorted(s["sA"])) == list(range(min(s["sA"]), max(s["sA"]) + 1)) \
                if all(isinstance(q, int) for q in s["sA"]) else True
            if contiguous:
                rec.check("apply", "cap", (out.max_bond() or 1) <= k["max_bond"], mech="apply:op_op:cap",
                          detail={"cap": k["max_bond"], "got": out.max_bond()})
            else:
                rec.count("apply", "cap", "out_of_domain")
            return
        rel = 0.0
        if compress and k.get("cutoff", 1e-10):
            rel = max(1e-7, 3 * (k.get("cutoff", 1e-10) * m) ** 0.5)
        ok, err, bound = close(r[0], ref, max(r[1], sa * sb), max(ea, eb), 1e4, rel=rel)
        rec.check("apply", "value", ok, mech=f"apply:op_op:{which_A}:{which_B}:value",
                  detail={"err": err, "bound": bound, "which_A": which_A, "which_B": which_B,
                          "contract": contract, "compress": compress},
                  sig=("op_op", which_A, which_B, contract, bool(compress), ref.shape))
    attach.install(ca, "tensor_network_apply_op_op",
                   attach.monitored(rec, "tensor_network_apply_op_op", pre_oo, post_oo))

    # ---- MPS -> MPO partial trace -------------------------------------------
    def pre_ptr(self, keep, upper_ind_id="b{}", rescale_sites=True):
        v = vec_of(self)
        if not v or self.cyclic:
            return None
        return {"v": v}

    def post_ptr(s, out, self, keep, upper_ind_id="b{}", rescale_sites=True):
        v, sc, eps = s["v"]
        kp = self.slice2sites(keep) if isinstance(keep, slice) else keep
        kp = sorted(kp)
        dims = list(v.shape)
        rho = rl.ptrace(v.reshape(-1, 1), dims, kp)
        osites = list(range(len(kp))) if rescale_sites else kp
        up = [out.upper_ind(q) for q in osites]
        lo = [out.lower_ind(q) for q in osites]
        if set(out.outer_inds()) != set(up) | set(lo):
            rec.check("partial_trace", "value", False, mech="partial_trace_to_mpo:geometry",
                      detail={"outer": list(map(str, out.outer_inds()))[:10]})
            return
        r = dense_of(out, output=up + lo, max_size=MAXV * 4)
        if r is None:
            return
        got = mat(r[0], len(kp))
        ok, err, bound = close(got, rho, max(r[1], sc * sc), eps, 1e4)
        why = "value"
        if ok is False and close(got.T, rho, max(r[1], sc * sc), eps, 1e4)[0]:
            why = "transposed"
        rec.check("partial_trace", "value", ok, mech=f"partial_trace_to_mpo:{why}",
                  detail={"err": err, "bound": bound, "keep": list(kp), "rescale": rescale_sites},
                  sig=("ptr", tuple(dims), tuple(kp), rescale_sites, str(v.dtype)))
    attach.install(c1.MatrixProductState, "partial_trace_to_mpo",
                   attach.monitored(rec, "MPS.partial_trace_to_mpo", pre_ptr, post_ptr))

    # ---- MPO partial transpose / trace / fill_empty_sites -------------------
    def pre_pt(self, sysa, inplace=False):
        a = op_of(self)
        return None if not a else {"a": a}

    def post_pt(s, out, self, sysa, inplace=False):
        va, sa, ea = s["a"]
        sites = sites_of(self)
        n = len(sites)
        ref = va.copy()
        for q in sysa:
            p = sites.index(q)
            ref = np.swapaxes(ref, p, n + p)
        r = op_of(out, sites)
        if r is None:
            rec.count("unreferenced", "dense", "unreferenced")
            return
        if r is GEOM:
            rec.check("partial_transpose", "value", False, mech="partial_transpose:geometry", detail={})
            return
        ok, err, bound = close(r[0], ref, sa, ea, 1e3)
        rec.check("partial_transpose", "value", ok, mech="partial_transpose:value",
                  detail={"err": err, "sysa": list(sysa)}, sig=("pt", va.shape, tuple(sysa)))
    attach.install(c1.MatrixProductOperator, "partial_transpose",
                   attach.monitored(rec, "MPO.partial_transpose", pre_pt, post_pt))

    def pre_fill(self, mode="full", phys_dim=None, fill_array=None, inplace=False):
        if fill_array is not None:
            return None
        a = op_of(self)
        if not a:
            return None
        return {"a": a, "sites": sites_of(self), "L": self.L}

    def post_fill(s, out, self, mode="full", phys_dim=None, fill_array=None, inplace=False):
        va, sa, ea = s["a"]
        sites = s["sites"]
        n = len(sites)
        d = phys_dim if phys_dim is not None else va.shape[0]
        full = list(range(s["L"])) if mode == "full" else list(range(min(sites), max(sites) + 1))
        osites = sorted(sites_of(out))
        if osites != full:
            rec.check("fill_empty_sites", "sites", False, mech="fill_empty_sites:sites",
                      detail={"mode": mode, "got": osites, "want": full, "had": list(sites)})
            return
        if d ** (2 * len(full)) > MAXV * 4:
            return
        r = op_of(out, tuple(full))
        if r is None:
            rec.count("unreferenced", "dense", "unreferenced")
            return
        if r is GEOM:
            rec.check("fill_empty_sites", "value", False, mech="fill_empty_sites:geometry",
                      detail={"outer": list(map(str, out.outer_inds()))[:10]})
            return
        # reference: identity on the missing sites
        N = len(full)
        ref = np.zeros(r[0].shape, dtype=np.result_type(va.dtype, np.float64))
        missing = [q for q in full if q not in sites]
        eye_idx = itertools.product(*[range(d)] * len(missing))
        for combo in eye_idx:
            idx = [slice(None)] * (2 * N)
            for q, val in zip(missing, combo):
                p = full.index(q)
                idx[p] = val
                idx[N + p] = val
            # remaining axes are those of `sites`, in `full` order: permute va
            order = sorted(range(n), key=lambda i: full.index(sites[i]))
            vv = np.transpose(va, order + [n + i for i in order])
            ref[tuple(idx)] = vv
        ok, err, bound = close(r[0], ref, sa, ea, 1e3)
        rec.check("fill_empty_sites", "value", ok, mech="fill_empty_sites:value",
                  detail={"err": err, "mode": mode, "had": list(sites), "L": s["L"]},
                  sig=("fill", tuple(sites), s["L"], mode))
        bonds_ok = all(
            len(out[out.site_tag(i)].bonds(out[out.site_tag(j)])) == 0
            for i in full for j in full if j > i + 1) if len(full) <= 8 else True
        rec.check("fill_empty_sites", "nearest_neighbour", bonds_ok,
                  mech="fill_empty_sites:long_range_bond_left", detail={"had": list(sites)})
    attach.install(c1.MatrixProductOperator, "fill_empty_sites",
                   attach.monitored(rec, "MPO.fill_empty_sites", pre_fill, post_fill))

    # ---- permute_arrays ---------------------------------------------------
    def mk_perm(kind):
        def pre(self, shape=None):
            d = (vec_of(self) if kind == "mps" else op_of(self))
            return None if not d else {"d": d}

        def post(s, out, self, shape=None):
            shape = shape or ("lrp" if kind == "mps" else "lrud")
            d2 = (vec_of(self) if kind == "mps" else op_of(self))
            if d2 is None:
                rec.count("unreferenced", "dense", "unreferenced")
                return
            if d2 is GEOM:
                rec.check("permute_arrays", "value", False, mech="permute_arrays:geometry", detail={})
                return
            ok, err, bound = close(d2[0], s["d"][0], s["d"][1], s["d"][2], 10)
            rec.check("permute_arrays", "value", ok, mech="permute_arrays:value", detail={"err": err})
            good = True
            sites = sites_of(self)
            for n_, q in enumerate(sites):
                t = self[self.site_tag(q)]
                want = []
                for ch in shape:
                    if ch == "l":
                        if n_ > 0 or self.cyclic:
                            want.append(self.bond(sites[n_ - 1], q))
                    elif ch == "r":
                        if n_ < len(sites) - 1 or self.cyclic:
                            want.append(self.bond(q, sites[(n_ + 1) % len(sites)]))
                    elif ch == "p":
                        want.append(self.site_ind(q))
                    elif ch == "u":
                        want.append(self.upper_ind(q))
                    elif ch == "d":
                        want.append(self.lower_ind(q))
                if len(sites) == 2 and self.cyclic:
                    continue
                good &= tuple(want) == tuple(t.inds)
            rec.check("permute_arrays", "order", good, mech="permute_arrays:order",
                      detail={"shape": shape, "kind": kind}, sig=("perm", kind, shape, len(sites)))
        return pre, post
    for cls, kind in ((c1.MatrixProductState, "mps"), (c1.MatrixProductOperator, "mpo")):
        pre, post = mk_perm(kind)
        attach.install(cls, "permute_arrays", attach.monitored(rec, f"{kind}.permute_arrays", pre, post))

    # ---- expec_TN_1D -----------------------------------------------------
    def pre_expec(*tns, compress=None, eps=1e-15):
        from ..ref import value as refv
        # the function aligns its operands itself (bra sites - upper/lower of each
        # operator in turn - ket sites, whatever the index names are): the
        # reference does the same by position, not by name
        ops = []
        last = len(tns) - 1
        for n_, tn in enumerate(tns):
            inner = set(tn.inner_inds())
            link = {}
            for st in tn.sites:
                if hasattr(tn, "upper_ind_id"):
                    link[tn.upper_ind(st)] = ("lnk", n_ - 1, st)
                    link[tn.lower_ind(st)] = ("lnk", n_, st)
                elif hasattr(tn, "site_ind_id"):
                    link[tn.site_ind(st)] = ("lnk", 0 if n_ == 0 else n_ - 1, st)
            if not hasattr(tn, "upper_ind_id") and n_ not in (0, last):
                return None
            for t in tn.tensor_map.values():
                ixs = []
                for ix in t.inds:
                    if ix in inner:
                        ixs.append((n_, ix))
                    elif ix in link:
                        ixs.append(link[ix])
                    else:
                        return None
                ops.append((to_numpy(t.data), tuple(ixs)))
        ex = sum(exponent_of(tn) for tn in tns)
        try:
            v, sc = refv.value_and_scale(ops, ex, (), MAXV * 16)
        except (refv.TooBig, ValueError):
            return None
        return {"v": v, "sc": sc, "eps": eps_of(*[a.dtype for a, _ in ops])}

    def post_expec(s, out, *tns, compress=None, eps=1e-15):
        cyc = any(getattr(tn, "cyclic", False) for tn in tns)
        lossy = cyc and compress is not False and max(getattr(tn, "L", 0) for tn in tns) > 5
        if lossy:
            rec.count("expec_TN_1D", "value", "out_of_domain")
            return
        ok, err, bound = close(np.asarray(out), s["v"], s["sc"], s["eps"], 1e4, rel=1e-9)
        rec.check("expec_TN_1D", "value", ok, mech="expec_TN_1D:value",
                  detail={"err": err, "bound": bound, "n": len(tns), "cyclic": cyc},
                  sig=("expec", len(tns), cyc))
    attach.install(c1, "expec_TN_1D", attach.monitored(rec, "expec_TN_1D", pre_expec, post_expec))

    # ---- generators -------------------------------------------------------
    def gen_mon(name, ref_fn, kind):
        def pre(*a, **k):
            return {}

        def post(s, out, *a, **k):
            try:
                ref = ref_fn(*a, **k)
            except _Skip:
                rec.count("generator", name, "out_of_domain")
                return
            if ref is None:
                return
            r = vec_of(out) if kind == "mps" else op_of(out)
            if r is None:
                rec.count("unreferenced", "dense", "unreferenced")
                return
            if r is GEOM:
                rec.check("generator", "value", False, mech=f"generator:{name}:geometry",
                          detail={"outer": list(map(str, out.outer_inds()))[:8]})
                return
            got = r[0].reshape(-1) if kind == "mps" else mat(r[0], r[0].ndim // 2)
            ref = np.asarray(ref)
            if got.size != ref.size:
                rec.check("generator", "value", False, mech=f"generator:{name}:size",
                          detail={"got": got.shape, "ref": ref.shape})
                return
            ok, err, bound = close(got, ref.reshape(got.shape), max(r[1], 1.0), r[2], 1e3)
            rec.check("generator", "value", ok, mech=f"generator:{name}:value",
                      detail={"err": err, "args": repr(a)[:80], "kw": repr(k)[:120]},
                      sig=(name, got.shape, repr(sorted(k))[:60]))
            want_dtype = k.get("dtype")
            if want_dtype is not None and name not in ("MPS_product_state", "MPO_product_operator"):
                rec.check("generator", "dtype", str(out.dtype) == str(np.dtype(want_dtype)),
                          mech=f"generator:{name}:dtype",
                          detail={"want": str(want_dtype), "got": str(out.dtype)})
        return attach.monitored(rec, name, pre, post)

    for name, (fn, kind) in GENERATORS.items():
        if hasattr(tb, name):
            attach.install(tb, name, gen_mon(name, fn, kind))

    # ---- compression -----------------------------------------------------
    OPTIMAL = ("direct", "dm")   # canonical / optimal truncation: exact when the
    #                              cap admits the true Schmidt ranks

    def cut_bond_products(tn, tags):
        """for each cut between consecutive sites: product of the sizes of all
        indices that connect tensors left of the cut with tensors right of it"""
        pos = {}
        for n_, tg in enumerate(tags):
            for tid in tn.tag_map.get(tg, ()):
                pos[tid] = n_
        prods = [1] * (len(tags) - 1)
        for ix in tn.inner_inds():
            tids = [t for t in tn.ind_map[ix] if t in pos]
            if len(tids) < 2:
                continue
            lo, hi = min(pos[t] for t in tids), max(pos[t] for t in tids)
            for c in range(lo, hi):
                prods[c] *= tn.ind_size(ix)
        return prods

    def pre_cmp(tn, max_bond=None, cutoff=1e-10, method="dm", site_tags=None, canonize=True,
                permute_arrays=True, optimize="auto-hq", sweep_reverse=False,
                equalize_norms=False, inplace=False, **k):
        if rec.depth("cmp") > 0:
            return None      # internal stage of an oversampling / fit-guess method
        tns = tn if isinstance(tn, (tuple, list)) else [tn]
        tags = site_tags if site_tags is not None else tns[0].site_tags
        tags = [tg for tg in tags if tg in tns[0].tag_map]
        # outer indices grouped per site (in site order)
        outer0 = set(tns[0].outer_inds())
        groups = []
        for tg in tags:
            g = []
            for t in tns[0].select_tensors(tg):
                g += [ix for ix in t.inds if ix in outer0 and ix not in g]
            groups.append(tuple(g))
        flat = [ix for g in groups for ix in g]
        if set(flat) != outer0:
            return None
        tot = None
        sc = 0.0
        eps = 2.3e-16
        prods = None
        for x in tns:
            if set(x.outer_inds()) != outer0:
                return None
            r = dense_of(x, output=flat, max_size=MAXV * 4)
            if r is None:
                return None
            tot = r[0] if tot is None else tot + r[0]
            sc += r[1]
            eps = max(eps, r[2])
            pr = cut_bond_products(x, tags)
            prods = pr if prods is None else [a + b for a, b in zip(prods, pr)]
        sizes = [int(np.prod([tns[0].ind_size(ix) for ix in g])) for g in groups]
        return {"v": tot, "sc": sc, "eps": eps, "groups": groups, "flat": flat, "sizes": sizes,
                "tags": tags, "nsum": len(tns), "prods": prods}

    def post_cmp(s, out, tn, max_bond=None, cutoff=1e-10, method="dm", site_tags=None,
                 canonize=True, permute_arrays=True, optimize="auto-hq", sweep_reverse=False,
                 equalize_norms=False, inplace=False, **k):
        entry = "compress"
        known = method in METHODS
        sig = (method, sweep_reverse, max_bond is not None, cutoff, tuple(s["sizes"]), s["nsum"])
        # (b) cap
        if max_bond is not None:
            mb = max([out.ind_size(ix) for ix in out.inner_inds()], default=1)
            rec.check(entry, "cap", mb <= max_bond, mech=f"compress:{method}:cap_exceeded",
                      detail={"max_bond": max_bond, "got": mb, "sweep_reverse": sweep_reverse},
                      sig=sig)
        if not known:
            return
        # geometry: one tensor per site, same outer inds
        ok_geo = (out.num_tensors == len(s["tags"])
                  and set(out.outer_inds()) == set(s["flat"]))
        rec.check(entry, "geometry", ok_geo, mech=f"compress:{method}:geometry",
                  detail={"num_tensors": out.num_tensors, "sites": len(s["tags"])}, sig=sig)
        if not ok_geo:
            return
        r = dense_of(out, output=s["flat"], max_size=MAXV * 4)
        if r is None:
            return
        v = s["v"]
        vmat = v.reshape(s["sizes"])
        spectra = schmidt_ranks(vmat)
        nrm = float(np.linalg.norm(v))
        f32 = s["eps"] > 1e-10
        if nrm == 0 or not np.isfinite(nrm) or nrm < 1e-3 * s["sc"] * (1e3 if f32 else 1):
            rec.count(entry, "lossless", "out_of_domain")
            return
        tol_rank = (1e-5 if f32 else 1e-10) * nrm
        ranks = [int((sp > tol_rank).sum()) for sp in spectra]
        nb = max(1, len(s["tags"]) - 1)
        err = float(np.linalg.norm(r[0] - v))
        normalize = bool(k.get("normalize", False))
        if normalize:
            nv = float(np.linalg.norm(r[0]))
            rec.check(entry, "normalized", abs(nv - 1.0) < (1e-3 if f32 else 1e-6),
                      mech=f"compress:{method}:normalize", detail={"norm": nv})
            err = float(np.linalg.norm(r[0] * nrm - v)) if nv else float("inf")
        custom_mode = "cutoff_mode" in k
        if method in OPTIMAL and canonize:
            fits = max_bond is None or all(rk <= max_bond for rk in ranks)
        else:
            # heuristic (pseudo-canonical / randomised / variational) methods are
            # only promised to be exact when no truncation is triggered at all
            fits = max_bond is None or all(p_ <= max_bond for p_ in s["prods"])
        lossless = fits and cutoff is not None and cutoff <= 1e-10 and not custom_mode
        tol = (1e-3 if f32 else 1e-6)
        if "src" in method:
            tol *= 5
        if cutoff:
            tol = max(tol, 3 * (cutoff * nb) ** 0.5 * (1 if method in OPTIMAL else 10))
        if lossless:
            okv = err <= tol * nrm
            rec.check(entry, "lossless", okv, mech=f"compress:{method}:lossless_value",
                      detail={"rel_err": err / nrm, "tol": tol, "ranks": ranks, "max_bond": max_bond,
                              "prods": s["prods"], "cutoff": cutoff, "sweep_reverse": sweep_reverse,
                              "canonize": canonize, "nsum": s["nsum"]}, sig=sig)
        elif method == "direct" and canonize and not normalize and not custom_mode:
            # TT-SVD bound from the input's own Schmidt tails; default
            # cutoff_mode 'rsum2' discards at most cutoff * (sum s^2) per bond
            b2 = 0.0
            for sp in spectra:
                keep = len(sp) if max_bond is None else min(len(sp), max_bond)
                b2 += float((sp[keep:] ** 2).sum())
                if cutoff:
                    b2 += cutoff * nrm ** 2
            bound = (b2 ** 0.5) * (1 + 1e-6) + 1e4 * s["eps"] * nrm
            rec.check(entry, "error_bound", err <= bound, mech="compress:direct:error_bound",
                      detail={"err": err, "bound": bound, "max_bond": max_bond, "cutoff": cutoff,
                              "sweep_reverse": sweep_reverse}, sig=sig)
        # (c) promised canonical form (documented for the sweep direction);
        # 'fit' family depends on the last sweep direction: not judged
        if "fit" not in method and not equalize_norms and out.num_tensors > 1:
            tags = s["tags"]
            worst = 0.0
            geo = True
            # sweep_reverse=False -> right canonical: sites 1.. are isometric
            # with respect to their left bond
            for i in range(len(tags) - 1):
                ta, tb_ = out[tags[i]], out[tags[i + 1]]
                bs = ta.bonds(tb_)
                if len(bs) != 1:
                    geo = False
                    break
                (bix,) = bs
                t = ta if sweep_reverse else tb_
                worst = max(worst, isometry_defect(t, bix))
            if not geo:
                rec.check(entry, "geometry", False, mech=f"compress:{method}:not_1d", detail={}, sig=sig)
            else:
                okf = worst <= (2e-3 if f32 else 1e-7)
                rec.check(entry, "canonical_form", okf, mech=f"compress:{method}:canonical_form",
                          detail={"defect": worst, "sweep_reverse": sweep_reverse,
                                  "promised": "left" if sweep_reverse else "right",
                                  "canonize": canonize, "normalize": normalize}, sig=sig)
    attach.install(cmp1, "tensor_network_1d_compress",
                   attach.monitored(rec, "tensor_network_1d_compress", pre_cmp, post_cmp, fam="cmp"))

    # TensorNetwork1DFlat.compress(form)
    def is_vec(x):
        return hasattr(x, "site_ind_id") and not hasattr(x, "upper_ind_id")

    def pre_c(self, form=None, create_bond=False, **k):
        if self.cyclic or self.num_tensors != self.L:
            return None
        # proper nearest-neighbour chain only (a sub-operator on non-contiguous
        # sites leaves long range bonds that this sweep does not touch)
        for ix in self.inner_inds():
            tids = list(self.ind_map[ix])
            if len(tids) != 2:
                return None
        sites = sites_of(self)
        pos = {}
        for n_, q in enumerate(sites):
            for tid in self.tag_map[self.site_tag(q)]:
                pos[tid] = n_
        for ix in self.inner_inds():
            a, b = self.ind_map[ix]
            if abs(pos[a] - pos[b]) != 1:
                return None
        d = vec_of(self) if is_vec(self) else op_of(self)
        return None if not d else {"d": d}

    def post_c(s, out, self, form=None, create_bond=False, **k):
        d2 = vec_of(self) if is_vec(self) else op_of(self)
        if not d2:
            return
        mb, cutoff = k.get("max_bond"), k.get("cutoff", 1e-10)
        f32 = s["d"][2] > 1e-10
        if mb is not None:
            rec.check("compress", "cap", (self.max_bond() or 1) <= mb, mech="compress:flat:cap_exceeded",
                      detail={"max_bond": mb, "got": self.max_bond(), "form": str(form)})
        v = s["d"][0]
        L = self.L
        if not is_vec(self):
            # group upper and lower index of each site
            n = v.ndim // 2
            perm = [j for i in range(n) for j in (i, n + i)]
            v = np.transpose(v, perm).reshape([v.shape[i] * v.shape[n + i] for i in range(n)])
            w = np.transpose(d2[0], perm).reshape(v.shape)
        else:
            w = d2[0]
        nrm = float(np.linalg.norm(v))
        if nrm == 0 or nrm < 1e-3 * s["d"][1] * (1e3 if f32 else 1):
            return
        canonical = form != "flat"
        ranks = [int((sp > (1e-5 if f32 else 1e-10) * nrm).sum()) for sp in schmidt_ranks(v)]
        fits = mb is None or (canonical and all(rk <= mb for rk in ranks))
        if fits and cutoff <= 1e-10 and "cutoff_mode" not in k and k.get("method", "svd") == "svd":
            err = float(np.linalg.norm(w - v))
            tol = 1e-3 if f32 else 1e-6
            if cutoff:
                tol = max(tol, 3 * (cutoff * max(1, L - 1)) ** 0.5 * (1 if canonical else 10))
            rec.check("compress", "lossless", err <= tol * nrm, mech="compress:flat:lossless_value",
                      detail={"rel_err": err / nrm, "form": str(form), "ranks": ranks, "max_bond": mb,
                              "cutoff": cutoff},
                      sig=("flat", str(form), mb is not None, v.shape))
        # promised form
        if form is None:
            form = "right"
        if (form in ("left", "right") or isinstance(form, int)) and "absorb" not in k:
            center = L - 1 if form == "left" else 0 if form == "right" else form % L
            worst = 0.0
            for i in range(L - 1):
                ta, tb_ = self[self.site_tag(i)], self[self.site_tag(i + 1)]
                (bix,) = ta.bonds(tb_)
                t = ta if i < center else tb_
                worst = max(worst, isometry_defect(t, bix))
            rec.check("compress", "canonical_form", worst <= (2e-3 if f32 else 1e-7),
                      mech="compress:flat:canonical_form",
                      detail={"defect": worst, "form": str(form), "L": L},
                      sig=("flatform", str(form), L))
    attach.install(c1.TensorNetwork1DFlat, "compress",
                   attach.monitored(rec, "TensorNetwork1DFlat.compress", pre_c, post_c, fam="cmpflat"))


    # compress_site(i): the two bonds next to the orthogonality centre
    def pre_cs(self, i, canonize=True, info=None, bra=None, **k):
        if self.cyclic or self.num_tensors != self.L or not is_vec(self) or bra is not None:
            return None
        d = vec_of(self)
        return None if not d else {"d": d}

    def post_cs(s, out, self, i, canonize=True, info=None, bra=None, **k):
        d2 = vec_of(self)
        if not d2:
            return
        v, sc, eps = s["d"]
        mb, cutoff = k.get("max_bond"), k.get("cutoff", 1e-10)
        L = self.L
        i = i % L
        bonds = [c for c in (i - 1, i) if 0 <= c < L - 1]     # cut c is between sites c, c+1
        if mb is not None:
            got = max([self.bond_size(c, c + 1) for c in bonds], default=1)
            rec.check("compress", "cap", got <= mb, mech="compress:site:cap_exceeded",
                      detail={"max_bond": mb, "got": got, "site": i})
        nrm = float(np.linalg.norm(v))
        if nrm == 0 or not canonize or any(q in k for q in ("reduced", "absorb", "cutoff_mode", "method", "renorm")):
            return
        spectra = schmidt_ranks(v)
        b2 = 0.0
        for c in bonds:
            sp = spectra[c]
            keep = len(sp) if mb is None else min(len(sp), mb)
            b2 += float((sp[keep:] ** 2).sum())
            if cutoff:
                b2 += cutoff * nrm ** 2
        err = float(np.linalg.norm(d2[0] - v))
        bound = (b2 ** 0.5) * (1 + 1e-6) + 1e4 * eps * nrm
        rec.check("compress", "error_bound", err <= bound, mech="compress:site:error_bound",
                  detail={"err": err, "bound": bound, "site": i, "max_bond": mb, "cutoff": cutoff, "L": L},
                  sig=("compress_site", v.shape, i, mb is not None))
    attach.install(c1.TensorNetwork1DFlat, "compress_site",
                   attach.monitored(rec, "TensorNetwork1DFlat.compress_site", pre_cs, post_cs, fam="cmpsite"))


class _Skip(Exception):
    pass


# ---------------------------------------------------------------------------
# generator references
# ---------------------------------------------------------------------------

def _kron_vecs(arrays):
    out = np.ones(1)
    for a in arrays:
        out = np.kron(out, np.asarray(a).reshape(-1))
    return out


def _spin_ops(S):
    d = int(round(2 * S + 1))
    m = np.array([S - i for i in range(d)])
    sz = np.diag(m).astype(complex)
    sp = np.zeros((d, d), dtype=complex)
    for i in range(1, d):
        mm = m[i]
        sp[i - 1, i] = np.sqrt(S * (S + 1) - mm * (mm + 1))
    sx = (sp + sp.conj().T) / 2
    sy = (sp - sp.conj().T) / (2j)
    return sx, sy, sz


def _ham(L, S, cyclic, two, one):
    """sum_i sum_(c, A, B) c A_i B_{i+1} + sum_i sum_(c, A) c A_i"""
    d = int(round(2 * S + 1))
    if d ** (2 * L) > MAXV * 4:
        raise _Skip()
    eye = np.eye(d)
    H = np.zeros((d ** L, d ** L), dtype=complex)
    # the library counts the wrap-around bond also for L == 2 (same convention
    # in quimb.gen.operators and in the MPO builders)
    bonds = [(i, i + 1) for i in range(L - 1)] + ([(L - 1, 0)] if cyclic and L >= 2 else [])
    for (i, j) in bonds:
        for c, A, B in two:
            ops = [eye] * L
            ops[i], ops[j] = A, B
            H += c * rl.kron_all(ops)
    for i in range(L):
        for c, A in one:
            ops = [eye] * L
            ops[i] = A
            H += c * rl.kron_all(ops)
    return H


def _j3(j, n=3):
    try:
        j = tuple(j)
    except TypeError:
        j = (j,) * n
    return j


def ref_ising(L, j=1.0, bx=0.0, *, S=1 / 2, cyclic=False, **k):
    sx, sy, sz = _spin_ops(S)
    return _ham(L, S, cyclic, [(j, sz, sz)], [(-bx, sx)])


def ref_xy(L, j=1.0, bz=0.0, *, S=1 / 2, cyclic=False, **k):
    sx, sy, sz = _spin_ops(S)
    jx, jy = _j3(j, 2)
    return _ham(L, S, cyclic, [(jx, sx, sx), (jy, sy, sy)], [(-bz, sz)])


def ref_heis(L, j=1.0, bz=0.0, *, S=1 / 2, cyclic=False, **k):
    sx, sy, sz = _spin_ops(S)
    jx, jy, jz = _j3(j, 3)
    return _ham(L, S, cyclic, [(jx, sx, sx), (jy, sy, sy), (jz, sz, sz)], [(-bz, sz)])


def ref_xxz(L, delta, jxy=1.0, *, S=1 / 2, cyclic=False, **k):
    sx, sy, sz = _spin_ops(S)
    return _ham(L, S, cyclic, [(jxy, sx, sx), (jxy, sy, sy), (delta, sz, sz)], [])


def ref_product_state(arrays, cyclic=False, **k):
    return _kron_vecs(arrays)


def ref_comp(binary, dtype="float64", cyclic=False, **k):
    m = {"0": [1, 0], "1": [0, 1], "+": [2 ** -0.5, 2 ** -0.5], "-": [2 ** -0.5, -2 ** -0.5]}
    return _kron_vecs([m[str(b)] for b in binary])


def ref_neel(L, down_first=False, dtype="float64", **k):
    bits = [(i + (1 if down_first else 0)) % 2 for i in range(L)]
    return _kron_vecs([[1, 0] if b == 0 else [0, 1] for b in bits])


def ref_ghz(L, dtype="float64", **k):
    v = np.zeros(2 ** L)
    v[0] = v[-1] = 2 ** -0.5
    return v


def ref_w(L, dtype="float64", **k):
    v = np.zeros(2 ** L)
    for i in range(L):
        v[1 << (L - 1 - i)] = L ** -0.5
    return v


def ref_zero(L, bond_dim=1, phys_dim=2, cyclic=False, dtype="float64", **k):
    return np.zeros(phys_dim ** L)


def ref_identity(L, sites=None, phys_dim=2, dtype="float64", cyclic=False, **k):
    n = L if sites is None else len(tuple(sites))
    if phys_dim ** (2 * n) > MAXV * 4:
        raise _Skip()
    return np.eye(phys_dim ** n)


def ref_zeros(L, phys_dim=2, dtype="float64", cyclic=False, **k):
    if phys_dim ** (2 * L) > MAXV * 4:
        raise _Skip()
    return np.zeros((phys_dim ** L,) * 2)


def ref_product_operator(arrays, cyclic=False, **k):
    arrays = [np.asarray(a) for a in arrays]
    if int(np.prod([a.size for a in arrays])) > MAXV * 4:
        raise _Skip()
    return rl.kron_all(arrays)


GENERATORS = {
    "MPS_product_state": (ref_product_state, "mps"),
    "MPS_computational_state": (ref_comp, "mps"),
    "MPS_neel_state": (ref_neel, "mps"),
    "MPS_ghz_state": (ref_ghz, "mps"),
    "MPS_w_state": (ref_w, "mps"),
    "MPS_zero_state": (ref_zero, "mps"),
    "MPO_identity": (ref_identity, "mpo"),
    "MPO_zeros": (ref_zeros, "mpo"),
    "MPO_product_operator": (ref_product_operator, "mpo"),
    "MPO_ham_ising": (ref_ising, "mpo"),
    "MPO_ham_XY": (ref_xy, "mpo"),
    "MPO_ham_heis": (ref_heis, "mpo"),
    "MPO_ham_XXZ": (ref_xxz, "mpo"),
}


# ---------------------------------------------------------------------------
# workloads
# ---------------------------------------------------------------------------

def rand_mps(rng, L=None, dtype=None, cyclic=False, maxd=4, phys=None):
    import quimb.tensor as qtn
    L = int(rng.integers(1, 7)) if L is None else L
    dtype = dtype or gen.choice(rng, gen.DTYPES, p=[0.4, 0.4, 0.1, 0.1])
    if phys is None:
        phys = [int(gen.choice(rng, [2, 2, 3])) for _ in range(L)]
        if rng.random() < 0.5:
            phys = [phys[0]] * L
    cyclic = cyclic and L >= 3
    bonds = [int(rng.integers(1, maxd + 1)) for _ in range(L - 1)]
    if L == 1:
        arrays = [gen.rand_array(rng, (phys[0],), dtype)]
    else:
        arrays = []
        cyc = int(rng.integers(1, 3)) if cyclic else None
        for i in range(L):
            shp = []
            if i > 0 or cyclic:
                shp.append(bonds[i - 1] if i > 0 else cyc)
            if i < L - 1 or cyclic:
                shp.append(bonds[i] if i < L - 1 else cyc)
            shp.append(phys[i])
            arrays.append(gen.rand_array(rng, tuple(shp), dtype))
    x = qtn.MatrixProductState(arrays, shape="lrp")
    if rng.random() < 0.25:
        x.exponent = float(gen.choice(rng, [-1.5, 0.5, 2.0]))
    return x, phys


def rand_mpo(rng, L=None, dtype=None, cyclic=False, maxd=3, phys=None, tags=None):
    import quimb.tensor as qtn
    L = int(rng.integers(2, 6)) if L is None else L
    dtype = dtype or gen.choice(rng, gen.DTYPES, p=[0.4, 0.4, 0.1, 0.1])
    phys = phys or [int(gen.choice(rng, [2, 2, 3]))] * L
    cyclic = cyclic and L >= 3
    bonds = [int(rng.integers(1, maxd + 1)) for _ in range(L - 1)]
    arrays = []
    cyc = int(rng.integers(1, 3)) if cyclic else None
    for i in range(L):
        shp = []
        if i > 0 or cyclic:
            shp.append(bonds[i - 1] if i > 0 else cyc)
        if i < L - 1 or cyclic:
            shp.append(bonds[i] if i < L - 1 else cyc)
        shp += [phys[i], phys[i]]
        arrays.append(gen.rand_array(rng, tuple(shp), dtype))
    A = qtn.MatrixProductOperator(arrays, shape="lrud", tags=tags)
    if rng.random() < 0.25:
        A.exponent = float(gen.choice(rng, [-1.0, 0.5, 1.5]))
    return A, phys


def wl_from_dense(rng, rec, tier):
    import quimb.tensor as qtn
    L = int(rng.integers(1, 7))
    dims = [int(gen.choice(rng, [2, 2, 3])) for _ in range(L)]
    dtype = gen.choice(rng, gen.DTYPES)
    opts = {}
    r = rng.random()
    if r < 0.4:
        opts["cutoff"] = 0.0
    elif r < 0.5:
        opts["cutoff"] = 1e-12
    if rng.random() < 0.15:
        opts["max_bond"] = int(rng.integers(1, 4))
    if rng.random() < 0.5:
        psi = gen.rand_array(rng, (int(np.prod(dims)),), dtype)
        if rng.random() < 0.3:
            psi = psi.reshape(-1, 1)
        d = dims if rng.random() < 0.7 or len(set(dims)) > 1 else dims[0]
        if isinstance(d, int) and len(set(dims)) == 1:
            pass
        gen.attempt(qtn.MatrixProductState.from_dense, psi, dims=d, **opts)
        return {"kind": "mps", "dims": dims}
    L = min(L, 4)
    dims = dims[:L]
    D = int(np.prod(dims))
    A = gen.rand_array(rng, (D, D), dtype)
    kw = dict(opts)
    if rng.random() < 0.6:
        Ltot = L + int(rng.integers(0, 4))
        sites = sorted(int(i) for i in rng.choice(Ltot, size=L, replace=False))
        if rng.random() < 0.4:
            rng.shuffle(sites)
        kw["sites"] = [int(q) for q in sites]
        kw["L"] = Ltot
    gen.attempt(qtn.MatrixProductOperator.from_dense, A, dims=dims, **kw)
    return {"kind": "mpo", "dims": dims, "sites": kw.get("sites")}


def wl_generators(rng, rec, tier):
    import quimb.tensor as qtn
    L = int(rng.integers(2, 7))
    dtype = gen.choice(rng, gen.DTYPES)
    which = gen.choice(rng, list(GENERATORS))
    cyc = bool(rng.random() < 0.25)
    kw = {}
    if which == "MPS_product_state":
        arrays = [gen.rand_array(rng, (int(gen.choice(rng, [2, 3])),), dtype) for _ in range(L)]
        if rng.random() < 0.3:
            arrays = [a.reshape(1, -1) if rng.random() < 0.5 else a for a in arrays]
        gen.attempt(qtn.MPS_product_state, arrays, cyclic=cyc)
    elif which == "MPS_computational_state":
        b = "".join(gen.choice(rng, ["0", "1", "+", "-"]) for _ in range(L))
        gen.attempt(qtn.MPS_computational_state, b if rng.random() < 0.5 else [int(c) if c in "01" else c for c in b],
                    dtype=dtype, cyclic=cyc)
    elif which == "MPS_neel_state":
        gen.attempt(qtn.MPS_neel_state, L, down_first=bool(rng.random() < 0.5), dtype=dtype)
    elif which == "MPS_ghz_state":
        gen.attempt(qtn.MPS_ghz_state, L, dtype=dtype)
    elif which == "MPS_w_state":
        gen.attempt(qtn.MPS_w_state, L, dtype=dtype)
    elif which == "MPS_zero_state":
        gen.attempt(qtn.MPS_zero_state, L, bond_dim=int(rng.integers(1, 4)),
                    phys_dim=int(gen.choice(rng, [2, 3])), cyclic=cyc, dtype=dtype)
    elif which == "MPO_identity":
        L = min(L, 5)
        if rng.random() < 0.4:
            sites = sorted(int(i) for i in rng.choice(L + 3, size=max(L - 1, 2), replace=False))
            gen.attempt(qtn.MPO_identity, L + 3, sites=sites, phys_dim=2, dtype=dtype)
        else:
            gen.attempt(qtn.MPO_identity, L, phys_dim=int(gen.choice(rng, [2, 3])), dtype=dtype, cyclic=cyc)
    elif which == "MPO_zeros":
        gen.attempt(qtn.MPO_zeros, min(L, 5), phys_dim=int(gen.choice(rng, [2, 3])), dtype=dtype, cyclic=cyc)
    elif which == "MPO_product_operator":
        L = min(L, 4)
        arrays = [gen.rand_array(rng, (d, d), dtype) for d in
                  [int(gen.choice(rng, [2, 3])) for _ in range(L)]]
        gen.attempt(qtn.MPO_product_operator, arrays, cyclic=cyc)
    else:
        L = min(L, 5)
        S = gen.choice(rng, [0.5, 0.5, 1.0])
        if S == 1.0:
            L = min(L, 4)
        j = float(np.round(rng.normal(), 3))
        b = float(np.round(rng.normal(), 3)) if rng.random() < 0.7 else 0.0
        if which == "MPO_ham_ising":
            gen.attempt(qtn.MPO_ham_ising, L, j=j, bx=b, S=S, cyclic=cyc)
        elif which == "MPO_ham_XY":
            jj = j if rng.random() < 0.5 else (j, float(np.round(rng.normal(), 3)))
            gen.attempt(qtn.MPO_ham_XY, L, j=jj, bz=b, S=S, cyclic=cyc)
        elif which == "MPO_ham_heis":
            jj = j if rng.random() < 0.5 else tuple(float(np.round(x, 3)) for x in rng.normal(size=3))
            gen.attempt(qtn.MPO_ham_heis, L, j=jj, bz=b, S=S, cyclic=cyc)
        else:
            gen.attempt(qtn.MPO_ham_XXZ, L, float(np.round(rng.normal(), 3)), jxy=j, S=S, cyclic=cyc)
    return {"generator": which, "L": L, "cyclic": cyc}


def wl_arith(rng, rec, tier):
    import quimb.tensor as qtn
    cyc = bool(rng.random() < 0.2)
    if rng.random() < 0.5:
        L = int(rng.integers(2, 7))
        a, phys = rand_mps(rng, L, cyclic=cyc)
        b, _ = rand_mps(rng, L, phys=phys, cyclic=cyc)
        kind = "mps"
    else:
        L = int(rng.integers(2, 5))
        a, phys = rand_mpo(rng, L, cyclic=cyc)
        b, _ = rand_mpo(rng, L, phys=phys, cyclic=cyc)
        kind = "mpo"
    ops = [lambda: a + b, lambda: a - b,
           lambda: (a.add_MPS(b) if kind == "mps" else a.add_MPO(b)),
           lambda: (a.add_MPS(b, compress=True, cutoff=0.0) if kind == "mps" else
                    a.add_MPO(b, compress=True, cutoff=0.0))]
    for _ in range(2):
        gen.attempt(gen.choice(rng, ops))
    # multiplication by an exact zero: the zero vector / operator, not NaN
    z = gen.choice(rng, [0.0, np.float64(0.0), 0])
    rz = gen.attempt2(lambda: a * z) if rng.random() < 0.5 else gen.attempt2(a.multiply, z)
    if rz is not gen.REJECTED and rz is not None:
        from ..core import dense_of
        rec.busy = True
        try:
            dz = dense_of(rz, max_size=1 << 16)
        except Exception:
            dz = None
        finally:
            rec.busy = False
        if dz is not None:
            arr = np.asarray(dz[0])
            rec.check("arith", "times_zero", bool(np.all(np.isfinite(arr)) and not np.any(arr)),
                      mech="arith:times_zero:not_the_zero_element",
                      detail={"kind": kind, "nan": bool(np.isnan(arr).any()), "max": float(np.nanmax(np.abs(arr))) if arr.size else 0.0},
                      sig=("times_zero", kind, type(z).__name__))
    # queries handled by expec_TN_1D
    if kind == "mps":
        gen.attempt(lambda: a.H @ b)
        gen.attempt(lambda: qtn.expec_TN_1D(a.H, b))
        if not cyc:
            keep = sorted(int(i) for i in rng.choice(L, size=int(rng.integers(1, L + 1)), replace=False))
            gen.attempt(a.partial_trace_to_mpo, keep, rescale_sites=bool(rng.random() < 0.5))
        gen.attempt(a.permute_arrays, gen.choice(rng, ["lrp", "prl", "lpr", "rpl"]))
    else:
        sysa = [int(i) for i in rng.choice(L, size=int(rng.integers(1, L + 1)), replace=False)]
        gen.attempt(a.partial_transpose, sysa)
        gen.attempt(a.permute_arrays, gen.choice(rng, ["lrud", "udlr", "ldur", "rdul"]))
        x, _ = rand_mps(rng, L, phys=phys, cyclic=cyc)
        y, _ = rand_mps(rng, L, phys=phys, cyclic=cyc)
        gen.attempt(lambda: qtn.expec_TN_1D(*qtn.tensor_network_align(y.H, a, x)))
    return {"kind": kind, "L": L, "cyclic": cyc}


def wl_apply(rng, rec, tier):
    import quimb.tensor as qtn
    cyc = bool(rng.random() < 0.15)
    L = int(rng.integers(2, 6))
    A, phys = rand_mpo(rng, L, cyclic=cyc)
    sub = False
    if rng.random() < 0.35 and L >= 3 and not cyc:
        # sub-operator on a subset of sites
        n = int(rng.integers(1, L))
        sites = sorted(int(i) for i in rng.choice(L, size=n, replace=False))
        d = phys[0]
        M = gen.rand_array(rng, (d ** n, d ** n), gen.choice(rng, ["float64", "complex128"]))
        if rng.random() < 0.4:
            rng.shuffle(sites)
        A = gen.attempt(qtn.MatrixProductOperator.from_dense, M, dims=d, sites=[int(q) for q in sites], L=L,
                        cutoff=0.0)
        sub = True
        if A is None:
            return {"rejected": "submpo"}
    kw = {}
    r = rng.random()
    if r < 0.3:
        kw = {"contract": True}
    elif r < 0.55:
        kw = {"compress": True, "cutoff": 0.0}
    elif r < 0.7:
        kw = {"compress": True, "max_bond": int(rng.integers(1, 5))}
    elif r < 0.8:
        kw = {"compress": True}
    if rng.random() < 0.55:
        x, _ = rand_mps(rng, L, phys=phys, cyclic=cyc)
        wa = gen.choice(rng, ["lower", "upper"])
        gen.attempt(A.apply, x, which_A=wa, **kw)
        return {"kind": "op_vec", "L": L, "sub": sub, "kw": sorted(kw)}
    B, _ = rand_mpo(rng, L, phys=phys, cyclic=cyc)
    wa, wb = gen.choice(rng, ["lower", "upper"]), gen.choice(rng, ["lower", "upper"])
    gen.attempt(A.apply, B, which_A=wa, which_B=wb, **kw)
    if sub and rng.random() < 0.5:
        gen.attempt(A.fill_empty_sites, gen.choice(rng, ["full", "minimal"]))
    return {"kind": "op_op", "L": L, "sub": sub, "kw": sorted(kw)}


def wl_fill(rng, rec, tier):
    import quimb.tensor as qtn
    L = int(rng.integers(2, 7))
    n = int(rng.integers(1, min(L, 4) + 1))
    sites = sorted(int(i) for i in rng.choice(L, size=n, replace=False))
    d = 2
    dt = gen.choice(rng, ["float64", "complex128"])
    if rng.random() < 0.5 or n == 1:
        M = gen.rand_array(rng, (d ** n, d ** n), dt)
        A = gen.attempt(qtn.MatrixProductOperator.from_dense, M, dims=d, sites=sites, L=L, cutoff=0.0)
    else:
        # product of one-site operators: no bonds at all between distant sites
        arrays = [gen.rand_array(rng, (d, d), dt) for _ in sites]
        if n == 1:
            A = gen.attempt(qtn.MatrixProductOperator, arrays, sites=sites, L=L, shape="ud")
        else:
            arrays = [a.reshape((1,) * (1 if i in (0, n - 1) else 2) + (d, d)) for i, a in enumerate(arrays)]
            A = gen.attempt(qtn.MatrixProductOperator, arrays, sites=sites, L=L, shape="lrud")
    if A is None:
        return {"rejected": True}
    if rng.random() < 0.4:
        # present sites not joined by any bond at all (what squeeze leaves of a product)
        gen.attempt(A.squeeze_)
    gen.attempt(A.fill_empty_sites, gen.choice(rng, ["full", "minimal"]))
    # constructors given a subset of sites: the geometry they declare (L, which sites
    # are present) and the open labels must be those of the sites given, the dense
    # value that of the arrays
    from ..core import dense_of
    n2 = int(rng.integers(1, min(L, 4) + 1))
    sub = sorted(int(i) for i in rng.choice(L, size=n2, replace=False))
    D = int(rng.integers(1, 4))
    what = gen.choice(rng, ["mps_arrays", "mpo_rand", "mpo_fill", "mpo_identity"])
    if what == "mps_arrays":
        arrs = []
        for i in range(n2):
            shp = (() if i == 0 else (D,)) + (() if i == n2 - 1 else (D,)) + (d,)
            arrs.append(gen.rand_array(rng, shp, dt))
        obj = gen.attempt2(qtn.MatrixProductState, arrs, sites=sub, L=L)
        want_outer = None if obj is gen.REJECTED else {obj.site_ind(i) for i in sub}
    elif what == "mpo_rand":
        obj = gen.attempt2(qtn.MPO_rand, L, D, phys_dim=d, sites=sub, dtype=dt, seed=int(rng.integers(1 << 30)))
        want_outer = None if obj is gen.REJECTED else {obj.upper_ind(i) for i in sub} | {obj.lower_ind(i) for i in sub}
    elif what == "mpo_identity":
        obj = gen.attempt2(qtn.MPO_identity, L, sites=sub, phys_dim=d) if n2 >= 2 else gen.REJECTED
        want_outer = None if obj is gen.REJECTED else {obj.upper_ind(i) for i in sub} | {obj.lower_ind(i) for i in sub}
    else:
        obj = gen.attempt2(qtn.MatrixProductOperator.from_fill_fn, lambda shape: np.ones(shape), L, D, phys_dim=d, sites=sub)
        want_outer = None if obj is gen.REJECTED else {obj.upper_ind(i) for i in sub} | {obj.lower_ind(i) for i in sub}
    if obj is not gen.REJECTED:
        got_outer = set(obj.outer_inds())
        present = sorted(obj.gen_sites_present())
        ok = obj.L == L and present == sub and got_outer == want_outer
        rec.check("generator", "geometry", bool(ok), mech=f"generator:{what}:subset_of_sites:geometry",
                  detail={"L": L, "sites": sub, "got_L": int(obj.L), "present": [int(i) for i in present],
                          "extra_outer": sorted(map(str, got_outer - want_outer))[:4],
                          "missing_outer": sorted(map(str, want_outer - got_outer))[:4]},
                  sig=("subset_geometry", what, n2 == L))
    return {"L": L, "sites": sites, "sub": sub, "what": what}


METHODS = ["direct", "dm", "zipup", "zipup-first", "zipup-oversample", "sdc", "sdc-oversample",
           "src", "src-first", "src-oversample", "srcmps", "srcmps-first", "srcmps-oversample",
           "fit", "fit-zipup", "fit-projector", "fit-oversample"]


def wl_compress(rng, rec, tier):
    import quimb.tensor as qtn
    method = gen.choice(rng, METHODS)
    kind = gen.choice(rng, ["mps", "mpo_mps", "mpo_mpo", "sub_mps"])
    dtype = gen.choice(rng, gen.DTYPES, p=[0.4, 0.4, 0.1, 0.1])
    L = int(rng.integers(2, 7))
    if kind == "mps":
        x, phys = rand_mps(rng, L, dtype=dtype, maxd=5)
        tn = x
    elif kind == "mpo_mps":
        L = min(L, 6)
        x, phys = rand_mps(rng, L, dtype=dtype, maxd=3)
        A, _ = rand_mpo(rng, L, dtype=dtype, phys=phys, maxd=2)
        tn = gen.attempt(x.gate_with_op_lazy, A)
    elif kind == "mpo_mpo":
        L = min(L, 4)
        A, phys = rand_mpo(rng, L, dtype=dtype, maxd=2, tags="A")
        B, _ = rand_mpo(rng, L, dtype=dtype, phys=phys, maxd=2, tags="B")
        tn = gen.attempt(B.gate_upper_with_op_lazy, A)
    else:
        L = max(L, 3)
        x, phys = rand_mps(rng, L, dtype=dtype, maxd=3, phys=[2] * L)
        n = int(rng.integers(1, L))
        sites = [int(i) for i in rng.choice(L, size=n, replace=False)]
        M = gen.rand_array(rng, (2 ** n, 2 ** n), dtype)
        A = gen.attempt(qtn.MatrixProductOperator.from_dense, M, sites=sites, cutoff=0.0)
        tn = None if A is None else gen.attempt(x.gate_with_op_lazy, A)
    if tn is None:
        return {"rejected": kind}
    r = rng.random()
    max_bond = None if r < 0.25 else int(gen.choice(rng, [1, 2, 3, 64]))
    cutoff = gen.choice(rng, [0.0, 1e-12, 1e-10, 1e-3], p=[0.35, 0.2, 0.3, 0.15])
    kw = {"max_bond": max_bond, "cutoff": cutoff, "method": method,
          "sweep_reverse": bool(rng.random() < 0.5)}
    if "src" in method or "fit" in method:
        kw["seed"] = int(rng.integers(1 << 30))
    if ("src" in method or "fit" in method or "oversample" in method or "first" in method) \
            and max_bond is None:
        kw["max_bond"] = 64
    if rng.random() < 0.15:
        kw["equalize_norms"] = gen.choice(rng, [True, 1.0])
    if rng.random() < 0.1:
        kw["normalize"] = True
    if rng.random() < 0.1:
        kw["canonize"] = False
    # stored exponents (what equalize_norms / strip_exponent leave behind), sums of
    # several networks for the fitting methods, in-place spelling
    extra = {}
    if rng.random() < 0.3:
        tn = tn.copy()
        tn.exponent = float(gen.choice(rng, [1.0, -1.0, 0.5]))
        extra["exponent"] = tn.exponent
    target = tn
    if method.startswith("fit") and kind == "mps" and rng.random() < 0.3:
        y, _ = rand_mps(rng, L, dtype=dtype, maxd=3, phys=phys)
        if rng.random() < 0.6:
            y.exponent = -float(tn.exponent) if tn.exponent else float(gen.choice(rng, [1.0, -0.5]))
        target = [tn, y]
        extra["sum"] = [float(tn.exponent), float(y.exponent)]
    if rng.random() < 0.25:
        kw["inplace"] = True
        extra["inplace"] = True
    gen.attempt(qtn.tensor_network_1d_compress, target, **kw)
    return {"kind": kind, "method": method, "L": L, "max_bond": kw["max_bond"], "cutoff": cutoff, **extra}


def wl_flat_compress(rng, rec, tier):
    L = int(rng.integers(2, 7))
    x, phys = rand_mps(rng, L, maxd=5)
    form = gen.choice(rng, [None, "left", "right", "flat", int(rng.integers(0, L))])
    kw = {}
    if rng.random() < 0.5:
        kw["max_bond"] = int(rng.integers(1, 6))
    if rng.random() < 0.6:
        kw["cutoff"] = gen.choice(rng, [0.0, 1e-12, 1e-3])
    if rng.random() < 0.4:
        gen.attempt(x.compress_site, int(rng.integers(0, L)), **kw)
    else:
        gen.attempt(x.compress, form, **kw)
    if rng.random() < 0.3:
        A, _ = rand_mpo(rng, min(L, 4))
        gen.attempt(A.compress, gen.choice(rng, [None, "left", "right"]), **kw)
    return {"L": L, "form": str(form), "kw": sorted(kw)}


WORKLOADS = [
    ("from_dense", 3, wl_from_dense),
    ("generators", 3, wl_generators),
    ("arith", 4, wl_arith),
    ("apply", 4, wl_apply),
    ("fill", 1, wl_fill),
    ("compress", 5, wl_compress),
    ("flat_compress", 2, wl_flat_compress),
]
