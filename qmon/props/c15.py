"""C15 - kron / embed / permute / partial trace obey their algebra."""

import itertools

import numpy as np

from .. import attach, gen
from ..core import close
from ..ref import linalg as rl

PROP = "C15"
NCASES = {"quick": 30000, "thorough": 600000}
BUDGET = {"quick": 50, "thorough": 900}
RULE = ("random subsystem dimension lists (1-6 entries of 1-4), index subsets in "
        "any order, kets/bras/density operators, dense + csr/csc/coo/bsr, all "
        "ownership row ranges for small D; non-trivial = >=2 subsystems and a "
        "non-identity operand; distinct = (function, dims, inds/keep/perm, "
        "format, ownership) signatures")
ASSUMPTIONS = ["reference = explicit numpy kron / reshape-transpose / einsum trace",
               "comparison tolerance 1e3*eps*scale (these are exact algebraic "
               "rearrangements)"]
DECIDING = [("kron", "value"), ("ikron", "value"), ("partial_trace", "value"),
            ("permute", "value"), ("pkron", "value")]
MANIFEST = dict(
    technique="runtime postcondition monitors on quimb.kron/ikron/pkron/permute/partial_trace/itrace/partial_transpose/ham_* vs explicit numpy kron/einsum references; adjoint and ket/projector/sparse metamorphic relations",
    text="Each monitored call made by the seeded workloads is compared with the explicit Kronecker/reshape/einsum reference computed from its own arguments (including every ownership row range for small spaces, nd coordinates with wrap/trim, overlay, cyclic placement, all sparse formats); the workloads additionally assert Tr[ikron(A)rho]=Tr[A ptr(rho)], ket==projector, dense==sparse.",
    note="Trusted: numpy kron/einsum. ikron overlay is judged only for contiguous target blocks (the documented use); partial_trace keeps subsystems in ascending order.",
    ref="3/C15")

EPS = 2.3e-16
FACTOR = 1e3
FORMATS = ["csr", "csc", "coo", "bsr"]


def _sig_arr(x):
    return (tuple(np.shape(x)), getattr(x, "format", "dense"))


def _cmp(rec, entry, clause, got, want, sig, mech=None, detail=None):
    got = rl.dense(got)
    want = np.asarray(want)
    scale = float(np.abs(want).max()) if want.size else 0.0
    if got.shape != want.shape:
        rec.check(entry, clause, False, mech=(mech or f"{entry}:{clause}") + ":shape",
                  detail=dict(detail or {}, got=got.shape, want=want.shape))
        return False
    ok, err, bound = close(got, want, scale, EPS, FACTOR)
    rec.check(entry, clause, ok, mech=mech or f"{entry}:{clause}",
              detail=dict(detail or {}, err=err, bound=bound), sig=sig)
    return ok


def flat_dims_inds(dims, inds, cyclic=False, trim=False):
    """independent flattening of nd dims/coordinates (row-major)"""
    arr = np.asarray(dims)
    shape = arr.shape
    flat = tuple(int(x) for x in arr.ravel())
    out = []
    for c in inds:
        c = tuple(int(x) for x in (c if np.ndim(c) else (c,)))
        if cyclic:
            c = tuple(x % s for x, s in zip(c, shape))
        elif any(not (0 <= x < s) for x, s in zip(c, shape)):
            if trim:
                continue
            raise ValueError("out of range")
        out.append(int(np.ravel_multi_index(c, shape)))
    return flat, tuple(out)


def install(rec):
    import quimb as qu
    from quimb import core, calc
    import scipy.sparse as sp

    # ---- kron -----------------------------------------------------------
    def pre_kron(*ops, stype=None, coo_build=False, parallel=False, ownership=None):
        ops = tuple(ops)
        D = int(np.prod([o.shape[0] for o in ops]))
        if D > 4096 or not ops:
            return None
        return {"ref": rl.kron_all(ops), "sparse": any(sp.issparse(o) for o in ops)}

    def post_kron(snap, result, *ops, stype=None, coo_build=False, parallel=False,
                  ownership=None):
        want = snap["ref"]
        if ownership is not None:
            want = want[ownership[0]:ownership[1], :]
        sig = (tuple(_sig_arr(o) for o in ops), stype, coo_build, parallel, ownership)
        _cmp(rec, "kron", "value", result, want, sig,
             mech="kron:value" + (":ownership" if ownership else ""),
             detail={"ownership": ownership, "shapes": [o.shape for o in ops]})
        if snap["sparse"]:
            fmt = getattr(result, "format", None)
            rec.check("kron", "format", fmt is not None and (stype is None or fmt == stype),
                      mech="kron:format", detail={"stype": stype, "got": fmt})

    attach.install(core, "kron", attach.monitored(rec, "kron", pre_kron, post_kron,
                                                  fam="kron"))

    # ---- ikron ------------------------------------------------------------
    def ikron_ref(ops, dims, inds):
        if isinstance(ops, (np.ndarray,)) or sp.issparse(ops):
            ops = (ops,)
        ops = list(ops)
        if np.ndim(dims) > 1:
            dims, inds = flat_dims_inds(dims, inds)
        elif np.ndim(inds) == 0:
            inds = (int(inds),)
        dims = [int(d) for d in dims]
        inds = [int(i) for i in inds]
        if len(set(inds)) != len(inds):
            return None
        D = int(np.prod(dims))
        if D > 4096 or any(d < 1 for d in dims):
            return None
        if len(ops) == 1 and rl.dense(ops[0]).shape[0] != dims[inds[0]]:
            # overlay of one operator on a contiguous block
            s = sorted(inds)
            if s != list(range(s[0], s[0] + len(s))):
                return None
            if int(np.prod([dims[i] for i in s])) != ops[0].shape[0]:
                return None
            return rl.embed(ops[0], dims, s)
        # cyclic placement, operator k -> inds[k]
        full = None
        mats = {}
        for k, i in enumerate(inds):
            o = rl.dense(ops[k % len(ops)])
            if o.shape != (dims[i], dims[i]):
                return None
            mats[i] = o
        return rl.kron_all([mats.get(i, np.eye(dims[i])) for i in range(len(dims))])

    def pre_ikron(ops, dims, inds, sparse=None, stype=None, coo_build=False,
                  parallel=False, ownership=None):
        try:
            ref = ikron_ref(ops, dims, inds)
        except Exception:
            ref = None
        if ref is None:
            rec.count("ikron", "value", "out_of_domain")
            return None
        return {"ref": ref}

    def post_ikron(snap, result, ops, dims, inds, sparse=None, stype=None,
                   coo_build=False, parallel=False, ownership=None):
        want = snap["ref"]
        if ownership is not None:
            want = want[ownership[0]:ownership[1], :]
        sig = (repr(dims), repr(inds), sparse, stype, coo_build, ownership)
        _cmp(rec, "ikron", "value", result, want, sig,
             mech="ikron:value" + (":ownership" if ownership else ""),
             detail={"dims": dims, "inds": inds, "ownership": ownership})
        if sp.issparse(result) and stype is not None:
            rec.check("ikron", "format", result.format == stype,
                      mech="ikron:format", detail={"stype": stype})

    attach.install(core, "ikron", attach.monitored(rec, "ikron", pre_ikron, post_ikron,
                                                   fam="ikron"))

    # ---- pkron ---------------------------------------------------------------
    def pre_pkron(op, dims, inds, **kw):
        dims = [int(d) for d in dims]
        inds = [int(i) for i in inds]
        if int(np.prod(dims)) > 4096 or len(set(inds)) != len(inds):
            return None
        if int(np.prod([dims[i] for i in inds])) != op.shape[0]:
            return None
        return {"ref": rl.embed(op, dims, inds)}

    def post_pkron(snap, result, op, dims, inds, **kw):
        _cmp(rec, "pkron", "value", result, snap["ref"],
             (tuple(dims), tuple(inds), _sig_arr(op), repr(sorted(kw.items()))),
             detail={"dims": list(dims), "inds": list(inds)})

    attach.install(core, "pkron", attach.monitored(rec, "pkron", pre_pkron, post_pkron,
                                                   fam="pkron"))

    # ---- permute ---------------------------------------------------------------
    def pre_perm(p, dims, perm):
        if int(np.prod(dims)) > 4096:
            return None
        return {"ref": rl.permute(p, dims, perm)}

    def post_perm(snap, result, p, dims, perm):
        _cmp(rec, "permute", "value", result, snap["ref"],
             (tuple(dims), tuple(perm), _sig_arr(p)),
             detail={"dims": list(dims), "perm": list(perm), "fmt": _sig_arr(p)})

    attach.install(core, "permute", attach.monitored(rec, "permute", pre_perm, post_perm,
                                                     fam="perm"))

    # ---- partial_trace -----------------------------------------------------------
    def pre_ptr(p, dims, keep):
        if np.ndim(dims) > 1:
            fd, fk = flat_dims_inds(dims, keep)
        else:
            fd = tuple(int(d) for d in dims)
            fk = (int(keep),) if np.ndim(keep) == 0 else tuple(int(k) for k in keep)
        if int(np.prod(fd)) > 4096:
            return None
        return {"ref": rl.ptrace(p, fd, fk), "fd": fd, "fk": fk}

    def post_ptr(snap, result, p, dims, keep):
        _cmp(rec, "partial_trace", "value", result, snap["ref"],
             (snap["fd"], snap["fk"], _sig_arr(p)),
             detail={"dims": snap["fd"], "keep": snap["fk"], "fmt": _sig_arr(p)})

    attach.install(core, "partial_trace", attach.monitored(
        rec, "partial_trace", pre_ptr, post_ptr, fam="ptr"))

    # ---- itrace ---------------------------------------------------------------------
    def pre_itrace(a, axes=(0, 1)):
        a = np.asarray(a)
        if a.size > 1 << 16:
            return None
        if isinstance(axes[0], (int, np.integer)):
            prs = [(int(axes[0]), int(axes[1]))]
        else:
            prs = list(zip(map(int, axes[0]), map(int, axes[1])))
        sub = list(range(a.ndim))
        for x, y in prs:
            sub[y] = sub[x]
        gone = {x for pr in prs for x in pr}
        out = [i for i in range(a.ndim) if i not in gone]
        return {"ref": np.einsum(a, sub, out)}

    def post_itrace(snap, result, a, axes=(0, 1)):
        _cmp(rec, "itrace", "value", result, snap["ref"],
             (np.shape(a), repr(axes)), detail={"axes": axes})

    attach.install(core, "itrace", attach.monitored(rec, "itrace", pre_itrace,
                                                    post_itrace, fam="itr"))

    # ---- partial_transpose -------------------------------------------------------------
    def pre_pt(p, dims=(2, 2), sysa=0):
        if int(np.prod(dims)) > 1024:
            return None
        return {"ref": rl.partial_transpose(p, dims, sysa)}

    def post_pt(snap, result, p, dims=(2, 2), sysa=0):
        _cmp(rec, "partial_transpose", "value", result, snap["ref"],
             (tuple(dims), repr(sysa), _sig_arr(p)), detail={"dims": dims, "sysa": sysa})

    attach.install(calc, "partial_transpose", attach.monitored(
        rec, "partial_transpose", pre_pt, post_pt, fam="pt"))


# ---------------------------------------------------------------------------
# workloads
# ---------------------------------------------------------------------------

def _rand_dims(rng, nmax=6, dmax=4, Dmax=512, Dmin=1):
    while True:
        n = int(rng.integers(1, nmax + 1))
        dims = [int(rng.integers(1, dmax + 1)) for _ in range(n)]
        if Dmin <= int(np.prod(dims)) <= Dmax:
            return dims


def _rand_op(rng, d, sparse_fmt=None, dtype=None, herm=False):
    import scipy.sparse as sp
    dtype = dtype or gen.choice(rng, ["float64", "complex128"])
    a = gen.rand_array(rng, (d, d), dtype)
    if sparse_fmt:
        a = a * (rng.random((d, d)) < 0.6)
        return sp.coo_matrix(a).asformat(sparse_fmt)
    return a


def _maybe_fmt(rng):
    return gen.choice(rng, FORMATS) if rng.random() < 0.4 else None


def wl_kron(rng, rec, tier):
    import quimb as qu
    k = int(rng.integers(1, 5))
    shapes = []
    ops = []
    fmt = _maybe_fmt(rng)
    D = 1
    for _ in range(k):
        d = int(rng.integers(1, 5))
        D *= d
        kind = gen.choice(rng, ["op", "op", "ket"]) if fmt is None else "op"
        if kind == "op":
            ops.append(_rand_op(rng, d, fmt if rng.random() < 0.8 else None))
        else:
            ops.append(gen.rand_array(rng, (d, 1), "complex128"))
    kinds = {o.shape[1] == 1 for o in ops}
    if len(kinds) > 1:
        ops = [o for o in ops if o.shape[1] != 1] or ops[:1]
        D = int(np.prod([o.shape[0] for o in ops]))
    kw = {}
    if fmt and rng.random() < 0.5:
        kw["stype"] = gen.choice(rng, FORMATS)
    if fmt and rng.random() < 0.3:
        kw["coo_build"] = True
    if rng.random() < 0.2:
        kw["parallel"] = True
    gen.attempt(qu.kron, *ops, **kw)
    # ownership: all ranges for small D, sampled otherwise
    if D <= 36:
        ranges = [(a, b) for a in range(D) for b in range(a + 1, D + 1)]
        if len(ranges) > 120:
            idx = rng.choice(len(ranges), size=120, replace=False)
            ranges = [ranges[int(i)] for i in idx]
    else:
        ranges = []
        for _ in range(30):
            a = int(rng.integers(0, D))
            b = int(rng.integers(a + 1, D + 1))
            ranges.append((a, b))
    for own in ranges:
        gen.attempt(qu.kron, *ops, ownership=own, **kw)
    return {"shapes": [o.shape for o in ops], "fmt": fmt, "kw": kw, "nranges": len(ranges)}


def wl_ikron(rng, rec, tier):
    import quimb as qu
    dims = _rand_dims(rng)
    n = len(dims)
    fmt = _maybe_fmt(rng)
    mode = gen.choice(rng, ["single", "overlay", "cyclic", "multi", "nd"])
    kw = {}
    if fmt and rng.random() < 0.5:
        kw["stype"] = gen.choice(rng, FORMATS)
    if rng.random() < 0.3:
        kw["sparse"] = bool(rng.random() < 0.5)
    if rng.random() < 0.2:
        kw["coo_build"] = True
    desc = {"dims": dims, "mode": mode, "fmt": fmt, "kw": kw}
    if mode == "single":
        i = int(rng.integers(0, n))
        op = _rand_op(rng, dims[i], fmt)
        args = (op, dims, i if rng.random() < 0.5 else [i])
    elif mode == "overlay":
        a = int(rng.integers(0, n))
        b = int(rng.integers(a, n))
        inds = list(range(a, b + 1))
        d = int(np.prod([dims[i] for i in inds]))
        op = _rand_op(rng, d, fmt)
        if rng.random() < 0.3:
            rng.shuffle(inds)
        args = (op, dims, inds)
    elif mode == "cyclic":
        # one operator placed at several equal-size sites
        d = gen.choice(rng, dims)
        sites = [i for i in range(n) if dims[i] == d]
        k = int(rng.integers(1, len(sites) + 1))
        inds = [int(x) for x in rng.choice(sites, size=k, replace=False)]
        nops = int(rng.integers(1, k + 1))
        ops = [_rand_op(rng, d, fmt) for _ in range(nops)]
        args = (ops, dims, inds)
    elif mode == "multi":
        k = int(rng.integers(1, n + 1))
        inds = [int(x) for x in rng.choice(n, size=k, replace=False)]
        ops = [_rand_op(rng, dims[i], fmt) for i in inds]
        args = (ops, dims, inds)
    else:
        r, c = int(rng.integers(1, 4)), int(rng.integers(1, 4))
        d = int(rng.integers(2, 4))
        while d ** (r * c) > 1024:
            # keep the dense result (D x D complex) in the tens of megabytes: a
            # 3x3 grid of qutrits is 6 GB per call and gets the shard OOM-killed
            if c >= r:
                c -= 1
            else:
                r -= 1
        dims2 = [[d] * c for _ in range(r)]
        k = int(rng.integers(1, min(3, r * c) + 1))
        cells = [divmod(int(x), c) for x in rng.choice(r * c, size=k, replace=False)]
        ops = [_rand_op(rng, d, fmt) for _ in range(k)]
        args = (ops, dims2, cells)
        desc["dims"] = dims2
    desc["inds"] = args[2]
    gen.attempt(qu.ikron, *args, **kw)
    D = int(np.prod(np.asarray(desc["dims"]).ravel()))
    for _ in range(12 if D > 1 else 1):
        a = int(rng.integers(0, D))
        b = int(rng.integers(a + 1, D + 1))
        gen.attempt(qu.ikron, *args, ownership=(a, b), **kw)
    return desc


def wl_dim_map(rng, rec, tier):
    """nd coordinates with wrapping / trimming vs an independent ravel"""
    import quimb as qu
    nd = int(rng.integers(1, 4))
    shape = tuple(int(rng.integers(1, 4)) for _ in range(nd))
    dims = rng.integers(1, 4, size=shape)
    k = int(rng.integers(1, 5))
    cyclic = bool(rng.random() < 0.4)
    trim = bool(rng.random() < 0.4)
    coos = []
    for _ in range(k):
        coos.append(tuple(int(rng.integers(-s if (cyclic or trim) else 0,
                                           2 * s if (cyclic or trim) else s))
                          for s in shape))
    try:
        want = flat_dims_inds(dims, coos, cyclic, trim)
    except ValueError:
        want = None
    try:
        got = qu.core.dim_map(dims.tolist() if rng.random() < 0.5 else dims,
                              coos, cyclic=cyclic, trim=trim)
        got = (tuple(int(x) for x in got[0]), tuple(int(x) for x in got[1]))
    except Exception:
        rec.count("dim_map", "value", "rejected")
        return {"shape": shape, "coos": coos, "rejected": True}
    if want is None:
        rec.count("dim_map", "value", "out_of_domain")
    else:
        rec.check("dim_map", "value", got == want, mech="dim_map:value",
                  detail={"shape": shape, "coos": coos, "cyclic": cyclic, "trim": trim,
                          "got": got, "want": want},
                  sig=(shape, tuple(coos), cyclic, trim))
    return {"shape": shape, "coos": coos, "cyclic": cyclic, "trim": trim}


def wl_permute_pkron(rng, rec, tier):
    import quimb as qu
    dims = _rand_dims(rng, nmax=5, Dmax=128, Dmin=2)
    n = len(dims)
    D = int(np.prod(dims))
    fmt = _maybe_fmt(rng)
    perm = [int(x) for x in rng.permutation(n)]
    kind = gen.choice(rng, ["op", "ket"])
    if kind == "op":
        p = _rand_op(rng, D, fmt)
    else:
        import scipy.sparse as sp
        p = gen.rand_array(rng, (D, 1), "complex128")
        if fmt:
            p = sp.csr_matrix(p).asformat(fmt if fmt != "bsr" else "csr")
    gen.attempt(qu.permute, p, dims, perm)
    # pkron: random ordered subset
    k = int(rng.integers(1, n + 1))
    inds = [int(x) for x in rng.choice(n, size=k, replace=False)]
    d = int(np.prod([dims[i] for i in inds]))
    op = _rand_op(rng, d, fmt)
    kw = {}
    if fmt and rng.random() < 0.4:
        kw["stype"] = gen.choice(rng, FORMATS)
    got = gen.attempt(qu.pkron, op, dims, inds, **kw)
    # metamorphic: permute-then-embed == embed on permuted subsystems
    if got is not None and rng.random() < 0.5:
        got2 = gen.attempt(qu.permute, qu.pkron(op, [dims[i] for i in perm],
                                                [perm.index(i) for i in inds]),
                           [dims[i] for i in perm], [perm.index(i) for i in range(n)])
        if got2 is not None:
            _cmp(rec, "relation", "pkron_permute", got2, rl.dense(got),
                 (tuple(dims), tuple(inds), tuple(perm)))
    return {"dims": dims, "perm": perm, "inds": inds, "kind": kind, "fmt": fmt}


def wl_ptrace(rng, rec, tier):
    import quimb as qu
    import scipy.sparse as sp
    dims = _rand_dims(rng, nmax=5, Dmax=72, Dmin=2)  # (1,1) is ambiguous ket/op
    n = len(dims)
    D = int(np.prod(dims))
    k = int(rng.integers(1, n + 1))
    keep = [int(x) for x in rng.choice(n, size=k, replace=False)]
    if rng.random() < 0.5:
        keep = sorted(keep)
    psi = gen.rand_array(rng, (D, 1), "complex128")
    psi /= np.linalg.norm(psi)
    rank = int(rng.integers(1, 4))
    vs = gen.rand_array(rng, (D, rank), "complex128")
    rho = vs @ vs.conj().T
    rho /= np.trace(rho)
    fmt = _maybe_fmt(rng)
    r_ket = gen.attempt(qu.partial_trace, psi, dims, keep if k > 1 or rng.random() < 0.5 else keep[0])
    r_proj = gen.attempt(qu.partial_trace, psi @ psi.conj().T, dims, keep)
    if r_ket is not None and r_proj is not None:
        _cmp(rec, "relation", "ket_vs_projector", r_ket, rl.dense(r_proj),
             (tuple(dims), tuple(keep)))
    r_rho = gen.attempt(qu.partial_trace, rho, dims, keep)
    if fmt:
        r_sp = gen.attempt(qu.partial_trace, sp.coo_matrix(rho).asformat(fmt), dims, keep)
        if r_sp is not None and r_rho is not None:
            _cmp(rec, "relation", "dense_vs_sparse", r_sp, rl.dense(r_rho),
                 (tuple(dims), tuple(keep), fmt))
        gen.attempt(qu.partial_trace, sp.csr_matrix(psi), dims, keep)
    # adjoint identity  Tr[ikron(A) rho] == Tr[A ptr(rho)]  (contiguous keep)
    s = sorted(keep)
    if r_rho is not None:
        dk = int(np.prod([dims[i] for i in s]))
        A = gen.rand_array(rng, (dk, dk), "complex128")
        emb = gen.attempt(qu.pkron, A, dims, s)
        if emb is not None:
            lhs = np.trace(rl.dense(emb) @ rho)
            rhs = np.trace(A @ rl.dense(r_rho))
            ok, err, bound = close(lhs, rhs, float(np.abs(A).max()), EPS, 1e4)
            rec.check("relation", "ptr_adjoint_of_embed", ok,
                      mech="relation:ptr_adjoint_of_embed",
                      detail={"dims": dims, "keep": s, "err": err},
                      sig=(tuple(dims), tuple(s)))
    # nd dims
    if rng.random() < 0.3:
        r, c = int(rng.integers(1, 3)), int(rng.integers(1, 4))
        d = 2
        dims2 = [[d] * c for _ in range(r)]
        kk = int(rng.integers(1, r * c + 1))
        cells = [divmod(int(x), c) for x in rng.choice(r * c, size=kk, replace=False)]
        v = gen.rand_array(rng, (d ** (r * c), 1), "complex128")
        gen.attempt(qu.partial_trace, v, dims2, cells)
    # itrace + partial transpose
    shape = tuple(dims) + tuple(dims)
    a = gen.rand_array(rng, shape, "complex128")
    prs = [(i, n + i) for i in range(n) if rng.random() < 0.5]
    if prs:
        if len(prs) == 1 and rng.random() < 0.5:
            gen.attempt(qu.itrace, a, prs[0])
        else:
            gen.attempt(qu.itrace, a, ([p[0] for p in prs], [p[1] for p in prs]))
    sysa = [int(x) for x in rng.choice(n, size=int(rng.integers(1, n + 1)), replace=False)]
    gen.attempt(qu.partial_transpose, rho, dims, sysa if rng.random() < 0.7 or len(sysa) > 1 else sysa[0])
    gen.attempt(qu.partial_transpose, psi, dims, sysa)
    return {"dims": dims, "keep": keep, "fmt": fmt}


def wl_ham_ownership(rng, rec, tier):
    """ham_* builders: rows [a,b) of the un-owned matrix"""
    import quimb as qu
    n = int(rng.integers(2, 6))
    which = gen.choice(rng, ["heis", "ising", "XY", "XXZ", "j1j2", "mbl", "heis2d", "hub"])
    cyclic = bool(rng.random() < 0.5)
    sparse = bool(rng.random() < 0.6)
    kw = {"cyclic": cyclic, "sparse": sparse}
    if which == "heis":
        f = lambda **k: qu.ham_heis(n, j=(1.0, 0.7, 0.3), b=(0.1, 0.2, 0.3), **kw, **k)
        D = 2 ** n
    elif which == "ising":
        f = lambda **k: qu.ham_ising(n, jz=0.8, bx=0.4, **kw, **k)
        D = 2 ** n
    elif which == "XY":
        f = lambda **k: qu.ham_XY(n, jxy=0.9, bz=0.2, **kw, **k)
        D = 2 ** n
    elif which == "XXZ":
        f = lambda **k: qu.ham_XXZ(n, delta=0.6, **kw, **k)
        D = 2 ** n
    elif which == "j1j2":
        n2 = max(n, 3)
        f = lambda **k: qu.ham_j1j2(n2, j1=1.0, j2=0.4, bz=0.1, **kw, **k)
        D = 2 ** n2
    elif which == "mbl":
        sd = int(rng.integers(1 << 30))
        f = lambda **k: qu.ham_mbl(n, dh=1.3, seed=sd, **kw, **k)
        D = 2 ** n
    elif which == "heis2d":
        f = lambda **k: qu.ham_heis_2D(2, 2, j=1.0, bz=0.3, **kw, **k)
        D = 16
    else:
        f = lambda **k: qu.ham_hubbard_hardcore(n, t=0.5, V=1.1, mu=0.3, **kw, **k)
        D = 2 ** n
    try:
        full = rl.dense(f())
    except Exception:
        rec.count("ham_ownership", "rows", "rejected")
        return {"which": which, "rejected": True}
    for _ in range(6):
        a = int(rng.integers(0, D))
        b = int(rng.integers(a + 1, D + 1))
        part = gen.attempt(f, ownership=(a, b))
        if part is None:
            rec.count("ham_ownership", "rows", "rejected")
            continue
        _cmp(rec, "ham_ownership", "rows", part, full[a:b, :],
             (which, n, cyclic, sparse, a, b), mech="ham_ownership:rows",
             detail={"which": which, "n": n, "own": (a, b), "cyclic": cyclic})
    return {"which": which, "n": n, "cyclic": cyclic, "sparse": sparse}


WORKLOADS = [
    ("kron", 3, wl_kron),
    ("ikron", 4, wl_ikron),
    ("dim_map", 1, wl_dim_map),
    ("permute_pkron", 3, wl_permute_pkron),
    ("ptrace", 4, wl_ptrace),
    ("ham_ownership", 1, wl_ham_ownership),
]
