"""C10 - DMRG is variational and reports the energy of the state it returns.

Monitors on DMRG.solve / sweep: after each outermost call the reported energy
is compared with <psi|H|psi> of the normalised returned state computed from
the independently densified MPO (upper index = row, the library's ham.apply
convention), with the exact spectrum (variational bound, exactness when the
cap admits the ground state and the run converged) and the bond cap."""

import numpy as np

from .. import attach, gen
from ..core import to_numpy
from .c09 import GEOM, op_of, vec_of, mat

PROP = "C10"
NCASES = {"quick": 2500, "thorough": 40000}
BUDGET = {"quick": 80, "thorough": 1500}
RULE = ("open-boundary Hermitian MPO Hamiltonians: random Hermitian MPOs, spin models with "
        "fields/anisotropies and genuinely complex terms (XY - YX, Y fields), real symmetric "
        "controls; L 3-7, local dimension 2-3; DMRG1 and DMRG2; which SA/LA; bond-dimension and "
        "cutoff schedules; sweep sequences; random / product initial states; periodic chains for "
        "the energy/state consistency only; distinct = (class, L, d, kind, which, schedule sig)")
ASSUMPTIONS = [
    "the local eigensolver tolerance of the library's defaults is allowed in every energy "
    "comparison (1e-6 relative to the spectral width unless tighter agreement is observable)",
    "exactness is only required when solve() reports convergence, the cap admits the exact "
    "Schmidt ranks of the exact ground state and the ground level is non-degenerate",
    "periodic chains are exercised but not judged: the documented transfer-matrix approximation "
    "needs chains far longer than a dense reference can reach",
]
DECIDING = [("dmrg", "energy_of_state"), ("dmrg", "variational"), ("dmrg", "cap"), ("dmrg", "exact")]
SUITE = ["tests/test_tensor/test_tn1d/test_dmrg.py"]
MANIFEST = dict(
    technique="runtime postcondition monitors on DMRG.solve/sweep: reported energy vs <psi|H|psi> of the returned (normalised) state through an independently densified MPO in the library's operator-on-state convention, variational bound against exact diagonalisation, bond cap, monotone energies per untruncated sweep, exactness on convergence",
    text="Random Hermitian MPO Hamiltonians (real symmetric and genuinely complex), DMRG1/DMRG2 with bond/cutoff schedules and sweep sequences; after every solve/sweep the reported energy must be the energy of the returned state, not lie below the exact ground energy, bonds must respect the cap, and converged untruncated runs must match exact diagonalisation.",
    note="L <= 7 (dense reference).",
    ref="3/C10")


def rand_ham(rng):
    import quimb.tensor as qtn
    kind = gen.choice(rng, ["rand_herm", "spin_complex", "spin_real", "heis", "rand_herm_real"])
    cyclic = bool(rng.random() < 0.05)
    L = int(rng.integers(3, 8))
    d = 2
    if kind in ("rand_herm", "rand_herm_real"):
        d = int(gen.choice(rng, [2, 2, 3]))
        if d == 3:
            L = min(L, 5)
        dtype = "complex128" if kind == "rand_herm" else "float64"
        H = gen.attempt2(qtn.MPO_rand_herm, L, int(rng.integers(2, 5)), phys_dim=d, dtype=dtype,
                         seed=int(rng.integers(1 << 30)), cyclic=cyclic)
    elif kind == "heis":
        H = gen.attempt2(qtn.MPO_ham_heis, L, j=tuple(float(x) for x in rng.normal(size=3)),
                         bz=float(rng.normal()), cyclic=cyclic)
    else:
        S = 0.5
        b = qtn.SpinHam1D(S=S, cyclic=cyclic)
        b += float(rng.normal()), "Z", "Z"
        b += float(rng.normal()), "X", "X"
        if kind == "spin_complex":
            c = float(rng.normal())
            b += c, "X", "Y"
            b += -c, "Y", "X"
            b += float(rng.normal()), "Y"
        else:
            b += float(rng.normal()), "Y", "Y"
        b += float(rng.normal()), "Z"
        if rng.random() < 0.5:
            b += float(rng.normal()), "X"
        H = gen.attempt2(b.build_mpo, L)
    return kind, L, d, cyclic, H


STATE = {}


def install(rec):
    import quimb.tensor.tn1d.dmrg as dm

    def dense_ham(self):
        key = id(self)
        if key in STATE and STATE[key][0] is self:
            return STATE[key][1]
        r = op_of(self.ham)
        if not r:
            return None
        n = r[0].ndim // 2
        Hd = mat(r[0], n)
        herm = float(np.abs(Hd - Hd.conj().T).max())
        scale = float(np.abs(Hd).max()) or 1.0
        if herm > 1e-8 * scale:
            return None         # non-Hermitian input: outside the property's domain
        ev, evec = np.linalg.eigh(Hd)
        STATE.clear()
        STATE[key] = (self, (Hd, ev, evec))
        return STATE[key][1]

    def judge(self, entry, converged=None, cap=None):
        if self.L > 7 or type(self).__name__ == "DMRGX":
            return
        if self.cyclic:
            # the periodic algorithm relies on the documented transfer-matrix
            # (long chain) approximation, which does not hold on the short chains
            # a dense reference can reach: not judged
            rec.count("dmrg", "energy_of_state", "out_of_domain")
            return
        ref = dense_ham(self)
        if ref is None:
            rec.count("dmrg", "energy_of_state", "out_of_domain")
            return
        Hd, ev, evec = ref
        if not self.energies:
            return
        E = complex(np.asarray(to_numpy(self.energy)))
        psi = self.state
        r = vec_of(psi)
        if r is GEOM or not r:
            rec.check("dmrg", "state", False if r is GEOM else None, mech="dmrg:state_geometry",
                      detail={"outer": list(map(str, psi.outer_inds()))[:8]})
            return
        v = r[0].reshape(-1)
        nrm = float(np.linalg.norm(v))
        width = float(ev[-1] - ev[0]) or 1.0
        which = self.which
        sig = (type(self).__name__, self.L, Hd.shape[0], which, bool(self.cyclic), entry, self.opts.get("local_eig_ham_dense"))
        tol_rel = 1e-3 if self.cyclic else 1e-7
        rec.check("dmrg", "normalised", abs(nrm - 1.0) <= (1e-3 if self.cyclic else 1e-8),
                  mech="dmrg:state_not_normalised", detail={"norm": nrm, "cyclic": bool(self.cyclic)}, sig=sig)
        if nrm == 0:
            return
        vn = v / nrm
        e_state = complex(vn.conj() @ Hd @ vn)
        e_T = complex(vn.conj() @ Hd.T @ vn)
        ok = abs(E - e_state) <= tol_rel * width + 1e-10
        why = "value"
        if not ok and abs(E - e_T) <= tol_rel * width + 1e-10:
            why = "is_energy_of_transposed_hamiltonian"
        rec.check("dmrg", "energy_of_state", ok, mech=f"dmrg:reported_energy_not_energy_of_state:{why}",
                  detail={"E_reported": repr(E), "E_state": repr(e_state), "E_state_HT": repr(e_T),
                          "width": width, "cls": type(self).__name__, "cyclic": bool(self.cyclic),
                          "complex": bool(np.abs(Hd.imag).max() > 1e-12)}, sig=sig)
        rec.check("dmrg", "real", abs(E.imag) <= 1e-8 * width + 1e-12, mech="dmrg:energy_not_real",
                  detail={"E": repr(E)}, sig=sig)
        # variational bound
        if which == "SA":
            okv = E.real >= ev[0] - (1e-3 if self.cyclic else 1e-8) * width
        elif which == "LA":
            okv = E.real <= ev[-1] + (1e-3 if self.cyclic else 1e-8) * width
        else:
            okv = None
        rec.check("dmrg", "variational", okv, mech=f"dmrg:energy_beyond_exact_extremum:{which}",
                  detail={"E": E.real, "exact_min": float(ev[0]), "exact_max": float(ev[-1])}, sig=sig)
        # cap
        if cap is not None and not self.cyclic:
            mb = psi.max_bond() or 1
            rec.check("dmrg", "cap", mb <= cap, mech="dmrg:bond_cap_exceeded",
                      detail={"cap": cap, "got": mb, "cls": type(self).__name__}, sig=sig)
        # exactness on convergence
        if converged and not self.cyclic and which in ("SA", "LA") and cap is not None:
            k = 0 if which == "SA" else -1
            gap = (ev[1] - ev[0]) if which == "SA" else (ev[-1] - ev[-2])
            if gap > 1e-3 * width:
                g = evec[:, k]
                dims = r[0].shape
                ranks = []
                gt = g.reshape(dims)
                for c in range(1, len(dims)):
                    s = np.linalg.svd(gt.reshape(int(np.prod(dims[:c])), -1), compute_uv=False)
                    ranks.append(int((s > 1e-10).sum()))
                if all(rk <= cap for rk in ranks):
                    okE = abs(E.real - ev[k]) <= 1e-4 * width
                    ov = abs(np.vdot(g, vn))
                    mech = "dmrg:converged_but_not_exact"
                    if not (okE and ov >= 1 - 1e-2):
                        resid = float(np.linalg.norm(Hd @ vn - e_state * vn))
                        if ov < 1e-2 and resid <= 3e-2 * width:
                            # a sweep-to-sweep energy change below tol while sitting on
                            # (nearly) an eigenstate that is orthogonal to the ground state:
                            # the local updates cannot leave that symmetry sector
                            mech = "dmrg:converged_to_eigenstate_orthogonal_to_ground_state"
                    rec.check("dmrg", "exact", okE and ov >= 1 - 1e-2,
                              mech=mech,
                              detail={"E": E.real, "exact": float(ev[k]), "overlap": float(ov), "gap": float(gap),
                                      "cap": cap, "ranks": ranks, "cls": type(self).__name__}, sig=sig)
                else:
                    rec.count("dmrg", "exact", "out_of_domain")
            else:
                rec.count("dmrg", "exact", "ambiguous")

    # sweep: energies within an untruncated sweep do not increase
    def pre_sw(self, direction, canonize=True, verbosity=0, **k):
        if rec.depth("dmrgsolve") > 0:
            pass
        return {"n": len(self.energies), "nl": len(self.local_energies)}

    def post_sw(s, out, self, direction, canonize=True, verbosity=0, **k):
        cap = k.get("max_bond")
        prev = LASTCAP.get(id(self))
        LASTCAP.clear()
        if getattr(self, "bsz", 2) == 1 and cap is not None and prev is not None:
            # one-site DMRG can only grow its bonds: a decreasing schedule
            # cannot be honoured (not judged), the cap is the largest so far
            cap = max(cap, prev)
        LASTCAP[id(self)] = cap
        if rec.depth("dmrgsolve") == 0:
            judge(self, "sweep", cap=cap)
        if self.cyclic or type(self).__name__ == "DMRGX" or self.L > 7:
            return
        tots = self.total_energies[-1] if self.total_energies else None
        if tots is None or len(tots) < 2:
            return
        ref = dense_ham(self)
        if ref is None:
            return
        width = float(ref[1][-1] - ref[1][0]) or 1.0
        te = np.real(np.asarray([complex(np.asarray(to_numpy(x))) for x in tots]))
        untrunc = (k.get("cutoff", 0.0) or 0.0) <= 1e-12 and (cap is None or cap >= ref[0].shape[0] ** 0.5)
        if untrunc and self.which in ("SA", "LA"):
            d_ = np.diff(te) if self.which == "SA" else -np.diff(te)
            worst = float(d_.max())
            rec.check("dmrg", "monotone", worst <= 1e-6 * width, mech="dmrg:energy_increased_within_untruncated_sweep",
                      detail={"worst_increase": worst, "width": width, "cls": type(self).__name__, "which": self.which},
                      sig=(type(self).__name__, "monotone", self.which))
    attach.install(dm.DMRG, "sweep", attach.monitored(rec, "DMRG.sweep", pre_sw, post_sw, fam="dmrgsweep"))

    def pre_solve(self, tol=1e-4, bond_dims=None, cutoffs=None, sweep_sequence=None, max_sweeps=10,
                  verbosity=0, suppress_warnings=True):
        caps = bond_dims
        return {"caps": caps}

    def post_solve(s, out, self, tol=1e-4, bond_dims=None, cutoffs=None, sweep_sequence=None,
                   max_sweeps=10, verbosity=0, suppress_warnings=True):
        cap = LASTCAP.get(id(self))
        judge(self, "solve", converged=bool(out), cap=cap)
    attach.install(dm.DMRG, "solve", attach.monitored(rec, "DMRG.solve", pre_solve, post_solve, fam="dmrgsolve"))


CAPS = {}
LASTCAP = {}


def wl_dmrg(rng, rec, tier):
    import quimb.tensor as qtn
    kind, L, d, cyclic, H = rand_ham(rng)
    if H is gen.REJECTED:
        return {"rejected": "ham", "kind": kind}
    cls = gen.choice(rng, ["DMRG2", "DMRG2", "DMRG1"])
    which = gen.choice(rng, ["SA", "SA", "LA"])
    full = d ** (L // 2)
    r = rng.random()
    if r < 0.4:
        bond_dims = [full]
    elif r < 0.7:
        bond_dims = [2, 4, full]
    else:
        bond_dims = [int(rng.integers(1, 4)), int(rng.integers(2, 6))]
    cutoffs = gen.choice(rng, [1e-12, 1e-10, 1e-8, 0.0])
    kw = {"bond_dims": bond_dims, "cutoffs": float(cutoffs), "which": which}
    if rng.random() < 0.3:
        p0 = qtn.MPS_rand_state(L, bond_dims[0], phys_dim=d, cyclic=cyclic,
                                dtype=gen.choice(rng, ["float64", "complex128"]), seed=int(rng.integers(1 << 30)))
        kw["p0"] = p0
    dm = gen.attempt2(getattr(qtn, cls), H, **kw)
    if dm is gen.REJECTED:
        return {"rejected": "dmrg", "kind": kind}
    CAPS.clear()
    CAPS[id(dm)] = list(bond_dims)
    eff = "auto"
    if rng.random() < 0.35:
        # the matrix-free local eigensolve (what large problems use) on small ones too
        eff = gen.choice(rng, ["matrix_free", "matrix_free", "dense"])
        dm.opts["local_eig_ham_dense"] = eff == "dense"
    skw = {"tol": float(gen.choice(rng, [1e-6, 1e-8, 1e-4])), "max_sweeps": int(rng.integers(2, 9)), "verbosity": 0}
    if rng.random() < 0.3:
        skw["sweep_sequence"] = gen.choice(rng, ["R", "L", "RL", "RRL"])
    if rng.random() < 0.2:
        # explicit sweeps first
        gen.attempt2(dm.sweep_right, max_bond=bond_dims[0], cutoff=0.0)
        gen.attempt2(dm.sweep_left, max_bond=bond_dims[0], cutoff=0.0)
        CAPS[id(dm)] = [bond_dims[0], bond_dims[0]] + list(bond_dims)
    gen.attempt2(dm.solve, **skw)
    return {"kind": kind, "L": L, "d": d, "cyclic": cyclic, "cls": cls, "which": which,
            "bond_dims": bond_dims, "cutoffs": float(cutoffs), "solve": skw, "local_eig": eff}


WORKLOADS = [
    ("dmrg", 1, wl_dmrg),
]
