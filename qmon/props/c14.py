"""C14 - belief propagation is exact on trees and its marginals are consistent.

Monitors on every contract_*bp entry point, the D2BP/L2BP partial traces, the
BP gauging / compression functions: on networks whose (hyper)graph incidence
graph is acyclic (decided independently by union-find) and when the run itself
reports convergence, the result must equal the exact contraction value (1-norm)
or the exact squared norm (2-norm); marginals equal the exact ones; gauging /
untruncated compression leaves the denoted tensor unchanged; the answer does
not depend on the message update schedule."""

import numpy as np

from .. import attach, gen
from ..core import close, eps_of, exponent_of, ops_of, to_numpy
from ..ref import value as refv

PROP = "C14"
NCASES = {"quick": 10000, "thorough": 200000}
BUDGET = {"quick": 80, "thorough": 1500}
RULE = ("random trees, stars, chains, forests (several components) and trees with hyper-edges, "
        "3-9 tensors, bond 1-4, positive / signed / complex data as the flavour supports; D1BP, "
        "D2BP, HD1BP, HV1BP (uniform dims), L1BP, L2BP (+ tag-grouped lazy regions); damping / "
        "update order / local_convergence / diis options; max_iterations >= 4*#tensors+20; loopy "
        "graphs are run for the option-independence of convergence only; distinct = (flavour, "
        "geometry kind, data kind, options signature)")
ASSUMPTIONS = [
    "a run whose own info says it did not converge within max_iterations is inconclusive for "
    "that case (counted, not judged)",
    "exactness is judged at 1e-5 relative (the default message tolerance is 5e-6); tighter when "
    "tol is tightened by the workload",
    "networks whose exact value is numerically zero are out of domain (relative accuracy undefined)",
]
DECIDING = [("bp", "exact_on_tree"), ("bp", "marginal"), ("bp", "gauge_preserves"), ("bp", "schedule_independent")]
SUITE = ["tests/test_tensor/test_belief_propagation"]
MANIFEST = dict(
    technique="runtime postcondition monitors on every belief-propagation entry point (contract_d1bp/d2bp/hd1bp/hv1bp/l1bp/l2bp, gauge/compress functions) plus client-boundary oracles over call histories on the BP objects (contract / normalize / expansion / gate_ sequences, marginals, sampling probabilities): independent union-find acyclicity test + independent dense reference value / squared norm / marginals / reduced density matrices, judged only when the run reports convergence; differential check across update schedules",
    text="On random acyclic (hyper)graphs every BP flavour must return the exact contraction value or squared norm - through the contract_*bp functions and through every way of reading it off a converged BP object (contract after normalize_tensors / normalize_message_pairs / normalize_messages, loop-series and generalized-loop expansions, with a stored exponent, after the object's own gate_); BP marginals (D2BP reduced density matrices, index and factor marginals of the hyper flavours, the probability reported by sample_d2bp / sample_hd1bp / sample_hv1bp) must equal the exact ones; BP gauging and untruncated BP compression must leave the dense tensor unchanged; different damping / update / local-convergence settings must give the same converged answer.",
    note="Networks limited to <= 2^20 reference elements.",
    ref="3/C14")

MAXREF = 1 << 21


def is_acyclic(tn):
    """the incidence graph tensors-indices has no cycle (union-find); a tensor
    pair joined by two different indices is a cycle"""
    parent = {}

    def find(a):
        while parent.setdefault(a, a) != a:
            parent[a] = parent[parent[a]]
            a = parent[a]
        return a
    for ix, tids in tn.ind_map.items():
        if len(tids) < 2:
            continue
        for tid in tids:
            a, b = find(("i", ix)), find(("t", tid))
            if a == b:
                return False
            parent[a] = b
    return True


def ref_value(tn, squared=False, output=None):
    ops = ops_of(tn)
    if len(ops) > 40:
        return None
    ex = exponent_of(tn)
    try:
        if not squared:
            v, s = refv.value_and_scale(ops, ex, () if output is None else output, MAXREF)
            return complex(v) if output is None else v, float(s)
        outer = tuple(ix for ix, tids in tn.ind_map.items() if len(tids) == 1) if output is None else tuple(output)
        v, s = refv.value_and_scale(ops, ex, outer, MAXREF)
        return float(np.sum(np.abs(v) ** 2)), float(np.sum(np.abs(v) ** 2))
    except (refv.TooBig, ValueError, MemoryError):
        return None


def converged(info, tol=5e-6):
    """the run's own report; a run that stopped on the rolling-difference
    criterion while its messages still move (max_mdiff large: an oscillation) did
    not converge in the sense of the property and is inconclusive"""
    if not isinstance(info, dict):
        return None
    c = info.get("converged")
    if c is None:
        return None
    md = info.get("max_mdiff")
    try:
        if md is not None and float(md) > max(100 * tol, 1e-4):
            return False
    except Exception:
        pass
    return bool(c)


def install(rec):
    import quimb.tensor.belief_propagation as bp
    from quimb.tensor.belief_propagation import d1bp, d2bp, hd1bp, hv1bp, l1bp, l2bp

    def mk_contract(mod, name, squared):
        def pre(tn, *a, **k):
            if rec.depth("bp") > 0:
                return None
            if k.get("info") is None:
                return None      # the workload always asks for info; suite calls without cannot be judged
            out = k.get("output_inds")
            r = ref_value(tn, squared, out)
            if r is None:
                return None
            return {"ref": r, "tree": is_acyclic(tn), "nt": tn.num_tensors, "eps": eps_of(*[t.dtype for t in tn])}

        def post(s, out, tn, *a, **k):
            info = k.get("info")
            conv = converged(info, k.get("tol", 5e-6))
            sig = (name, s["tree"], k.get("update", "default"), bool(k.get("damping")), bool(k.get("diis")),
                   k.get("local_convergence", True), bool(k.get("strip_exponent")))
            if not s["tree"]:
                rec.count("bp", "exact_on_tree", "loopy")
                return
            if k.get("diis"):
                # DIIS extrapolation is not among the options the property quantifies
                # over (the extrapolated messages are not a BP fixed point): exercised only
                rec.count("bp", "exact_on_tree", "out_of_domain")
                return
            if conv is not True:
                rec.count("bp", "exact_on_tree", "inconclusive_not_converged")
                return
            ref, scale = s["ref"]
            if k.get("strip_exponent"):
                try:
                    m, e = out
                    got = complex(np.asarray(to_numpy(m))) * 10.0 ** float(np.real(np.asarray(to_numpy(e))))
                except Exception:
                    rec.check("bp", "exact_on_tree", False, mech=f"bp:{name}:strip_exponent_result_malformed", detail={}, sig=sig)
                    return
            else:
                try:
                    got = complex(np.asarray(to_numpy(out)))
                except Exception:
                    return
            if abs(ref) <= 1e-9 * max(scale, 1e-300):
                rec.count("bp", "exact_on_tree", "out_of_domain")
                return
            tol_msg = k.get("tol", 5e-6)
            rel = max(50 * tol_msg * max(s["nt"], 1) ** 0.5, 1e-9)
            if s["eps"] > 1e-10:
                rel = max(rel, 5e-3)
            ok = abs(got - ref) <= rel * abs(ref)
            rec.check("bp", "exact_on_tree", ok, mech=f"bp:{name}:not_exact_on_tree",
                      detail={"got": repr(got), "want": repr(ref), "rel": rel, "nt": s["nt"],
                              "iterations": (info or {}).get("iterations"), "kw": sorted(kk for kk in k if kk != "info")[:10]},
                      sig=sig)
        return attach.monitored(rec, name, pre, post, fam="bp")

    for mod, name, sq in ((d1bp, "contract_d1bp", False), (d2bp, "contract_d2bp", True), (hd1bp, "contract_hd1bp", False),
                          (hv1bp, "contract_hv1bp", False), (l1bp, "contract_l1bp", False), (l2bp, "contract_l2bp", True)):
        if hasattr(mod, name):
            attach.install(mod, name, mk_contract(mod, name, sq))

    # ---- gauging / compression: the denoted tensor is preserved ------------------
    def mk_preserve(mod, name, truncating_of):
        def pre(tn, *a, **k):
            if rec.depth("bp") > 0 or k.get("info") is None:
                return None
            outer = tuple(sorted(map(str, tn.outer_inds())))
            ops = ops_of(tn)
            try:
                v, sc = refv.value_and_scale(ops, exponent_of(tn), outer, MAXREF)
            except (refv.TooBig, ValueError, MemoryError):
                return None
            return {"v": v, "sc": sc, "outer": outer, "tree": is_acyclic(tn), "eps": eps_of(*[t.dtype for t in tn])}

        def post(s, out, tn, *a, **k):
            res = out if out is not None and hasattr(out, "tensor_map") else (out[0] if isinstance(out, tuple) else tn)
            if not hasattr(res, "tensor_map"):
                return
            if truncating_of(a, k):
                rec.count("bp", "gauge_preserves", "truncating")
                return
            ops = ops_of(res)
            try:
                v2, sc2 = refv.value_and_scale(ops, exponent_of(res), s["outer"], MAXREF)
            except (refv.TooBig, ValueError, MemoryError):
                return
            vmax = float(np.abs(s["v"]).max()) if s["v"].size else 0.0
            if vmax <= 1e-9 * s["sc"]:
                rec.count("bp", "gauge_preserves", "out_of_domain")
                return
            # gauging is exact (any messages); compression with a cap >= bond is too
            # (the inserted gauges are inverse pairs built from message square roots:
            # exact up to their conditioning)
            ok, err, bound = close(v2, s["v"], max(s["sc"], sc2), s["eps"], 1e6, rel=2e-5 if s["eps"] < 1e-10 else 5e-3)
            rec.check("bp", "gauge_preserves", ok, mech=f"bp:{name}:value_changed",
                      detail={"err": err, "bound": bound, "tree": s["tree"], "kw": sorted(kk for kk in k if kk != "info")[:10]},
                      sig=(name, s["tree"]))
        return attach.monitored(rec, name, pre, post, fam="bp")

    if hasattr(d2bp, "gauge_d2bp"):
        attach.install(d2bp, "gauge_d2bp", mk_preserve(d2bp, "gauge_d2bp", lambda a, k: False))

    def trunc_c(a, k):
        mb = a[0] if a else k.get("max_bond")
        return not (mb is None or mb >= 64) or (k.get("cutoff", 0.0) or 0.0) > 0.0
    if hasattr(d2bp, "compress_d2bp"):
        attach.install(d2bp, "compress_d2bp", mk_preserve(d2bp, "compress_d2bp", trunc_c))
    if hasattr(l2bp, "compress_l2bp"):
        attach.install(l2bp, "compress_l2bp", mk_preserve(l2bp, "compress_l2bp", trunc_c))


# ---------------------------------------------------------------------------
# workloads
# ---------------------------------------------------------------------------

def rand_tree_tn(rng, hyper=False, positive=False, dtype="float64", forest=False, uniform=None, outer=False):
    import quimb.tensor as qtn
    n = int(rng.integers(3, 10))
    kind = gen.choice(rng, ["random", "star", "chain"])
    if kind == "star":
        edges = [(0, i) for i in range(1, n)]
    elif kind == "chain":
        edges = [(i - 1, i) for i in range(1, n)]
    else:
        edges = [(int(rng.integers(0, i)), i) for i in range(1, n)]
    if forest and n >= 5:
        edges.pop(int(rng.integers(0, len(edges))))
    inds = [[] for _ in range(n)]
    sizes = {}
    k = 0
    if hyper:
        # merge a few edges at a common node into one hyper index
        used = set()
        for c in range(n):
            nb = [e for e in edges if c in e and e not in used]
            if len(nb) >= 2 and rng.random() < 0.5:
                ix = f"h{k}"
                k += 1
                sizes[ix] = uniform or int(rng.integers(1, 4))
                # hyper index shared by the *other* endpoints plus... a copy-tensor free
                # formulation: index on all neighbours and on c
                nodes = {c} | {a if a != c else b for a, b in nb[:3]}
                for a in nodes:
                    inds[a].append(ix)
                used |= set(nb[:3])
        for e in edges:
            if e in used:
                continue
            ix = f"b{k}"
            k += 1
            sizes[ix] = uniform or int(rng.integers(1, 5))
            inds[e[0]].append(ix)
            inds[e[1]].append(ix)
    else:
        for e in edges:
            ix = f"b{k}"
            k += 1
            sizes[ix] = uniform or int(rng.integers(1, 5))
            inds[e[0]].append(ix)
            inds[e[1]].append(ix)
    if outer:
        for i in range(n):
            if rng.random() < 0.6:
                ix = f"o{i}"
                sizes[ix] = uniform or 2
                inds[i].append(ix)
    ts = []
    for i in range(n):
        shape = tuple(sizes[ix] for ix in inds[i])
        a = gen.rand_array(rng, shape, dtype)
        if positive:
            a = np.abs(a) + 0.05
            a = a.astype(dtype) if "complex" not in dtype else a.astype("float64")
        ts.append(qtn.Tensor(a, tuple(inds[i]), tags=[f"T{i}", f"G{i // 2}"]))
    tn = qtn.TensorNetwork(ts)
    return tn, kind, n


def opts(rng, flavour):
    kw = {"max_iterations": 200, "info": {}}
    if rng.random() < 0.4:
        kw["damping"] = float(gen.choice(rng, [0.1, 0.3]))
    if rng.random() < 0.4:
        kw["update"] = gen.choice(rng, ["sequential", "parallel"])
    if flavour in ("d1bp", "d2bp", "l1bp", "l2bp") and rng.random() < 0.3:
        kw["local_convergence"] = bool(rng.random() < 0.5)
    if flavour in ("d1bp", "d2bp", "hd1bp", "hv1bp") and rng.random() < 0.15:
        kw["diis"] = True
    if rng.random() < 0.3:
        kw["tol"] = 1e-9
    if rng.random() < 0.2:
        kw["strip_exponent"] = True
    return kw


def wl_contract(rng, rec, tier):
    import quimb.tensor.belief_propagation as bp
    flavour = gen.choice(rng, ["d1bp", "d2bp", "hd1bp", "hv1bp", "l1bp", "l2bp"])
    hyper = flavour in ("hd1bp", "hv1bp") and rng.random() < 0.6
    positive = bool(rng.random() < 0.5) or flavour == "hv1bp" and rng.random() < 0.7
    dtype = gen.choice(rng, ["float64", "complex128", "float64"]) if not positive else "float64"
    uniform = int(rng.integers(2, 4)) if flavour == "hv1bp" else None
    two = flavour in ("d2bp", "l2bp")
    tn, kind, n = rand_tree_tn(rng, hyper=hyper, positive=positive, dtype=dtype, forest=bool(rng.random() < 0.15),
                               uniform=uniform, outer=two)
    loopy = False
    if rng.random() < 0.12 and not hyper:
        # one extra bond: loopy control (only counted)
        import quimb.tensor as qtn
        a, b = (int(x) for x in rng.choice(n, size=2, replace=False))
        ta, tb = tn[f"T{a}"], tn[f"T{b}"]
        if not ta.bonds(tb):
            qtn.new_bond(ta, tb, size=2) if hasattr(qtn, "new_bond") else ta.new_bond(tb, size=2)
            loopy = True
    kw = opts(rng, flavour)
    fn = getattr(bp, "contract_" + flavour)
    if flavour in ("l1bp", "l2bp"):
        # lazy regions: one per tensor, or tag-grouped pairs of tensors
        pre = "G" if rng.random() < 0.4 else "T"
        kw["site_tags"] = sorted({t for t in tn.tag_map if t.startswith(pre)})
    if flavour == "hv1bp":
        kw.pop("update", None)
    r1 = gen.attempt(fn, tn, **kw)
    info1 = kw["info"]
    # schedule independence: same network, other options
    kw2 = opts(rng, flavour)
    kw2.pop("strip_exponent", None)
    if "site_tags" in kw:
        kw2["site_tags"] = kw["site_tags"]
    if flavour == "hv1bp":
        kw2.pop("update", None)
    r2 = gen.attempt(fn, tn, **kw2)
    if r1 is not None and r2 is not None and not kw.get("strip_exponent") \
            and converged(info1, kw.get("tol", 5e-6)) and converged(kw2["info"], kw2.get("tol", 5e-6)) \
            and not kw.get("diis") and not kw2.get("diis"):
        try:
            a, b = complex(np.asarray(to_numpy(r1))), complex(np.asarray(to_numpy(r2)))
            tolm = max(kw.get("tol", 5e-6), kw2.get("tol", 5e-6))
            scale = max(abs(a), abs(b))
            if scale > 0 and np.isfinite(scale):
                rel = 200 * tolm * n ** 0.5 if not loopy else 2e-2
                rec.check("bp", "schedule_independent", abs(a - b) <= rel * scale,
                          mech=f"bp:contract_{flavour}:depends_on_schedule",
                          detail={"a": repr(a), "b": repr(b), "kw1": sorted(k for k in kw if k != "info"),
                                  "kw2": sorted(k for k in kw2 if k != "info"), "loopy": loopy},
                          sig=(flavour, loopy))
        except Exception:
            pass
    return {"flavour": flavour, "kind": kind, "n": n, "hyper": hyper, "positive": positive, "dtype": dtype, "loopy": loopy,
            "kw": sorted(k for k in kw if k != "info")}


def wl_marginals(rng, rec, tier):
    """2-norm BP reduced density matrices on a tree state vs exact"""
    import quimb.tensor as qtn
    from quimb.tensor.belief_propagation import D2BP
    n = int(rng.integers(3, 8))
    edges = [(int(rng.integers(0, i)), i) for i in range(1, n)]
    dtype = gen.choice(rng, ["float64", "complex128"])
    psi = qtn.TN_from_edges_rand(edges, int(rng.integers(1, 4)), phys_dim=2, seed=int(rng.integers(1 << 30)), dtype=dtype)
    sites = list(psi.sites)
    rec.busy = True
    try:
        from ..core import dense_of
        r = dense_of(psi, output=[psi.site_ind(s) for s in sites], max_size=1 << 13)
    finally:
        rec.busy = False
    if r is None:
        return {"skipped": True}
    v = r[0]
    if rng.random() < 0.3:
        # sampling by decimation: on a tree the reported probability of the sampled
        # configuration is its exact probability
        from quimb.tensor.belief_propagation import sample_d2bp
        kw = {}
        if rng.random() < 0.3:
            kw["messages"] = {}
        out = gen.attempt2(sample_d2bp, psi, seed=int(rng.integers(1 << 30)), tol=1e-10, max_iterations=200, **kw)
        if out is gen.REJECTED:
            return {"rejected": True, "what": "sample"}
        try:
            config, _, omega = out
            idx = tuple(int(config[psi.site_ind(s_)]) for s_ in sites)
            omega = float(omega)
        except Exception:
            rec.check("bp", "marginal", False, mech="bp:sample_d2bp:malformed_result", detail={}, sig=("sample_d2bp",))
            return {"what": "sample"}
        P = np.abs(np.asarray(v)) ** 2
        tot = float(P.sum())
        if tot <= 0 or not np.isfinite(tot):
            return {"what": "sample", "zero": True}
        want = float(P[idx]) / tot
        rec.check("bp", "marginal", abs(omega - want) <= 1e-6 * max(want, 1e-12) + 1e-12,
                  mech="bp:sample_d2bp:probability_differs_from_exact_on_tree",
                  detail={"omega": omega, "want": want, "n": n, "messages_given": "messages" in kw},
                  sig=("sample_d2bp", "messages" in kw))
        return {"what": "sample", "n": n}
    b = gen.attempt2(D2BP, psi)
    if b is gen.REJECTED:
        return {"rejected": True}
    res = gen.attempt2(b.run, max_iterations=200, tol=1e-10)
    conv = getattr(b, "converged", None)
    if res is gen.REJECTED or not conv:
        rec.count("bp", "marginal", "inconclusive_not_converged")
        return {"n": n, "converged": bool(conv)}
    for _ in range(2):
        k = int(gen.choice(rng, [1, 2]))
        if k == 1:
            where = [sites[int(rng.integers(0, n))]]
        else:
            # a connected region: the messages on its boundary are exact on a tree
            e = edges[int(rng.integers(0, len(edges)))]
            where = [sites[e[0]], sites[e[1]]] if rng.random() < 0.5 else [sites[e[1]], sites[e[0]]]
        rho = gen.attempt2(b.partial_trace, tuple(where)) if hasattr(b, "partial_trace") else gen.REJECTED
        if rho is gen.REJECTED or rho is None:
            continue
        pos = [sites.index(w) for w in where]
        rest = [i for i in range(n) if i not in pos]
        m = np.transpose(v, pos + rest).reshape(2 ** k, -1)
        want = m @ m.conj().T
        want = want / np.trace(want)
        got = np.asarray(to_numpy(rho), dtype=complex).reshape(want.shape)
        got = got / np.trace(got)
        err = float(np.abs(got - want).max())
        rec.check("bp", "marginal", err <= 1e-6, mech="bp:D2BP.partial_trace:differs_from_exact_on_tree",
                  detail={"err": err, "where": [repr(w) for w in where], "n": n}, sig=("d2bp_ptr", k))
    return {"n": n}


def _exact_marginal(tn, output):
    try:
        v, sc = refv.value_and_scale(ops_of(tn), exponent_of(tn), tuple(output), MAXREF)
    except (refv.TooBig, ValueError, MemoryError):
        return None
    v = np.asarray(v, dtype=float)
    z = float(v.sum())
    if not np.isfinite(z) or z <= 0:
        return None
    return v / z


def wl_index_marginals(rng, rec, tier):
    """1-norm hyper BP on positive acyclic hypergraphs (hyper-edges on >= 3 tensors,
    dangling indices): index marginals and factor marginals read from converged
    messages, and the probability reported by BP sampling, vs exact sums"""
    import quimb.tensor.belief_propagation as bp
    from quimb.tensor.belief_propagation import bp_common
    flavour = gen.choice(rng, ["hd1bp", "hd1bp", "hv1bp"])
    uniform = int(rng.integers(2, 4)) if flavour == "hv1bp" or rng.random() < 0.3 else None
    tn, kind, n = rand_tree_tn(rng, hyper=True, positive=True, uniform=uniform, outer=bool(rng.random() < 0.7),
                               forest=bool(rng.random() < 0.1))
    if not is_acyclic(tn):
        return {"skipped": "cyclic"}
    desc = {"flavour": flavour, "kind": kind, "n": n,
            "max_edge": max(len(t) for t in tn.ind_map.values()),
            "dangling": sum(len(t) == 1 for t in tn.ind_map.values())}
    what = gen.choice(rng, ["marginals", "marginals", "sample"])
    desc["what"] = what
    if what == "marginals":
        kw = {}
        if rng.random() < 0.3:
            kw["damping"] = 0.2
        if flavour == "hd1bp":
            b = gen.attempt2(bp.HD1BP, tn, **kw)
        else:
            b = gen.attempt2(bp.HV1BP, tn, **kw)
        if b is gen.REJECTED:
            return dict(desc, rejected=True)
        r = gen.attempt2(b.run, max_iterations=300, tol=1e-11)
        if r is gen.REJECTED or not getattr(b, "converged", False):
            rec.count("bp", "marginal", "inconclusive_not_converged")
            return dict(desc, converged=False)
        msgs = b.messages if flavour == "hd1bp" else gen.attempt2(b.get_messages_dense)
        if msgs is gen.REJECTED:
            return dict(desc, rejected=True)
        got = gen.attempt2(bp_common.compute_all_index_marginals_from_messages, tn, msgs)
        if got is not gen.REJECTED:
            for ix in list(tn.ind_map):
                want = _exact_marginal(tn, (ix,))
                if want is None:
                    continue
                k = len(tn.ind_map[ix])
                try:
                    g = np.asarray(to_numpy(got[ix]), dtype=float).reshape(want.shape)
                    err = float(np.abs(g - want).max())
                except Exception as e:
                    err = float("inf")
                rec.check("bp", "marginal", err <= 1e-6, mech=f"bp:index_marginal:{flavour}:differs_from_exact_on_tree",
                          detail={"err": err, "ind": ix, "tensors_on_index": k, "n": n},
                          sig=("index_marginal", flavour, min(k, 3)))
        for tid in list(tn.tensor_map)[:4]:
            t = tn.tensor_map[tid]
            want = _exact_marginal(tn, t.inds)
            if want is None:
                continue
            g = gen.attempt2(bp_common.compute_tensor_marginal, tn, tid, msgs)
            if g is gen.REJECTED:
                continue
            try:
                g = np.asarray(to_numpy(g), dtype=float).reshape(want.shape)
                err = float(np.abs(g - want).max())
            except Exception:
                err = float("inf")
            rec.check("bp", "marginal", err <= 1e-6, mech=f"bp:tensor_marginal:{flavour}:differs_from_exact_on_tree",
                      detail={"err": err, "inds": list(t.inds), "n": n}, sig=("tensor_marginal", flavour, t.ndim))
        return desc
    # sampling by decimation: with exact marginals the reported probability omega is
    # the exact probability of the returned configuration
    inds = list(tn.ind_map)
    if rng.random() < 0.5:
        out = None
        sampled = inds
    else:
        sampled = [ix for ix in inds if rng.random() < 0.5] or inds[:1]
        out = list(sampled)
    fn = bp.sample_hd1bp if flavour == "hd1bp" else bp.sample_hv1bp
    r = gen.attempt2(fn, tn, output_inds=out, tol=1e-11, max_iterations=300, seed=int(rng.integers(1 << 30)))
    if r is gen.REJECTED:
        return dict(desc, rejected=True)
    try:
        config, tn_config, omega = r
        omega = float(omega)
    except Exception:
        rec.check("bp", "marginal", False, mech=f"bp:sample_{flavour}:malformed_result", detail={}, sig=("sample", flavour))
        return desc
    ok_keys = set(config) == set(sampled)
    rec.check("bp", "marginal", ok_keys, mech=f"bp:sample_{flavour}:sampled_indices_differ_from_requested",
              detail={"got": sorted(map(str, config)), "want": sorted(map(str, sampled))}, sig=("sample_keys", flavour))
    if not ok_keys:
        return desc
    try:
        z, _ = refv.value_and_scale(ops_of(tn), exponent_of(tn), (), MAXREF)
        rec.busy = True
        try:
            fixed = tn.isel({ix: int(v) for ix, v in config.items()})
        finally:
            rec.busy = False
        w, _ = refv.value_and_scale(ops_of(fixed), exponent_of(fixed), (), MAXREF)
        want = float(np.real(w)) / float(np.real(z))
    except (refv.TooBig, ValueError, MemoryError):
        return desc
    err = abs(omega - want) / max(want, 1e-300)
    rec.check("bp", "marginal", err <= 1e-5, mech=f"bp:sample_{flavour}:probability_differs_from_exact_on_tree",
              detail={"omega": omega, "want": want, "nsampled": len(sampled), "n": n}, sig=("sample_omega", flavour))
    return desc


def wl_object_paths(rng, rec, tier):
    """the BP objects themselves: every way of reading the value / norm off a
    converged object (contract, after normalize_tensors / normalize_message_pairs,
    loop-series and generalized-loop expansions, which have no loop terms on a
    tree) must give the exact answer, whatever exponent the network stores"""
    import quimb.tensor.belief_propagation as bp
    flavour = gen.choice(rng, ["D2BP", "D2BP", "D1BP", "HD1BP", "L1BP", "L2BP", "HV1BP"])
    two = flavour in ("D2BP", "L2BP")
    dtype = gen.choice(rng, ["float64", "complex128"])
    positive = flavour in ("D1BP", "HD1BP", "L1BP", "HV1BP") and rng.random() < 0.6
    tn, kind, n = rand_tree_tn(rng, hyper=flavour in ("HD1BP", "HV1BP") and rng.random() < 0.5, positive=positive,
                               dtype="float64" if positive else dtype, outer=two,
                               uniform=int(rng.integers(2, 4)) if flavour == "HV1BP" else None)
    ex = float(gen.choice(rng, [0.0, 0.0, 1.5, -2.0, 0.5]))
    if ex:
        tn.exponent = ex
    r = ref_value(tn, squared=two)
    if r is None or not is_acyclic(tn):
        return {"skipped": True}
    ref, scale = r
    if abs(ref) <= 1e-9 * max(scale, 1e-300):
        rec.count("bp", "exact_on_tree", "out_of_domain")
        return {"flavour": flavour, "zero": True}
    kw = {}
    if flavour in ("L1BP", "L2BP"):
        kw["site_tags"] = sorted({t for t in tn.tag_map if t.startswith("T")})
    b = gen.attempt2(getattr(bp, flavour), tn, **kw)
    if b is gen.REJECTED:
        return {"flavour": flavour, "rejected": True}
    res = gen.attempt2(b.run, max_iterations=300, tol=1e-11)
    if res is gen.REJECTED or not getattr(b, "converged", False):
        rec.count("bp", "exact_on_tree", "inconclusive_not_converged")
        return {"flavour": flavour, "converged": False}
    steps = []
    cand = ["contract", "contract"]
    for nm in ("normalize_tensors", "normalize_message_pairs", "normalize_messages", "contract_dense",
               "contract_loop_series_expansion", "contract_gloop_expand"):
        if hasattr(b, nm):
            cand.append(nm)
    for _ in range(int(rng.integers(2, 6))):
        nm = gen.choice(rng, cand)
        steps.append(nm)
        if nm.startswith("normalize"):
            if gen.attempt2(getattr(b, nm)) is gen.REJECTED:
                break
            continue
        kk = {}
        if nm in ("contract_loop_series_expansion", "contract_gloop_expand"):
            kk["gloops"] = int(rng.integers(2, 5))
        strip = bool(rng.random() < 0.25)
        if strip:
            kk["strip_exponent"] = True
        out = gen.attempt2(getattr(b, nm), **kk)
        if out is gen.REJECTED:
            break
        try:
            if strip:
                m, e = out
                got = complex(np.asarray(to_numpy(m))) * 10.0 ** float(np.real(np.asarray(to_numpy(e))))
            else:
                got = complex(np.asarray(to_numpy(out)))
        except Exception:
            rec.check("bp", "exact_on_tree", False, mech=f"bp:{flavour}.{nm}:result_malformed", detail={"steps": steps},
                      sig=("object", flavour, nm))
            break
        ok = abs(got - ref) <= 1e-6 * abs(ref)
        before = [s_ for s_ in steps[:-1] if s_.startswith(("normalize", "contract_loop"))]
        rec.check("bp", "exact_on_tree", ok,
                  mech=f"bp:{flavour}.{nm}{':after_' + before[-1] if before else ''}:not_exact_on_tree",
                  detail={"got": repr(got), "want": repr(ref), "steps": steps, "stored_exponent": ex, "n": n},
                  sig=("object", flavour, nm, before[-1] if before else "", bool(ex), strip))
        if not ok:
            break
    return {"flavour": flavour, "kind": kind, "n": n, "exponent": ex, "steps": steps}


def wl_gated(rng, rec, tier):
    """D2BP as a simple-update engine on a tree state: after the object's own
    gate_ (one- and two-site, untruncated) and a re-run, the norm and the
    reduced density matrices read from it are those of the gated state"""
    import quimb.tensor as qtn
    from quimb.tensor.belief_propagation import D2BP
    n = int(rng.integers(3, 7))
    edges = [(int(rng.integers(0, i)), i) for i in range(1, n)]
    dtype = gen.choice(rng, ["float64", "complex128"])
    psi = qtn.TN_from_edges_rand(edges, int(rng.integers(1, 4)), phys_dim=2, seed=int(rng.integers(1 << 30)), dtype=dtype)
    sites = list(psi.sites)
    b = gen.attempt2(D2BP, psi)
    if b is gen.REJECTED:
        return {"rejected": True}
    # (gating an object that never ran leaves only the gated sites marked for
    # update, the rest of the messages then stay at their initial values: the
    # property speaks of converged messages, so converge first)
    r0 = gen.attempt2(b.run, max_iterations=200, tol=1e-10)
    if r0 is gen.REJECTED or not getattr(b, "converged", False):
        rec.count("bp", "exact_on_tree", "inconclusive_not_converged")
        return {"n": n, "converged": False}
    ref = psi.copy()
    ops = []

    def well_conditioned():
        # two-site gates are applied in the gauge given by the inverse square roots
        # of the messages: with (numerically) rank-deficient messages - e.g. a leaf
        # whose bond is larger than its physical dimension - that gauge is singular
        # and the result is exact only up to its conditioning (not judged)
        for m in b.messages.values():
            ev = np.linalg.eigvalsh(np.asarray(to_numpy(m)))
            if ev[-1] <= 0 or ev[0] < 1e-5 * ev[-1]:
                return False
        return True

    for _ in range(int(rng.integers(1, 4))):
        if not well_conditioned():
            rec.count("bp", "exact_on_tree", "out_of_domain")
            return {"n": n, "ops": ops, "ill_conditioned": True}
        if rng.random() < 0.5:
            w = (sites[int(rng.integers(0, n))],)
        else:
            e = edges[int(rng.integers(0, len(edges)))]
            w = (sites[e[0]], sites[e[1]]) if rng.random() < 0.5 else (sites[e[1]], sites[e[0]])
        G = gen.rand_array(rng, (2 ** len(w), 2 ** len(w)), gen.choice(rng, ["float64", dtype]))
        if rng.random() < 0.4:
            G = np.linalg.qr(G)[0]
        if gen.attempt2(b.gate_, G, w) is gen.REJECTED:
            return {"rejected": True, "ops": ops}
        rec.busy = True
        try:
            ref.gate_(G, w, contract=True)
        finally:
            rec.busy = False
        ops.append(len(w))
    res = gen.attempt2(b.run, max_iterations=300, tol=1e-11)
    if res is gen.REJECTED or not getattr(b, "converged", False):
        rec.count("bp", "exact_on_tree", "inconclusive_not_converged")
        return {"n": n, "ops": ops, "converged": False}
    rec.busy = True
    try:
        from ..core import dense_of
        r = dense_of(ref, output=[ref.site_ind(s_) for s_ in sites], max_size=1 << 13)
    finally:
        rec.busy = False
    if r is None:
        return {"skipped": True}
    v = np.asarray(r[0], dtype=complex)
    want = float(np.sum(np.abs(v) ** 2))
    if not np.isfinite(want) or want <= 1e-12:
        rec.count("bp", "exact_on_tree", "out_of_domain")
        return {"n": n, "ops": ops}
    out = gen.attempt2(b.contract)
    if out is not gen.REJECTED:
        try:
            got = complex(np.asarray(to_numpy(out)))
        except Exception:
            got = complex("nan")
        rec.check("bp", "exact_on_tree", abs(got - want) <= 1e-6 * want, mech="bp:D2BP.contract:after_gate:not_exact_on_tree",
                  detail={"got": repr(got), "want": want, "ops": ops, "n": n}, sig=("gated", tuple(sorted(set(ops)))))
    k = int(rng.integers(0, n))
    rho = gen.attempt2(b.partial_trace, (sites[k],))
    if rho is not gen.REJECTED and rho is not None:
        m = np.moveaxis(v, k, 0).reshape(2, -1)
        w_ = m @ m.conj().T
        w_ = w_ / np.trace(w_)
        g = np.asarray(to_numpy(rho), dtype=complex).reshape(2, 2)
        g = g / np.trace(g)
        err = float(np.abs(g - w_).max())
        rec.check("bp", "marginal", err <= 1e-6, mech="bp:D2BP.partial_trace:after_gate:differs_from_exact_on_tree",
                  detail={"err": err, "ops": ops, "n": n}, sig=("gated_ptr", tuple(sorted(set(ops)))))
    return {"n": n, "ops": ops}


def wl_gauge(rng, rec, tier):
    import quimb.tensor.belief_propagation as bp
    dtype = gen.choice(rng, ["float64", "complex128"])
    tn, kind, n = rand_tree_tn(rng, dtype=dtype, outer=True, forest=False)
    what = gen.choice(rng, ["gauge", "compress", "compress_l2"])
    kw = {"info": {}, "max_iterations": 200}
    if rng.random() < 0.3:
        kw["damping"] = 0.2
    if what == "gauge":
        gen.attempt(bp.gauge_d2bp, tn, inplace=bool(rng.random() < 0.3), **kw)
    elif what == "compress":
        gen.attempt(bp.compress_d2bp, tn, gen.choice(rng, [64, 64, 1, 2]), inplace=bool(rng.random() < 0.3), **kw)
    else:
        kw.pop("info")
        gen.attempt(bp.compress_l2bp, tn, gen.choice(rng, [64, 64, 2]), info={}, max_iterations=200,
                    site_tags=sorted({t for t in tn.tag_map if t.startswith("T")}))
    return {"what": what, "n": n, "kind": kind}


WORKLOADS = [
    ("contract", 6, wl_contract),
    ("marginals", 2, wl_marginals),
    ("index_marginals", 2, wl_index_marginals),
    ("object_paths", 2, wl_object_paths),
    ("gated", 1, wl_gated),
    ("gauge", 2, wl_gauge),
]
