"""C02 - network index/tag/ownership maps stay exact under any mutation history.

Invariant-at-a-hook monitor: every live TensorNetwork (tracked through wrappers
on all construction paths) is compared with a fresh scan of its tensors at
quiescent points (after each top-level operation of a history, after each
repository test in the suite workload).  Selection results are compared with a
scan; combining networks is monitored for bond coincidence / outer renames."""

import functools
import gc
import pickle
import weakref

import numpy as np

from .. import attach, gen

PROP = "C02"
NCASES = {"quick": 6000, "thorough": 200000}
BUDGET = {"quick": 60, "thorough": 900}
RULE = ("random histories (5-60 public operations) over a pool of overlapping "
        "networks/views/loose tensors; after every operation every live network "
        "is compared with a fresh scan; a history is non-trivial when >=5 "
        "operations succeeded; distinct = distinct operation-name sequences")
ASSUMPTIONS = [
    "quiescent point = return of a top-level public call made by the driver "
    "(or end of a repository test in the suite workload)",
    "a fresh scan classifies a label inner iff it occurs >=2 times counting "
    "multiplicity (this is what TensorNetwork(list(tn)) itself computes)",
    "objects touched by a call that raised are retired (a partially applied "
    "rejected operation is not judged)",
]
DECIDING = [("invariant", "ind_map"), ("select", "tensors"), ("combine", "bonds")]
SUITE = ["tests/test_tensor/test_tensor_core.py",
         "tests/test_tensor/test_tn1d/test_core.py",
         "tests/test_tensor/test_tn2d/test_core.py",
         "tests/test_tensor/test_tnag/test_core.py"]

MANIFEST = dict(
    technique="invariant-at-a-hook monitor: every live TensorNetwork (tracked via wrappers on all construction paths) compared with a fresh scan at quiescent points of random mutation histories; selection and combine oracles",
    text="After every top-level operation of seeded random histories (38 operation kinds over pools of overlapping networks, virtual views, subclasses, loose tensors, pickling, gc) each live network's tensor_map/ind_map/tag_map/inner/outer sets, index sizes and every tensor's owner entries are compared with an independent scan; tag/index selection results are compared with a scan; add_tensor_network is monitored for bond merging / outer renames. Held = no disagreement on the histories observed.",
    note="Quiescent point = return of a top-level public call. A view whose shared tensor had a bond resized through ANOTHER network is retired rather than judged (inherent to virtual views). The same tensor object twice in one network and split-mode gates on hyper bonds are outside the domain. Known finding: repeated label on one tensor (see known_findings.json).",
    ref="3/C02")

LIVE = weakref.WeakSet()
TAINTED = weakref.WeakSet()


def track(tn):
    try:
        LIVE.add(tn)
    except TypeError:
        pass


# ---------------------------------------------------------------------------
# the invariant
# ---------------------------------------------------------------------------

def scan(tn):
    ind_tids, tag_tids, mult = {}, {}, {}
    for tid, t in tn.tensor_map.items():
        for ix in t.inds:
            ind_tids.setdefault(ix, set()).add(tid)
            mult[ix] = mult.get(ix, 0) + 1
        for tg in t.tags:
            tag_tids.setdefault(tg, set()).add(tid)
    return ind_tids, tag_tids, mult


def check_network(rec, tn, where, judge_sizes=True):
    """all structural clauses for one network; returns True if all held"""
    ok_all = True
    ind_tids, tag_tids, mult = scan(tn)
    sig = (len(tn.tensor_map), len(ind_tids), len(tag_tids), type(tn).__name__)

    def fail(clause, mech, detail):
        nonlocal ok_all
        ok_all = False
        rec.check("invariant", clause, False, mech=f"invariant:{clause}:{mech}",
                  detail=dict(detail, where=where, cls=type(tn).__name__))

    # -- ind_map
    got = {ix: set(tids) for ix, tids in tn.ind_map.items()}
    if got != ind_tids:
        extra = sorted(map(str, set(got) - set(ind_tids)))
        missing = sorted(map(str, set(ind_tids) - set(got)))
        wrong = sorted(str(ix) for ix in set(got) & set(ind_tids)
                       if got[ix] != ind_tids[ix])
        kind = "stale_key" if extra else ("missing_key" if missing else "wrong_tids")
        fail("ind_map", kind, {"extra": extra[:5], "missing": missing[:5],
                               "wrong": wrong[:5]})
    else:
        rec.check("invariant", "ind_map", True, sig=sig)
    # -- tag_map
    gott = {tg: set(tids) for tg, tids in tn.tag_map.items()}
    if gott != tag_tids:
        extra = sorted(map(str, set(gott) - set(tag_tids)))
        missing = sorted(map(str, set(tag_tids) - set(gott)))
        wrong = sorted(str(t) for t in set(gott) & set(tag_tids)
                       if gott[t] != tag_tids[t])
        kind = "stale_key" if extra else ("missing_key" if missing else "wrong_tids")
        fail("tag_map", kind, {"extra": extra[:5], "missing": missing[:5],
                               "wrong": wrong[:5]})
    else:
        rec.check("invariant", "tag_map", True, sig=sig)
    # -- inner / outer
    inner = set(tn._inner_inds)
    outer = set(tn._outer_inds)
    want_inner = {ix for ix, m in mult.items() if m >= 2}
    want_outer = {ix for ix, m in mult.items() if m == 1}
    if inner != want_inner or outer != want_outer or (inner & outer):
        bad = (inner ^ want_inner) | (outer ^ want_outer)
        # diagnosis: only labels repeated on ONE tensor are misclassified?
        rep_only = all(ix in mult and len(ind_tids.get(ix, ())) == 1
                       and mult[ix] >= 2 for ix in bad)
        mech = "repeated_label_on_one_tensor" if rep_only and bad else "misclassified"
        fail("inner_outer", mech, {"bad": sorted(map(str, bad))[:6]})
    else:
        rec.check("invariant", "inner_outer", True, sig=sig)
    # public accessors agree with private sets
    try:
        pub_ok = (set(tn.outer_inds()) == outer and set(tn.inner_inds()) == inner)
        if not pub_ok:
            fail("inner_outer_public", "accessor_mismatch", {})
    except Exception as e:  # noqa
        fail("inner_outer_public", "accessor_raises", {"error": repr(e)[:200]})
    # -- sizes agree
    bad_sizes = []
    for ix, tids in ind_tids.items():
        dims = set()
        for tid in tids:
            t = tn.tensor_map[tid]
            for ax, jx in enumerate(t.inds):
                if jx == ix:
                    dims.add(int(np.shape(t.data)[ax]))
        if len(dims) != 1:
            bad_sizes.append(str(ix))
    if bad_sizes and not judge_sizes:
        # a tensor shared with another network had a bond resized *there*:
        # inherent to virtual views, not judged; the view is retired
        rec.count("invariant", "sizes", "view_resized_elsewhere")
        TAINTED.add(tn)
        return ok_all
    if bad_sizes:
        fail("sizes", "mismatch", {"inds": bad_sizes[:5]})
    else:
        rec.check("invariant", "sizes", True, sig=sig)
    # -- owners
    bad_own = []
    for tid, t in tn.tensor_map.items():
        mine = [(r, otid) for r, otid in t._owners.values() if r() is tn]
        if len(mine) != 1 or mine[0][1] != tid:
            bad_own.append(("missing_or_wrong_tid", str(tid)))
        for key, (r, otid) in list(t._owners.items()):
            o = r()
            if o is None:
                continue  # dead weakrefs are pruned lazily
            if o.tensor_map.get(otid) is not t:
                bad_own.append(("stale_live_owner", str(tid)))
    if bad_own:
        fail("owners", bad_own[0][0], {"bad": bad_own[:5]})
    else:
        rec.check("invariant", "owners", True, sig=sig)
    # -- the library's own diagnostic
    try:
        tn.check()
        rec.check("invariant", "tn.check", True)
    except ValueError as e:
        if "non-finite" not in str(e) and not (bad_sizes and "Mismatched" in str(e)):
            fail("tn.check", "raises", {"error": str(e)[:200]})
    except Exception as e:  # noqa
        fail("tn.check", "raises_other", {"error": repr(e)[:200]})
    return ok_all


def check_all_live(rec, where, operated=None):
    """operated: ids of the networks the last top-level call acted on (None =
    judge sizes everywhere)"""
    ok = True
    nets = [tn for tn in LIVE if tn not in TAINTED]
    for tn in nets:
        if not hasattr(tn, "tensor_map") or not hasattr(tn, "_inner_inds"):
            continue  # mid-construction / foreign object
        ok &= check_network(rec, tn, where,
                            judge_sizes=operated is None or id(tn) in operated)
    nets = [tn for tn in nets if tn not in TAINTED]
    # "every contained tensor notifies exactly the live networks that hold it"
    holders = {}
    for tn in nets:
        if not hasattr(tn, "tensor_map"):
            continue
        for tid, t in tn.tensor_map.items():
            holders.setdefault(id(t), (t, []))[1].append((tn, tid))
    for t, hs in holders.values():
        owned = {(id(r()), otid) for r, otid in t._owners.values()
                 if r() is not None}
        want = {(id(tn), tid) for tn, tid in hs}
        # owners may include untracked live networks; tracked holders must be there
        if not want <= owned:
            ok = False
            rec.check("invariant", "owners_global", False,
                      mech="invariant:owners_global:holder_not_notified",
                      detail={"where": where})
        else:
            rec.check("invariant", "owners_global", True)
    return ok


# ---------------------------------------------------------------------------
# selection oracle
# ---------------------------------------------------------------------------

def scan_select(tn, tags, which):
    if isinstance(tags, str):
        tags = (tags,)
    tags = set(tags)
    inv = which.startswith("!")
    w = which.lstrip("!")
    out = set()
    for tid, t in tn.tensor_map.items():
        tt = set(t.tags)
        hit = (bool(tags & tt) if w == "any" else tags <= tt)
        if hit != inv:
            out.add(tid)
    return out


def check_selection(rec, rng, tn):
    _, tag_tids, _ = scan(tn)
    alltags = sorted(map(str, tag_tids)) + ["__absent__"]
    if not tn.tensor_map:
        return
    for _ in range(2):
        k = int(rng.integers(1, 3))
        tags = tuple(gen.choice(rng, alltags) for _ in range(k))
        which = gen.choice(rng, ["all", "any", "!all", "!any"])
        want = scan_select(tn, tags, which)
        idt = {id(tn.tensor_map[tid]) for tid in want}
        try:
            got = tn.select_tensors(tags, which=which)
            rec.check("select", "tensors", {id(t) for t in got} == idt
                      and len(got) == len(idt),
                      mech="select:tensors:wrong_set",
                      detail={"tags": tags, "which": which},
                      sig=(len(tn.tensor_map), which, len(want)))
        except KeyError:
            # a tag absent from tag_map raises; only legitimate if really absent
            absent = any(t not in tag_tids for t in tags)
            rec.check("select", "keyerror", absent,
                      mech="select:keyerror:present_tag_missing",
                      detail={"tags": tags, "which": which})
            continue
        try:
            sub = tn.select(tags, which=which, virtual=bool(rng.random() < 0.5))
            rec.check("select", "network", set(sub.tensor_map) == want,
                      mech="select:network:wrong_tids",
                      detail={"tags": tags, "which": which})
        except KeyError:
            pass
        if which == "all":
            try:
                got = tn[tags]
                got = (got,) if hasattr(got, "inds") else got
                rec.check("select", "getitem", {id(t) for t in got} == idt,
                          mech="select:getitem:wrong_set",
                          detail={"tags": tags})
            except KeyError:
                rec.check("select", "getitem_keyerror", len(want) == 0
                          or any(t not in tag_tids for t in tags),
                          mech="select:getitem:spurious_keyerror",
                          detail={"tags": tags})
    # by index
    ind_tids, _, _ = scan(tn)
    if ind_tids:
        ix = gen.choice(rng, sorted(ind_tids, key=str))
        got = {id(t) for t in tn._inds_get(ix)}
        rec.check("select", "inds_get",
                  got == {id(tn.tensor_map[tid]) for tid in ind_tids[ix]},
                  mech="select:inds_get:wrong_set", detail={"ind": ix})
        try:
            sz = tn.ind_size(ix)
            tid = next(iter(ind_tids[ix]))
            t = tn.tensor_map[tid]
            rec.check("select", "ind_size",
                      sz == np.shape(t.data)[t.inds.index(ix)],
                      mech="select:ind_size:wrong", detail={"ind": ix})
        except Exception:
            pass


# ---------------------------------------------------------------------------
# monitors (construction tracking + combine)
# ---------------------------------------------------------------------------

def install(rec):
    from quimb.tensor import tensor_core as tc
    TN = tc.TensorNetwork

    orig_init = TN.__init__

    @functools.wraps(orig_init)
    def init(self, *a, **k):
        orig_init(self, *a, **k)
        track(self)

    TN.__init__ = init

    orig_setstate = TN.__setstate__

    @functools.wraps(orig_setstate)
    def setstate(self, state):
        orig_setstate(self, state)
        track(self)

    TN.__setstate__ = setstate

    # ---- combine monitor on add_tensor_network ---------------------------
    def endpoints(tn):
        return {(tid, ax): ix for tid, t in tn.tensor_map.items()
                for ax, ix in enumerate(t.inds)}

    def pre_add(self, tn, virtual=False, check_collisions=True):
        if not check_collisions:
            return None
        if not hasattr(tn, "tensor_map"):
            return None
        _, _, mult_s = scan(self)
        _, _, mult_o = scan(tn)
        return {
            "self_eps": endpoints(self),
            "other_eps": endpoints(tn),
            "other_order": list(tn.tensor_map),
            "self_tids": set(self.tensor_map),
            "self_inner": {ix for ix, m in mult_s.items() if m >= 2},
            "self_all": set(mult_s),
            "other_inner": {ix for ix, m in mult_o.items() if m >= 2},
            "other_outer": {ix for ix, m in mult_o.items() if m == 1},
            "same": self is tn,
        }

    def post_add(snap, result, self, tn, virtual=False, check_collisions=True):
        if snap["same"]:
            return
        new_tids = [tid for tid in self.tensor_map if tid not in snap["self_tids"]]
        if len(new_tids) != len(snap["other_order"]):
            rec.check("combine", "count", False, mech="combine:count",
                      detail={"new": len(new_tids), "want": len(snap["other_order"])})
            return
        tidmap = dict(zip(snap["other_order"], new_tids))
        now = endpoints(self)
        sig = (len(snap["self_tids"]), len(new_tids), bool(virtual))
        # (a) receiver's labels untouched
        ok_a = all(now.get(ep) == ix for ep, ix in snap["self_eps"].items())
        rec.check("combine", "receiver_labels", ok_a,
                  mech="combine:receiver_labels:renamed", sig=sig)
        # (b) outer labels of the added network verbatim
        bad_outer = [ix for (tid, ax), ix in snap["other_eps"].items()
                     if ix in snap["other_outer"]
                     and now.get((tidmap[tid], ax)) != ix]
        rec.check("combine", "outer_verbatim", not bad_outer,
                  mech="combine:outer_verbatim:renamed",
                  detail={"renamed": bad_outer[:4]}, sig=sig)
        # (c) bonds of the added network stay distinct bonds
        newlab = {}
        ok_c, why = True, None
        for (tid, ax), ix in snap["other_eps"].items():
            if ix not in snap["other_inner"]:
                continue
            nl = now.get((tidmap[tid], ax))
            if newlab.setdefault(ix, nl) != nl:
                ok_c, why = False, ("bond_torn", str(ix))
        for ix, nl in newlab.items():
            if ix in snap["self_inner"]:
                # clash with one of the receiver's bonds: must be given a name
                # carried by nobody else
                carriers = [ep for ep, l in now.items() if l == nl]
                mine = [(tidmap[tid], ax) for (tid, ax), l in
                        snap["other_eps"].items() if l == ix]
                if nl == ix or sorted(carriers) != sorted(mine):
                    ok_c, why = False, ("bonds_merged", str(ix))
            else:
                if nl != ix:
                    # renaming a non-clashing bond is allowed only to a fresh name
                    carriers = [ep for ep, l in now.items() if l == nl]
                    mine = [(tidmap[tid], ax) for (tid, ax), l in
                            snap["other_eps"].items() if l == ix]
                    if sorted(carriers) != sorted(mine):
                        ok_c, why = False, ("bonds_merged", str(ix))
        # two different bonds of the added network must not share a new label
        if ok_c and len(set(newlab.values())) != len(newlab):
            ok_c, why = False, ("bonds_merged_within", "")
        rec.check("combine", "bonds", ok_c,
                  mech=f"combine:bonds:{why[0] if why else ''}",
                  detail={"why": why, "virtual": bool(virtual)}, sig=sig)

    attach.install(TN, "add_tensor_network", attach.monitored(
        rec, "add_tensor_network", pre_add, post_add, fam="comb"))


# ---------------------------------------------------------------------------
# history fuzzer
# ---------------------------------------------------------------------------

TAGS = list("ABCDEF")


def _size(ix):
    return 2 + (sum(map(ord, str(ix))) % 2)


class Pool:
    def __init__(self, rng):
        self.rng = rng
        self.nets = []
        self.loose = []
        self.nfresh = 0
        self.touched = set()

    def fresh_ind(self):
        self.nfresh += 1
        return f"x{self.nfresh}"

    def rand_tensor(self, tn=None, rank=None):
        import quimb.tensor as qtn
        rng = self.rng
        if rank is None:
            rank = int(rng.integers(0, 4))
        inds = []
        cands = []
        if tn is not None and tn.tensor_map:
            cands = [ix for ix in tn._outer_inds]
        for _ in range(rank):
            if cands and rng.random() < 0.5:
                ix = gen.choice(rng, cands)
                if ix not in inds:
                    inds.append(ix)
                    continue
            inds.append(self.fresh_ind())
        shape = []
        for ix in inds:
            if tn is not None and ix in tn.ind_map:
                shape.append(tn.ind_size(ix))
            else:
                shape.append(_size(ix))
        tags = [t for t in TAGS if rng.random() < 0.3]
        return qtn.Tensor(gen.rand_array(rng, tuple(shape)), inds=inds, tags=tags)

    def rand_net(self, n=None):
        import quimb.tensor as qtn
        rng = self.rng
        r = rng.random()
        if r < 0.15:
            L = int(rng.integers(2, 5))
            return qtn.MPS_rand_state(L, 2, seed=int(rng.integers(1 << 30)))
        if r < 0.22:
            return qtn.PEPS.rand(2, 2, 2, seed=int(rng.integers(1 << 30)))
        tn = qtn.TensorNetwork([])
        n = int(rng.integers(1, 6)) if n is None else n
        for _ in range(n):
            tn.add_tensor(self.rand_tensor(tn), virtual=True)
        return tn

    def pick_net(self):
        tn = gen.choice(self.rng, self.nets) if self.nets else None
        if tn is not None:
            self.touched.add(id(tn))
        return tn


def _tids(tn):
    return list(tn.tensor_map)


def _some_tag(rng, tn):
    tags = sorted(map(str, tn.tag_map))
    return gen.choice(rng, tags) if tags else "A"


def _orig_tag(rng, tn):
    tags = list(tn.tag_map)
    return gen.choice(rng, tags) if tags else "A"


def history_ops():
    """name -> fn(pool, rng) ; each performs ONE top-level public operation.
    Returns False if not applicable."""
    import quimb.tensor as qtn
    ops = {}

    def op(f):
        ops[f.__name__] = f
        return f

    @op
    def new_net(P, rng):
        P.nets.append(P.rand_net())

    @op
    def add_tensor(P, rng):
        tn = P.pick_net()
        tn.add_tensor(P.rand_tensor(tn), virtual=bool(rng.random() < 0.5))

    @op
    def ior_tensor(P, rng):
        tn = P.pick_net()
        t = P.rand_tensor(tn)
        P.loose.append(t)
        tn |= t

    @op
    def iand_tensor(P, rng):
        tn = P.pick_net()
        tn &= P.rand_tensor(tn)

    @op
    def add_loose_to_second(P, rng):
        # the same tensor object viewed by two networks
        if not P.loose:
            return False
        t = gen.choice(rng, P.loose)
        tn = P.pick_net()
        if any(x is t for x in tn.tensor_map.values()):
            return False  # one tensor object twice in one network: unsupported
        if any(ix in tn.ind_map and tn.ind_size(ix) != t.ind_size(ix) for ix in t.inds):
            return False
        if any(ix in tn._inner_inds for ix in t.inds):
            return False
        tn |= t

    @op
    def combine(P, rng):
        a, b = P.pick_net(), P.pick_net()
        ida = {id(t) for t in a.tensor_map.values()}
        if a is b or any(id(t) in ida for t in b.tensor_map.values()):
            b = b.copy()  # never the same tensor object twice in one network
        for ix in set(a.ind_map) & set(b.ind_map):
            if a.ind_size(ix) != b.ind_size(ix):
                return False
        how = gen.choice(rng, ["&", "|", "&=", "|=", "ctor", "ctor_virtual", "combine"])
        if how == "&":
            P.nets.append(a & b)
        elif how == "|":
            P.nets.append(a | b)
        elif how == "&=":
            a &= b
        elif how == "|=":
            a |= b
        elif how == "ctor":
            P.nets.append(qtn.TensorNetwork([a, b]))
        elif how == "ctor_virtual":
            P.nets.append(qtn.TensorNetwork([a, b], virtual=True))
        else:
            P.nets.append(a.combine(b, virtual=bool(rng.random() < 0.5)))

    @op
    def pop_tensor(P, rng):
        tn = P.pick_net()
        if not tn.tensor_map:
            return False
        t = tn.pop_tensor(gen.choice(rng, _tids(tn)))
        if rng.random() < 0.5:
            P.loose.append(t)

    @op
    def delete(P, rng):
        tn = P.pick_net()
        if not tn.tag_map:
            return False
        if rng.random() < 0.5:
            tn.delete(_orig_tag(rng, tn), which=gen.choice(rng, ["all", "any"]))
        else:
            del tn[_orig_tag(rng, tn)]

    @op
    def setitem(P, rng):
        tn = P.pick_net()
        for tg, tids in tn.tag_map.items():
            if len(tids) == 1:
                old = tn.tensor_map[next(iter(tids))]
                new = qtn.Tensor(gen.rand_array(rng, old.shape), inds=old.inds,
                                 tags=list(old.tags) + ["S"])
                tn[tg] = new
                return
        return False

    @op
    def t_reindex(P, rng):
        tn = P.pick_net()
        if not tn.tensor_map:
            return False
        t = tn.tensor_map[gen.choice(rng, _tids(tn))]
        if not t.inds:
            return False
        ix = gen.choice(rng, list(t.inds))
        r = rng.random()
        if r < 0.5:
            new = P.fresh_ind()
            if _size(new) != t.ind_size(ix):
                new = new + "_"
                if _size(new) != t.ind_size(ix):
                    new = new + "a"
        else:
            # connect to an existing outer label of equal size elsewhere
            cands = [jx for jx in tn._outer_inds
                     if jx not in t.inds and tn.ind_size(jx) == t.ind_size(ix)]
            if not cands:
                return False
            new = gen.choice(rng, cands)
        if rng.random() < 0.7:
            t.reindex_({ix: new})
        else:
            t.modify(inds=tuple(new if jx == ix else jx for jx in t.inds))

    @op
    def t_retag(P, rng):
        tn = P.pick_net()
        if not tn.tensor_map:
            return False
        t = tn.tensor_map[gen.choice(rng, _tids(tn))]
        r = rng.random()
        if r < 0.3:
            t.add_tag(gen.choice(rng, TAGS))
        elif r < 0.5:
            t.drop_tags(None if rng.random() < 0.3 else
                        [gen.choice(rng, list(t.tags))] if t.tags else None)
        elif r < 0.75:
            if not t.tags:
                return False
            t.retag_({gen.choice(rng, list(t.tags)): gen.choice(rng, TAGS)})
        else:
            t.modify(tags=[x for x in TAGS if rng.random() < 0.4])

    @op
    def t_transpose(P, rng):
        tn = P.pick_net()
        if not tn.tensor_map:
            return False
        t = tn.tensor_map[gen.choice(rng, _tids(tn))]
        perm = list(t.inds)
        rng.shuffle(perm)
        t.transpose_(*perm)

    @op
    def tn_reindex(P, rng):
        tn = P.pick_net()
        inds = list(tn.ind_map)
        if not inds:
            return False
        m = {}
        for ix in inds:
            if rng.random() < 0.3:
                m[ix] = P.fresh_ind() + f"s{tn.ind_size(ix)}"
        if rng.random() < 0.5:
            tn.reindex_(m)
        else:
            P.nets.append(tn.reindex(m))

    @op
    def tn_retag(P, rng):
        tn = P.pick_net()
        if not tn.tag_map:
            return False
        r = rng.random()
        if r < 0.3:
            tn.retag_({_orig_tag(rng, tn): gen.choice(rng, TAGS)})
        elif r < 0.5:
            P.nets.append(tn.retag({_orig_tag(rng, tn): gen.choice(rng, TAGS)}))
        elif r < 0.75:
            tn.add_tag(gen.choice(rng, TAGS),
                       where=_orig_tag(rng, tn) if rng.random() < 0.6 else None,
                       which=gen.choice(rng, ["all", "any"]))
        else:
            tn.drop_tags(None if rng.random() < 0.2 else [_orig_tag(rng, tn)])

    @op
    def split_tensor(P, rng):
        tn = P.pick_net()
        for tid, t in tn.tensor_map.items():
            if t.ndim >= 2 and rng.random() < 0.6:
                k = int(rng.integers(1, t.ndim))
                tn._split_tensor_tid(tid, t.inds[:k]) if rng.random() < 0.3 else \
                    tn.split_tensor(_unique_tags(tn, tid), t.inds[:k]) \
                    if _unique_tags(tn, tid) else tn._split_tensor_tid(tid, t.inds[:k])
                return
        return False

    def _unique_tags(tn, tid):
        t = tn.tensor_map[tid]
        for tg in t.tags:
            if len(tn.tag_map[tg]) == 1:
                return tg
        return None

    @op
    def contract_between(P, rng):
        tn = P.pick_net()
        for ix in list(tn._inner_inds):
            tids = list(tn.ind_map[ix])
            if len(tids) == 2 and rng.random() < 0.6:
                a, b = (_unique_tags(tn, tids[0]), _unique_tags(tn, tids[1]))
                if a and b and rng.random() < 0.5:
                    tn.contract_between(a, b)
                else:
                    tn._contract_between_tids(*tids)
                return
        return False

    @op
    def contract_ind(P, rng):
        tn = P.pick_net()
        cands = [ix for ix in tn._inner_inds if len(tn.ind_map[ix]) == 2]
        if not cands:
            return False
        tn.contract_ind(gen.choice(rng, cands))

    @op
    def contract_tags(P, rng):
        tn = P.pick_net()
        if not tn.tag_map or any(len(v) > 2 for v in tn.ind_map.values()):
            return False
        tg = _orig_tag(rng, tn)
        if rng.random() < 0.5:
            tn.contract_tags_(tg)
        else:
            r = tn.contract_tags(tg)
            if hasattr(r, "tensor_map"):
                P.nets.append(r)

    @op
    def gate_inds(P, rng):
        tn = P.pick_net()
        outer = [ix for ix in tn._outer_inds]
        if not outer:
            return False
        k = 1 if len(outer) < 2 or rng.random() < 0.5 else 2
        inds = [outer[int(i)] for i in rng.choice(len(outer), size=k, replace=False)]
        d = int(np.prod([tn.ind_size(ix) for ix in inds]))
        G = gen.rand_array(rng, (d, d))
        modes = [False, True] if k == 1 else [False, True, "split-gate",
                                              "swap-split-gate"]
        if k == 2:
            (ta,), (tb,) = (tuple(tn._inds_get(ix)) for ix in inds)
            if ta is not tb and len(ta.bonds(tb)) == 1 and all(
                    len(tn.ind_map[b]) == 2 for b in ta.bonds(tb)):
                # (re-splitting a hyper bond carried by a third tensor is
                # outside the documented domain of the split modes)
                modes += ["split", "reduce-split"]
        tn.gate_inds_(G, inds, contract=gen.choice(rng, modes),
                      tags=[gen.choice(rng, TAGS)])

    @op
    def fuse_multibonds(P, rng):
        tn = P.pick_net()
        tn.fuse_multibonds_()

    @op
    def isel(P, rng):
        tn = P.pick_net()
        inds = list(tn.ind_map)
        if not inds:
            return False
        ix = gen.choice(rng, inds)
        if rng.random() < 0.5:
            tn.isel_({ix: 0})
        else:
            P.nets.append(tn.isel({ix: 0}))

    @op
    def squeeze(P, rng):
        tn = P.pick_net()
        tn.squeeze_(fuse=bool(rng.random() < 0.5))

    @op
    def rank_simplify(P, rng):
        tn = P.pick_net()
        if any(len(v) > 2 for v in tn.ind_map.values()):
            return False
        tn.rank_simplify_()

    @op
    def replace_with_identity(P, rng):
        tn = P.pick_net()
        if not tn.tag_map:
            return False
        tg = _orig_tag(rng, tn)
        try:
            P.nets.append(tn.replace_with_identity(tg))
        except ValueError:
            return False

    @op
    def insert_operator(P, rng):
        tn = P.pick_net()
        for ix in list(tn._inner_inds):
            tids = list(tn.ind_map[ix])
            if len(tids) == 2:
                a, b = _unique_tags(tn, tids[0]), _unique_tags(tn, tids[1])
                if a and b and len(tn.tensor_map[tids[0]].bonds(tn.tensor_map[tids[1]])) == 1:
                    d = tn.ind_size(ix)
                    tn.insert_operator_(gen.rand_array(rng, (d, d)), a, b,
                                        tags=["OP"])
                    return
        return False

    @op
    def cut_bond(P, rng):
        tn = P.pick_net()
        cands = [ix for ix in tn._inner_inds if len(tn.ind_map[ix]) == 2]
        if not cands:
            return False
        ix = gen.choice(rng, cands)
        tn.cut_bond(ix, P.fresh_ind() + "L", P.fresh_ind() + "R")

    @op
    def hyperinds_resolve(P, rng):
        tn = P.pick_net()
        if not any(len(v) > 2 for v in tn.ind_map.values()):
            return False
        tn.hyperinds_resolve_(mode=gen.choice(rng, ["dense", "mps", "tree"]))

    @op
    def mangle_inner(P, rng):
        tn = P.pick_net()
        tn.mangle_inner_()

    @op
    def copy(P, rng):
        tn = P.pick_net()
        r = rng.random()
        if r < 0.4:
            P.nets.append(tn.copy())
        elif r < 0.8:
            P.nets.append(tn.copy(virtual=True))
        else:
            P.nets.append(tn.copy(deep=True))

    @op
    def select(P, rng):
        tn = P.pick_net()
        if not tn.tag_map:
            return False
        P.nets.append(tn.select(_orig_tag(rng, tn),
                                which=gen.choice(rng, ["all", "any", "!any", "!all"]),
                                virtual=bool(rng.random() < 0.7)))

    @op
    def partition(P, rng):
        tn = P.pick_net()
        if not tn.tag_map:
            return False
        tg = _orig_tag(rng, tn)
        inplace = bool(rng.random() < 0.5)
        if rng.random() < 0.5:
            a, b = tn.partition(tg, which=gen.choice(rng, ["any", "all"]),
                                inplace=inplace)
            P.nets += [a, b]
        else:
            a, ts = tn.partition_tensors(tg, inplace=inplace,
                                         which=gen.choice(rng, ["any", "all"]))
            P.nets.append(a)
            P.loose += list(ts)[:2]

    @op
    def tids_consecutive(P, rng):
        tn = P.pick_net()
        tn.make_tids_consecutive(int(rng.integers(0, 3)))

    @op
    def pickle_roundtrip(P, rng):
        tn = P.pick_net()
        P.nets.append(pickle.loads(pickle.dumps(tn)))

    @op
    def drop_and_gc(P, rng):
        if len(P.nets) < 2:
            return False
        i = int(rng.integers(0, len(P.nets)))
        del P.nets[i]
        gc.collect()
        # many short lived networks: address re-use against dead owner keys
        for _ in range(5):
            tn = P.pick_net()
            v = tn.copy(virtual=True)
            del v

    @op
    def conj_H(P, rng):
        tn = P.pick_net()
        if not tn.tensor_map:
            return False
        if rng.random() < 0.5:
            tn.conj_()
        else:
            P.nets.append(tn.H)

    @op
    def drape_bond(P, rng):
        tn = P.pick_net()
        if len(tn.tensor_map) < 3:
            return False
        for ix in list(tn._inner_inds):
            tids = list(tn.ind_map[ix])
            if len(tids) != 2:
                continue
            others = [t for t in tn.tensor_map if t not in tids]
            if not others:
                continue
            a, b = _unique_tags(tn, tids[0]), _unique_tags(tn, tids[1])
            c = _unique_tags(tn, gen.choice(rng, others))
            if a and b and c and len(tn.tensor_map[tids[0]].bonds(tn.tensor_map[tids[1]])) == 1:
                tn.drape_bond_between_(a, b, c)
                return
        return False

    @op
    def astype_to(P, rng):
        tn = P.pick_net()
        if rng.random() < 0.5:
            tn.astype_("complex128")
        else:
            P.nets.append(tn.astype("float32"))

    @op
    def remove_all_refill(P, rng):
        # empty a network whose tensors stay alive in a view, then refill it:
        # the old tensors must no longer notify the emptied network
        tn = P.pick_net()
        if not tn.tensor_map:
            return False
        view = tn.copy(virtual=True)
        P.nets.append(view)
        tn.remove_all_tensors()
        for _ in range(int(rng.integers(0, 3))):
            tn.add_tensor(P.rand_tensor(tn))
        # now touch the old tensors through the view
        for t in list(view.tensor_map.values())[:3]:
            t.add_tag("AFTER")

    @op
    def drop_add_tags(P, rng):
        tn = P.pick_net()
        if not tn.tag_map:
            return False
        if rng.random() < 0.5:
            tn.drop_tags(_orig_tag(rng, tn))
        else:
            tn.add_tag("ALL" + str(int(rng.integers(0, 3))))

    @op
    def unique_tagging(P, rng):
        # give every tensor of a network a unique tag (enables tag based ops)
        tn = P.pick_net()
        for tid, t in tn.tensor_map.items():
            t.add_tag(f"U{tid}")

    return ops


_OPS = None


def wl_history(rng, rec, tier):
    global _OPS
    if _OPS is None:
        _OPS = history_ops()
    names = sorted(_OPS)
    LIVE.clear()
    P = Pool(rng)
    for _ in range(int(rng.integers(1, 4))):
        P.nets.append(P.rand_net())
    nops = int(rng.integers(5, 60 if tier == "quick" else 120))
    done = []
    check_all_live(rec, "start")
    for step in range(nops):
        name = gen.choice(rng, names)
        if not P.nets:
            P.nets.append(P.rand_net())
        P.nets = [tn for tn in P.nets if tn not in TAINTED]
        if not P.nets:
            P.nets.append(P.rand_net())
        P.touched = set()
        before = {id(tn) for tn in P.nets}
        try:
            r = _OPS[name](P, rng)
        except Exception as e:  # noqa
            from ..shard import classify_exception
            if classify_exception(e) == "harness":
                raise
            rec.count("history", name, "rejected")
            if __import__("os").environ.get("QMON_DEBUG"):
                import traceback
                traceback.print_exc(limit=-3)
            rec.note("reject:" + name + ":" + type(e).__name__)
            # a partially applied rejected operation is not judged: retire all
            break
        if r is False:
            continue
        done.append(name)
        rec.count("history", name, "applied")
        if __import__("os").environ.get("QMON_DEBUG"):
            print("OP", step, name, [(type(t).__name__, len(t.tensor_map)) for t in P.nets])
        if len(P.nets) > 8:
            del P.nets[0]
        operated = P.touched | {id(tn) for tn in P.nets if id(tn) not in before}
        ok = check_all_live(rec, f"after:{name}", operated)
        if not ok and __import__("os").environ.get("QMON_DEBUG"):
            for tn in list(LIVE):
                print("LIVE", type(tn).__name__, id(tn) % 10000,
                      [(tid, t.inds, t.shape, sorted(t.tags), id(t) % 10000)
                       for tid, t in tn.tensor_map.items()],
                      "outer", list(tn._outer_inds))
        if not ok:
            break
        if P.nets and rng.random() < 0.5:
            tn = P.pick_net()
            if tn not in TAINTED:
                check_selection(rec, rng, tn)
    if len(done) >= 5:
        rec.sig("history", tuple(done))
    P.nets.clear()
    P.loose.clear()
    return {"ops": done}


def wl_repeated_label(rng, rec, tier):
    """a label made to occur twice on ONE tensor through the owner path
    (tensor.reindex_ while owned) - then the history stops"""
    import quimb.tensor as qtn
    LIVE.clear()
    d = int(rng.integers(2, 4))
    t = qtn.Tensor(gen.rand_array(rng, (d, d, 2)), inds=("a", "b", "c"), tags="T")
    u = qtn.Tensor(gen.rand_array(rng, (2,)), inds=("c",), tags="U")
    tn = qtn.TensorNetwork([t, u], virtual=True)
    check_all_live(rec, "start")
    how = gen.choice(rng, ["tensor.reindex_", "tn.reindex_", "modify"])
    if how == "tensor.reindex_":
        t.reindex_({"b": "a"})
    elif how == "tn.reindex_":
        tn.reindex_({"b": "a"})
    else:
        t.modify(inds=("a", "a", "c"))
    check_all_live(rec, "after:repeat:" + how)
    return {"how": how}


WORKLOADS = [("history", 30, wl_history), ("repeated_label", 1, wl_repeated_label)]
