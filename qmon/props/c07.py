"""C07 - all circuit simulators implement the same unitary semantics, no stale
caches.

Shadow model: every circuit object gets an independent numpy state vector (and
unitary) that is advanced by a wrapper on the class's ``_apply_gate`` when the
call returns normally (textbook matrix when one exists, else the gate's own
array), copied on ``copy`` and rebuilt on parameter updates.  Every query is
compared with the shadow *as it is at the time of the query*."""

import weakref

import numpy as np

from .. import attach, gen
from ..core import to_numpy

PROP = "C07"
NCASES = {"quick": 2500, "thorough": 60000}
BUDGET = {"quick": 80, "thorough": 1500}
RULE = ("random programs (1-30 gates, 2-7 qubits) over the whole gate registry (constant, "
        "parametrised incl. parametrize=True, controlled and multi-controlled, SWAP/IDEN, "
        "raw unitaries with controls) on Circuit, CircuitDense, CircuitMPS, CircuitPermMPS, "
        "CircuitMPSLazy with their gate options; interleaved apply / set_params / copy / "
        "query with random query arguments; non-product initial states; distinct = (class, "
        "query, options signature, #gates bucket)")
ASSUMPTIONS = [
    "MPS classes are run with max_bond=None; the tolerance accounts for the documented "
    "default cutoff (1e-10 relative discarded weight per gate) unless cutoff=0 is passed",
    "queries whose documented default precision is complex64 / atol 1e-6 (compute_marginal, "
    "sample*) are judged at 1e-4",
    "a sampled bitstring must have shadow probability > 1e-9; frequencies are not tested in "
    "the quick tier",
]
DECIDING = [("gate", "unitary"), ("query", "to_dense"), ("query", "amplitude"),
            ("query", "local_expectation"), ("query", "sample")]
SUITE = ["tests/test_tensor/test_circuit"]
MANIFEST = dict(
    technique="shadow-state runtime monitor: a wrapper on each simulator's _apply_gate advances an independent numpy statevector/unitary per circuit object (textbook gate matrices), wrappers on every query compare the answer with the shadow at query time (stale caches show as answers matching an older shadow); registered gates are checked for unitarity and against textbook matrices",
    text="Random gate programs over the full registry on all five circuit classes with interleaved gate application, parameter updates, copies and queries (to_dense, psi, uni, amplitude, partial_trace, local_expectation, compute_marginal, sample, sample_chaotic, sample_gate_by_gate, fidelity_estimate); rejected gates must leave the circuit consistent with the shadow.",
    note="PEPS/PEPO simple-update circuit classes are approximate by construction and not judged.",
    ref="3/C07")


# ---------------------------------------------------------------------------
# textbook matrices (independent of quimb)
# ---------------------------------------------------------------------------
I2 = np.eye(2, dtype=complex)
X = np.array([[0, 1], [1, 0]], dtype=complex)
Y = np.array([[0, -1j], [1j, 0]], dtype=complex)
Z = np.array([[1, 0], [0, -1]], dtype=complex)
H = (X + Z) / np.sqrt(2)


def _rot(P, th):
    return np.cos(th / 2) * np.eye(P.shape[0]) - 1j * np.sin(th / 2) * P


def _u3(th, ph, lam):
    return np.array([[np.cos(th / 2), -np.exp(1j * lam) * np.sin(th / 2)],
                     [np.exp(1j * ph) * np.sin(th / 2), np.exp(1j * (ph + lam)) * np.cos(th / 2)]])


def _ctrl(U, n=1):
    d = U.shape[0]
    M = np.eye(2 ** n * d, dtype=complex)
    M[-d:, -d:] = U
    return M


SWAPM = np.array([[1, 0, 0, 0], [0, 0, 1, 0], [0, 1, 0, 0], [0, 0, 0, 1]], dtype=complex)
REFS = {
    "H": lambda: H, "X": lambda: X, "Y": lambda: Y, "Z": lambda: Z,
    "S": lambda: np.diag([1, 1j]), "SDG": lambda: np.diag([1, -1j]),
    "T": lambda: np.diag([1, np.exp(1j * np.pi / 4)]), "TDG": lambda: np.diag([1, np.exp(-1j * np.pi / 4)]),
    "SX": lambda: 0.5 * np.array([[1 + 1j, 1 - 1j], [1 - 1j, 1 + 1j]]),
    "SXDG": lambda: 0.5 * np.array([[1 - 1j, 1 + 1j], [1 + 1j, 1 - 1j]]),
    "IDEN": lambda: I2,
    "CNOT": lambda: _ctrl(X), "CX": lambda: _ctrl(X), "CY": lambda: _ctrl(Y), "CZ": lambda: _ctrl(Z),
    "SWAP": lambda: SWAPM,
    "ISWAP": lambda: np.array([[1, 0, 0, 0], [0, 0, 1j, 0], [0, 1j, 0, 0], [0, 0, 0, 1]], dtype=complex),
    "IS": lambda: np.array([[1, 0, 0, 0], [0, 0, 1j, 0], [0, 1j, 0, 0], [0, 0, 0, 1]], dtype=complex),
    "CCX": lambda: _ctrl(X, 2), "CCNOT": lambda: _ctrl(X, 2), "TOFFOLI": lambda: _ctrl(X, 2),
    "CCY": lambda: _ctrl(Y, 2), "CCZ": lambda: _ctrl(Z, 2),
    "CSWAP": lambda: _ctrl(SWAPM), "FREDKIN": lambda: _ctrl(SWAPM),
    "RX": lambda th: _rot(X, th), "RY": lambda th: _rot(Y, th), "RZ": lambda th: _rot(Z, th),
    "U3": _u3, "U2": lambda ph, lam: _u3(np.pi / 2, ph, lam), "U1": lambda lam: np.diag([1, np.exp(1j * lam)]),
    "PHASE": lambda lam: np.diag([1, np.exp(1j * lam)]),
    "CU3": lambda th, ph, lam: _ctrl(_u3(th, ph, lam)),
    "CU2": lambda ph, lam: _ctrl(_u3(np.pi / 2, ph, lam)),
    "CU1": lambda lam: _ctrl(np.diag([1, np.exp(1j * lam)])),
    "CPHASE": lambda lam: _ctrl(np.diag([1, np.exp(1j * lam)])),
    "CRX": lambda th: _ctrl(_rot(X, th)), "CRY": lambda th: _ctrl(_rot(Y, th)),
    "CRZ": lambda th: _ctrl(_rot(Z, th)),
    "RXX": lambda th: _rot(np.kron(X, X), th), "RYY": lambda th: _rot(np.kron(Y, Y), th),
    "RZZ": lambda th: _rot(np.kron(Z, Z), th),
}
NPARAMS = {"RX": 1, "RY": 1, "RZ": 1, "U3": 3, "U2": 2, "U1": 1, "PHASE": 1, "CU3": 3, "CU2": 2,
           "CU1": 1, "CPHASE": 1, "CRX": 1, "CRY": 1, "CRZ": 1, "RXX": 1, "RYY": 1, "RZZ": 1,
           "FSIM": 2, "FS": 2, "FSIMG": 5, "GIVENS": 1, "GIVENS2": 2, "XXPLUSYY": 2,
           "XXMINUSYY": 2, "SU4": 15}


# ---------------------------------------------------------------------------
# shadow state
# ---------------------------------------------------------------------------

class Shadow:
    def __init__(self, N, psi0):
        self.N = N
        self.psi0 = np.array(psi0, dtype=complex).reshape((2,) * N)
        self.psi = self.psi0.copy()
        self.U = np.eye(2 ** N, dtype=complex).reshape((2,) * (2 * N)) if N <= 6 else None
        self.ngates = 0
        self.lossy = 0.0       # accumulated documented truncation allowance
        self.unit_ok = True

    def copy(self):
        s = Shadow.__new__(Shadow)
        s.N, s.psi0, s.psi = self.N, self.psi0, self.psi.copy()
        s.U = None if self.U is None else self.U.copy()
        s.ngates, s.lossy, s.unit_ok = self.ngates, self.lossy, self.unit_ok
        return s

    @staticmethod
    def _apply(v, M, qubits, controls, N):
        """v: ndarray whose first N axes are the qubits"""
        n = len(qubits)
        M = np.asarray(M, dtype=complex).reshape((2,) * (2 * n))
        if controls:
            idx = [slice(None)] * v.ndim
            for c in controls:
                idx[c] = 1
            sub = v[tuple(idx)]
            # axes of the remaining qubits shift down past the fixed controls
            rem = [q for q in range(N) if q not in controls]
            pos = [rem.index(q) for q in qubits]
            out = np.tensordot(M, sub, axes=(list(range(n, 2 * n)), pos))
            out = np.moveaxis(out, list(range(n)), pos)
            v = v.copy()
            v[tuple(idx)] = out
            return v
        out = np.tensordot(M, v, axes=(list(range(n, 2 * n)), list(qubits)))
        return np.moveaxis(out, list(range(n)), list(qubits))

    def apply(self, M, qubits, controls=None):
        controls = tuple(controls or ())
        self.psi = self._apply(self.psi, M, qubits, controls, self.N)
        if self.U is not None:
            self.U = self._apply(self.U, M, qubits, controls, self.N)
        self.ngates += 1

    def vec(self):
        return self.psi.reshape(-1)

    def unitary(self):
        return None if self.U is None else self.U.reshape(2 ** self.N, 2 ** self.N)


SHADOWS = weakref.WeakKeyDictionary()


def gate_matrix(rec, gate):
    """(matrix, used_reference) for a quimb Gate; records unitarity / textbook
    agreement of the gate's own array"""
    label = gate.label
    arr = None
    try:
        arr = np.asarray(to_numpy(gate.array), dtype=complex)
        n = len(gate.qubits)
        arr = arr.reshape(2 ** n, 2 ** n)
    except Exception:
        arr = None
    ref = None
    if label in REFS:
        try:
            ps = [] if isinstance(gate.params, str) else [float(np.real(p)) for p in np.asarray(
                to_numpy(gate.params)).reshape(-1)]
            ref = np.asarray(REFS[label](*ps), dtype=complex)
        except Exception:
            ref = None
    if arr is not None:
        dev = float(np.abs(arr.conj().T @ arr - np.eye(arr.shape[0])).max())
        raw = label.startswith("RAW")
        if not raw:
            rec.check("gate", "unitary", dev <= 1e-6, mech=f"gate:not_unitary:{label}",
                      detail={"label": label, "dev": dev}, sig=("unitary", label))
        if ref is not None and ref.shape == arr.shape:
            d = float(np.abs(arr - ref).max())
            rec.check("gate", "textbook", d <= 1e-6, mech=f"gate:differs_from_textbook:{label}",
                      detail={"label": label, "diff": d,
                              "params": None if isinstance(gate.params, str) else
                              [float(np.real(p)) for p in np.asarray(to_numpy(gate.params)).reshape(-1)]},
                      sig=("textbook", label))
    M = ref if (ref is not None and (arr is None or ref.shape == arr.shape)) else arr
    return M


def advance(rec, sh, gate):
    M = gate_matrix(rec, gate)
    if M is None:
        return False
    sh.apply(M, tuple(gate.qubits), gate.controls)
    return True


def rebuild(rec, circ):
    sh0 = SHADOWS.get(circ)
    if sh0 is None:
        return
    sh = Shadow(sh0.N, sh0.psi0)
    sh.lossy = sh0.lossy
    for g in circ.gates:
        if not advance(rec, sh, g):
            SHADOWS.pop(circ, None)
            return
    SHADOWS[circ] = sh


def is_mps(circ):
    import quimb.tensor.circuit.mps as m
    return isinstance(circ, m.CircuitMPS)


def tol_for(circ, sh, kind="exact"):
    """absolute tolerance on amplitudes (state has norm 1)"""
    base = 1e-8
    if is_mps(circ):
        cutoff = circ.gate_opts.get("cutoff", None)
        if cutoff is None:
            try:
                cutoff = circ.cutoff          # CircuitMPSLazy keeps it as a property
            except Exception:
                cutoff = 1e-10
        cutoff = cutoff or 0.0
        base = max(base, 3 * (cutoff * max(sh.ngates, 1)) ** 0.5)
        # gates applied as sub-MPOs (contract='nonlocal', controlled or 3+ qubit
        # gates under 'auto-mps') are first decomposed with the documented
        # default cutoff 1e-10 of MatrixProductOperator.from_dense
        if circ.gate_opts.get("contract") == "nonlocal" or any(
                g.controls or len(g.qubits) > 2 for g in circ.gates):
            base = max(base, 3e-5 * max(sh.ngates, 1) ** 0.5)
        if type(circ).__name__ == "CircuitMPSLazy":
            # its default density-matrix compression works with squared
            # singular values: accuracy ~ sqrt(machine eps) per compression
            base = max(base, 2e-5)
    else:
        # exact circuits split two-qubit gates with a small default cutoff
        base = max(base, 1e-6)
    dt = str(getattr(circ, "dtype", "complex128"))
    if "64" in dt and "complex64" in dt or dt in ("float32",):
        base = max(base, 5e-4)
    if kind == "c64":
        base = max(base, 2e-4)
    return base


def dense_of_psi0(circ):
    psi = circ._psi
    N = circ.N
    inds = [psi.site_ind(i) for i in range(N)]
    if hasattr(circ, "qubits") and isinstance(getattr(circ, "qubits"), list):
        # PermMPS stores sites in physical order
        pass
    t = psi.contract(all, output_inds=inds, optimize="greedy")
    a = to_numpy(t.data) if hasattr(t, "data") else np.asarray(t)
    return np.asarray(a, dtype=complex).reshape(-1)


# ---------------------------------------------------------------------------
# monitors
# ---------------------------------------------------------------------------

def install(rec):
    import quimb.tensor.circuit.core as cc
    import quimb.tensor.circuit.exact as ce
    import quimb.tensor.circuit.mps as cm

    # -- creation ---------------------------------------------------------
    def pre_init(self, *a, **k):
        return {}

    def post_init(s, out, self, *a, **k):
        if type(self).__name__ not in ("Circuit", "CircuitDense", "CircuitMPS", "CircuitPermMPS",
                                       "CircuitMPSLazy"):
            return
        if self.N > 10:
            return
        try:
            SHADOWS[self] = Shadow(self.N, dense_of_psi0(self))
        except Exception:
            pass
    attach.install(cc.CircuitBase, "__init__", attach.monitored(rec, "Circuit.__init__", pre_init, post_init, fam="init"))

    def pre_copy(self, *a, **k):
        return {}

    def post_copy(s, out, self, *a, **k):
        sh = SHADOWS.get(self)
        if sh is not None and out is not None:
            SHADOWS[out] = sh.copy()
            if self in REJECTED:
                REJECTED.add(out)
    for cls in (cc.CircuitBase, cm.CircuitPermMPS, cm.CircuitMPSLazy):
        if "copy" in vars(cls):
            attach.install(cls, "copy", attach.monitored(rec, cls.__name__ + ".copy", pre_copy, post_copy, fam="copy"))

    # -- gate application ---------------------------------------------------
    def mk_apply(cls):
        def pre(self, gate, tags=None, **k):
            if rec.depth("apply") > 0:
                return None
            return {"n": len(self.gates)}

        def post(s, out, self, gate, tags=None, **k):
            sh = SHADOWS.get(self)
            if sh is None:
                return
            if not advance(rec, sh, gate):
                SHADOWS.pop(self, None)
                return
            rec.check("apply", "recorded", len(self.gates) == s["n"] + 1, mech="apply:gate_not_recorded",
                      detail={"before": s["n"], "after": len(self.gates), "cls": type(self).__name__})
            if is_mps(self) and (self.gate_opts.get("max_bond") is not None or k.get("max_bond") is not None):
                SHADOWS.pop(self, None)      # truncating run: not judged

        def on_reject(s, exc, self, gate, tags=None, **k):
            rec.count("apply", type(self).__name__, "rejected_gate")
            REJECTED.add(self)
        return attach.monitored(rec, cls.__name__ + "._apply_gate", pre, post, fam="apply",
                                on_reject=on_reject)
    for cls in (cc.CircuitBase, cm.CircuitPermMPS, cm.CircuitMPSLazy):
        if "_apply_gate" in vars(cls):
            attach.install(cls, "_apply_gate", mk_apply(cls))

    # -- parameter updates ---------------------------------------------------
    def pre_sp(self, *a, **k):
        return {}

    def post_sp(s, out, self, *a, **k):
        rebuild(rec, self)
    for nm in ("set_params", "update_params_from", "register_named_params", "_apply_named_param_updates"):
        if hasattr(cc.CircuitBase, nm):
            attach.install(cc.CircuitBase, nm, attach.monitored(rec, "Circuit." + nm, pre_sp, post_sp, fam="params"))

    # -- queries -----------------------------------------------------------
    def q(entry, cls, name, judge, gen_wrap=False):
        def pre(self, *a, **k):
            if rec.depth("query") > 0:
                return None
            sh = SHADOWS.get(self)
            if sh is None:
                return None
            return {"sh": sh.copy(), "rejected": self in REJECTED}

        def post(s, out, self, *a, **k):
            judge(s["sh"], out, self, *a, **k)
        if name in vars(cls):
            attach.install(cls, name, attach.monitored(rec, entry, pre, post, fam="query"))

    def chk(self, clause, ok, err, tol, detail, sig):
        cls = type(self).__name__
        mech = f"query:{clause}:{cls}"
        if self in REJECTED and not ok:
            mech = f"query_after_rejected_gate:{clause}:{cls}"
        rec.check("query", clause, ok, mech=mech,
                  detail=dict(detail, err=err, tol=tol, cls=cls, ngates=len(self.gates)),
                  sig=(cls, clause, sig, min(len(self.gates) // 5, 4)))

    def j_dense(sh, out, self, reverse=False, *a, **k):
        v = np.asarray(to_numpy(out), dtype=complex).reshape(-1)
        ref = sh.psi if not reverse else np.transpose(sh.psi, list(range(sh.N))[::-1])
        ref = ref.reshape(-1)
        tol = tol_for(self, sh)
        if k.get("dtype") in ("complex64", np.complex64):
            tol = max(tol, 5e-4)
        err = float(np.abs(v - ref).max()) if v.shape == ref.shape else float("inf")
        chk(self, "to_dense", err <= tol, err, tol, {"reverse": bool(reverse)}, (bool(reverse),))

    def j_psi(sh, out, self, *a, **k):
        psi = out
        try:
            t = psi.contract(all, output_inds=[psi.site_ind(i) for i in range(sh.N)], optimize="greedy")
        except Exception as e:  # noqa
            chk(self, "psi", False, float("inf"), 0.0, {"error": repr(e)[:100]}, ())
            return
        v = np.asarray(to_numpy(t.data if hasattr(t, "data") else t), dtype=complex).reshape(-1)
        tol = tol_for(self, sh)
        err = float(np.abs(v - sh.vec()).max())
        chk(self, "psi", err <= tol, err, tol, {}, ())

    def j_uni(sh, out, self, transposed=False, *a, **k):
        U = sh.U
        if U is None:
            return
        N = sh.N
        uni = out
        # the operator network only carries the qubits some gate has touched;
        # it is the identity elsewhere
        sites = sorted(uni.gen_sites_present())
        if not sites:
            rec.count("query", "uni", "out_of_domain")
            return
        n = len(sites)
        incomplete = False
        try:
            up = [uni.upper_ind(i) for i in sites]
            lo = [uni.lower_ind(i) for i in sites]
            if set(uni.outer_inds()) != set(up) | set(lo):
                incomplete = True
            else:
                t = uni.contract(all, output_inds=up + lo, optimize="greedy")
                M = np.asarray(to_numpy(t.data), dtype=complex).reshape(2 ** n, 2 ** n)
        except Exception as e:  # noqa
            incomplete = True
        idx = [0] * (2 * N)
        for q_ in sites:
            idx[q_] = slice(None)
            idx[N + q_] = slice(None)
        ref = U[tuple(idx)].reshape(2 ** n, 2 ** n)
        # untouched qubits must really be untouched in the shadow
        rest_ok = abs(np.linalg.norm(ref) ** 2 - 2 ** n) < 1e-6
        if incomplete or not rest_ok:
            # the operator network lacks the wire of a qubit that only an index
            # relabelling gate (SWAP) has touched
            rec.check("query", "uni", False, mech="query:uni:network_misses_qubit_touched_only_by_relabelling_gate",
                      detail={"sites_present": list(sites), "outer": list(map(str, uni.outer_inds()))[:12],
                              "cls": type(self).__name__})
            return
        if transposed:
            ref = ref.T
        tol = tol_for(self, sh)
        err = float(np.abs(M - ref).max())
        chk(self, "uni", err <= tol, err, tol, {"transposed": bool(transposed)}, (bool(transposed),))

    def j_amp(sh, out, self, b, *a, **k):
        if k.get("rehearse"):
            return
        ref = sh.psi[tuple(int(c) for c in b)]
        tol = tol_for(self, sh)
        if k.get("dtype") in ("complex64", np.complex64):
            tol = max(tol, 5e-4)
        got = complex(np.asarray(to_numpy(out)))
        seq = k.get("simplify_sequence", "ADCRS")
        if np.isnan(got) and abs(ref) <= tol and not is_mps(self) and not (set(seq) - {"R"}) \
                and k.get("simplify_equalize_norms", True):
            rec.check("query", "amplitude", False,
                      mech="query:amplitude:nan_for_zero_amplitude_with_R_only_simplification",
                      detail={"b": "".join(map(str, b)), "simplify_sequence": seq, "cls": type(self).__name__})
            return
        chk(self, "amplitude", abs(got - ref) <= tol, abs(got - ref), tol, {"b": "".join(map(str, b))},
            (sorted(kk for kk in k),))

    def rho_of(sh, keep):
        keep = list(keep)
        N = sh.N
        rest = [q_ for q_ in range(N) if q_ not in keep]
        v = np.transpose(sh.psi, keep + rest).reshape(2 ** len(keep), -1)
        return v @ v.conj().T

    def j_ptr(sh, out, self, keep, *a, **k):
        if k.get("rehearse"):
            return
        keep = (keep,) if isinstance(keep, (int, np.integer)) else tuple(keep)
        ref = rho_of(sh, keep)
        got = np.asarray(to_numpy(out), dtype=complex)
        tol = tol_for(self, sh) * 4
        if k.get("dtype") in ("complex64", np.complex64):
            tol = max(tol, 5e-4)
        err = float(np.abs(got - ref).max()) if got.shape == ref.shape else float("inf")
        why = {}
        if err > tol and got.shape == ref.shape and float(np.abs(got.T - ref).max()) <= tol:
            why = {"note": "transposed"}
        chk(self, "partial_trace", err <= tol, err, tol, dict(why, keep=list(keep)), (len(keep),))

    def j_expec(sh, out, self, G, where, *a, **k):
        if k.get("rehearse"):
            return
        where = (where,) if isinstance(where, (int, np.integer)) else tuple(where)
        if isinstance(G, (list, tuple)):
            # several operators at once: one value each
            outs = list(out) if isinstance(out, (list, tuple)) else list(np.asarray(to_numpy(out)).reshape(-1))
            if len(outs) != len(G):
                chk(self, "local_expectation", False, float("inf"), 0.0, {"where": list(where), "note": "number_of_values"},
                    (len(where), "multi"))
                return
            for g_, o_ in zip(G, outs):
                j_expec(sh, o_, self, g_, where, *a, **k)
            return
        G = np.asarray(to_numpy(G), dtype=complex).reshape(2 ** len(where), 2 ** len(where))
        ref = np.trace(G @ rho_of(sh, where))
        if k.get("normalized") is False or (is_mps(self) and not k.get("normalized", True)):
            pass
        tol = tol_for(self, sh) * 4 * max(1.0, float(np.abs(G).max()) * G.shape[0])
        if k.get("dtype") in ("complex64", np.complex64):
            tol = max(tol, 5e-4 * max(1.0, float(np.abs(G).max()) * G.shape[0]))
        got = complex(np.asarray(to_numpy(out)))
        chk(self, "local_expectation", abs(got - ref) <= tol, abs(got - ref), tol,
            {"where": list(where)}, (len(where), sorted(kk for kk in k)))

    def j_marg(sh, out, self, where, fix=None, *a, **k):
        if k.get("rehearse"):
            return
        where = tuple(where)
        fix = dict(fix or {})
        p = np.abs(sh.psi) ** 2
        idx = [slice(None)] * sh.N
        for q_, b in fix.items():
            idx[q_] = int(b)
        p = p[tuple(idx)]
        rem = [q_ for q_ in range(sh.N) if q_ not in fix]
        axes = [rem.index(q_) for q_ in where]
        other = tuple(i for i in range(len(rem)) if i not in axes)
        m = p.sum(axis=other) if other else p
        # axes now in increasing order of `rem`; reorder to `where`
        cur = sorted(axes)
        m = np.transpose(m, [cur.index(a_) for a_ in axes])
        got = np.asarray(to_numpy(out), dtype=float)
        tol = max(tol_for(self, sh, "c64") * 4, 1e-4 if not is_mps(self) else 0)
        err = float(np.abs(got.reshape(m.shape) - m).max()) if got.size == m.size else float("inf")
        chk(self, "compute_marginal", err <= tol, err, tol, {"where": list(where), "fix": {int(a_): int(b_) for a_, b_ in fix.items()}},
            (len(where), len(fix)))

    for cls in (ce.Circuit, ce.CircuitDense, cm.CircuitMPS, cm.CircuitPermMPS, cm.CircuitMPSLazy):
        n = cls.__name__
        q(n + ".to_dense", cls, "to_dense", j_dense)
        q(n + ".get_psi", cls, "get_psi", j_psi)
        q(n + ".get_uni", cls, "get_uni", j_uni)
        q(n + ".amplitude", cls, "amplitude", j_amp)
        q(n + ".partial_trace", cls, "partial_trace", j_ptr)
        q(n + ".local_expectation", cls, "local_expectation", j_expec)
        q(n + ".compute_marginal", cls, "compute_marginal", j_marg)

    # samples: generators - wrap so that every yielded item is checked against
    # the shadow at the time of the call
    def mk_sample(cls, name):
        raw = vars(cls)[name]

        def wrapper(self, *a, **k):
            if not rec.enabled or rec.busy or rec.depth("query") > 0:
                return raw(self, *a, **k)
            sh = SHADOWS.get(self)
            if sh is None:
                return raw(self, *a, **k)
            sh = sh.copy()
            p = np.abs(sh.psi) ** 2
            it = raw(self, *a, **k)
            entry = cls.__name__ + "." + name

            def gen_():
                rec.push("query")
                try:
                    for item in it:
                        b = item[0] if isinstance(item, tuple) else item
                        try:
                            pb = float(p[tuple(int(c) for c in b)]) if len(b) == sh.N else None
                        except Exception:
                            pb = None
                        if pb is not None:
                            ok = pb > 1e-9
                            rec.busy = True
                            try:
                                chk(self, "sample", ok, pb, 1e-9, {"b": str(b), "p": pb, "method": name}, (name,))
                            finally:
                                rec.busy = False
                        yield item
                finally:
                    rec.pop("query")
            return gen_()
        wrapper.__qmon_original__ = raw
        wrapper.__name__ = name
        setattr(cls, name, wrapper)
    for cls in (ce.Circuit, cm.CircuitMPS, cm.CircuitPermMPS, cm.CircuitMPSLazy):
        for name in ("sample", "sample_chaotic", "sample_gate_by_gate"):
            if name in vars(cls):
                mk_sample(cls, name)

    def pre_fid(self):
        sh = SHADOWS.get(self)
        return None if sh is None else {"sh": sh}

    def post_fid(s, out, self):
        f = float(np.real(out))
        tol = max(1e-6, 10 * tol_for(self, s["sh"]) ** 1)
        chk(self, "fidelity_estimate", abs(f - 1.0) <= tol, abs(f - 1.0), tol, {}, ())
    for cls in (cm.CircuitMPS, cm.CircuitMPSLazy):
        if "fidelity_estimate" in vars(cls):
            attach.install(cls, "fidelity_estimate", attach.monitored(rec, cls.__name__ + ".fidelity_estimate", pre_fid, post_fid, fam="query"))


REJECTED = weakref.WeakSet()
NAMED = {}


# ---------------------------------------------------------------------------
# workloads
# ---------------------------------------------------------------------------

ONE = ["H", "X", "Y", "Z", "S", "SDG", "T", "TDG", "SX", "SXDG", "X_1_2", "Y_1_2", "Z_1_2", "W_1_2",
       "HZ_1_2", "IDEN"]
ONE_P = ["RX", "RY", "RZ", "U3", "U2", "U1", "PHASE"]
TWO = ["CNOT", "CX", "CY", "CZ", "ISWAP", "IS", "SWAP"]
TWO_P = ["CU3", "CU2", "CU1", "CPHASE", "CRX", "CRY", "CRZ", "RXX", "RYY", "RZZ", "FSIM", "FS", "FSIMG",
         "GIVENS", "GIVENS2", "XXPLUSYY", "XXMINUSYY", "SU4"]
THREE = ["CCX", "CCNOT", "TOFFOLI", "CCY", "CCZ", "CSWAP", "FREDKIN"]


def rand_unitary(rng, d):
    a = rng.normal(size=(d, d)) + 1j * rng.normal(size=(d, d))
    q_, r = np.linalg.qr(a)
    return q_ * (np.diag(r) / np.abs(np.diag(r)))


def rand_gate(rng, N):
    """returns (callable(circ), description)"""
    r = rng.random()
    qs = [int(x) for x in rng.permutation(N)]
    if r < 0.2:
        name = gen.choice(rng, ONE)
        return ("named", name, (), (qs[0],), None)
    if r < 0.35:
        name = gen.choice(rng, ONE_P)
        ps = tuple(float(x) for x in rng.uniform(-3, 3, size=NPARAMS[name]))
        return ("named", name, ps, (qs[0],), None)
    if r < 0.55 and N >= 2:
        name = gen.choice(rng, TWO)
        return ("named", name, (), (qs[0], qs[1]), None)
    if r < 0.75 and N >= 2:
        name = gen.choice(rng, TWO_P)
        ps = tuple(float(x) for x in rng.uniform(-3, 3, size=NPARAMS[name]))
        return ("named", name, ps, (qs[0], qs[1]), None)
    if r < 0.8 and N >= 3:
        name = gen.choice(rng, THREE)
        return ("named", name, (), (qs[0], qs[1], qs[2]), None)
    if r < 0.9:
        # controlled version of a small gate via controls=
        nt = 1 if (N < 3 or rng.random() < 0.6) else 2
        nc = int(rng.integers(1, max(2, min(3, N - nt + 1)))) if N > nt else 0
        if nc == 0:
            return ("named", "H", (), (qs[0],), None)
        if nt == 1:
            name = gen.choice(rng, ["X", "Y", "Z", "H", "RX", "U3"])
        else:
            name = gen.choice(rng, ["SWAP", "ISWAP", "RZZ", "FSIM"])
        ps = tuple(float(x) for x in rng.uniform(-3, 3, size=NPARAMS.get(name, 0)))
        return ("named", name, ps, tuple(qs[:nt]), tuple(qs[nt:nt + nc]))
    nq = 1 if N < 2 or rng.random() < 0.4 else 2
    U = rand_unitary(rng, 2 ** nq)
    nc = 0 if N <= nq or rng.random() < 0.6 else 1
    return ("raw", U, (), tuple(qs[:nq]), tuple(qs[nq:nq + nc]) or None)


def do_gate(circ, g, rng, parametrize=False, opts=None):
    kind, name, ps, qubits, controls = g
    opts = opts or {}
    if kind == "raw":
        return gen.attempt2(circ.apply_gate_raw, name, qubits, controls=controls, **opts)
    kw = dict(opts)
    if controls:
        kw["controls"] = controls
    if parametrize and ps:
        kw["parametrize"] = True
    if not controls and not kw and rng.random() < 0.3 and hasattr(circ, name.lower()):
        return gen.attempt2(getattr(circ, name.lower()), *ps, *qubits)
    return gen.attempt2(circ.apply_gate, name, *ps, *qubits, **kw)


def do_query(circ, rng, N, exact):
    import quimb as qu
    r = rng.random()
    if r < 0.2:
        return gen.attempt2(circ.to_dense, reverse=bool(rng.random() < 0.3))
    if r < 0.3:
        return gen.attempt2(lambda: circ.psi)
    if r < 0.38 and exact and N <= 5:
        return gen.attempt2(circ.get_uni, transposed=bool(rng.random() < 0.3))
    if r < 0.52:
        b = "".join(str(int(x)) for x in rng.integers(0, 2, size=N))
        kw = {}
        if exact and rng.random() < 0.3:
            kw["simplify_sequence"] = gen.choice(rng, ["", "R", "ADCRS"])
            kw["optimize"] = "greedy"     # (the default path search can take minutes on an unsimplified network)
        return gen.attempt2(circ.amplitude, b, **kw)
    if r < 0.64:
        k = int(rng.integers(1, min(N, 3) + 1))
        keep = [int(x) for x in rng.choice(N, size=k, replace=False)]
        return gen.attempt2(circ.partial_trace, keep if k > 1 or rng.random() < 0.5 else keep[0])
    if r < 0.8:
        k = 1 if rng.random() < 0.5 or N < 2 else 2
        where = [int(x) for x in rng.choice(N, size=k, replace=False)]
        G = gen.rand_array(rng, (2 ** k, 2 ** k), "complex128")
        kw = {}
        if exact and rng.random() < 0.3:
            kw["simplify_sequence"] = gen.choice(rng, ["", "R", "ADCRS"])
            kw["optimize"] = "greedy"
        if rng.random() < 0.15:
            kw["dtype"] = "complex64"
        w = tuple(where) if k > 1 else (where[0] if rng.random() < 0.5 else (where[0],))
        return gen.attempt2(circ.local_expectation, G, w, **kw)
    if r < 0.88:
        k = int(rng.integers(1, min(N, 3) + 1))
        qs = [int(x) for x in rng.permutation(N)]
        where = sorted(qs[:k])
        fix = {q_: int(rng.integers(0, 2)) for q_ in qs[k:k + int(rng.integers(0, max(1, N - k)))]}
        if rng.random() < 0.5:
            fix = {}
        return gen.attempt2(circ.compute_marginal, where, fix=fix or None)
    if r < 0.96:
        kw = {"seed": int(rng.integers(1 << 30))}
        m = gen.choice(rng, ["sample", "sample", "sample_gate_by_gate"]) if exact else "sample"
        if not hasattr(circ, m):
            m = "sample"
        return gen.attempt2(lambda: list(getattr(circ, m)(3, **kw)))
    if hasattr(circ, "fidelity_estimate"):
        return gen.attempt2(circ.fidelity_estimate)
    return gen.attempt2(circ.to_dense)


def make_circuit(rng, N):
    import quimb.tensor as qtn
    kind = gen.choice(rng, ["Circuit", "Circuit", "CircuitDense", "CircuitMPS", "CircuitMPS",
                            "CircuitPermMPS", "CircuitMPSLazy"])
    kw = {}
    psi0 = None
    if rng.random() < 0.2:
        if kind in ("Circuit", "CircuitDense"):
            psi0 = qtn.MPS_rand_state(N, 2, dtype="complex128", seed=int(rng.integers(1 << 30)))
        elif kind in ("CircuitMPS", "CircuitPermMPS"):
            psi0 = qtn.MPS_rand_state(N, 2, dtype="complex128", seed=int(rng.integers(1 << 30)))
        if psi0 is not None:
            kw["psi0"] = psi0
    if kind == "Circuit":
        if rng.random() < 0.5:
            kw["gate_contract"] = gen.choice(rng, ["auto-split-gate", "split-gate", "swap-split-gate",
                                                   False, True])
        if rng.random() < 0.3:
            kw["tag_gate_numbers"] = bool(rng.random() < 0.5)
    elif kind in ("CircuitMPS", "CircuitPermMPS"):
        if rng.random() < 0.5:
            kw["cutoff"] = 0.0
        if kind == "CircuitMPS" and rng.random() < 0.3:
            kw["gate_contract"] = gen.choice(rng, ["auto-mps", "swap+split", "nonlocal"])
        if rng.random() < 0.15:
            kw["convert_eager"] = False
    elif kind == "CircuitMPSLazy":
        if rng.random() < 0.5:
            kw["cutoff"] = 0.0
    c = gen.attempt2(getattr(qtn, kind), N, **kw)
    return kind, c, kw


def wl_program(rng, rec, tier):
    N = int(rng.integers(2, 8))
    kind, circ, kw = make_circuit(rng, N)
    if circ is gen.REJECTED:
        return {"kind": kind, "rejected": True}
    exact = kind in ("Circuit", "CircuitDense")
    ngates = int(rng.integers(1, 31))
    par = bool(rng.random() < 0.3) and exact
    NAMED.clear()
    log = []
    circs = [circ]
    for step in range(ngates):
        c = gen.choice(rng, circs)
        r = rng.random()
        if par and r > 0.6:
            # parametrized programs: more re-binding steps
            r = 0.6 + (r - 0.6) * 0.25 if r < 0.8 else (0.69 if r < 0.86 else 0.96)
        if r < 0.68:
            g = rand_gate(rng, N)
            log.append(("gate", g[1] if g[0] == "named" else "RAW", g[3], g[4]))
            do_gate(c, g, rng, parametrize=par)
        elif r < 0.9:
            log.append(("query",))
            do_query(c, rng, N, exact)
        elif r < 0.95 and len(circs) < 3:
            c2 = gen.attempt2(c.copy)
            if c2 is not gen.REJECTED and c2 is not None:
                circs.append(c2)
                log.append(("copy",))
        elif par and rng.random() < 0.5:
            ps = gen.attempt2(c.get_params)
            if ps is not gen.REJECTED and ps:
                new = {k_: np.asarray(v) + float(rng.normal()) * 0.3 for k_, v in ps.items()
                       if not isinstance(k_, str)}
                if new:
                    gen.attempt2(c.set_params, new)
                    log.append(("set_params",))
        elif par:
            # named (symbolic) parameters: register once, then re-bind by name only
            names = NAMED.get(id(c))
            if names is None:
                idx = [i_ for i_, g_ in enumerate(c.gates) if g_.parametrize and not isinstance(g_.params, str)
                       and len(np.asarray(g_.params).reshape(-1)) == 1][:3]
                if idx:
                    vals = {"a": float(rng.normal()), "b": float(rng.normal())}
                    exprs = {}
                    for n_, i_ in enumerate(idx):
                        exprs[i_] = (gen.choice(rng, ["a", "b", "a + b", "2 * a"]),)
                    r_ = gen.attempt2(c.register_named_params, vals, gate_expressions=exprs)
                    if r_ is not gen.REJECTED:
                        NAMED.clear()
                        NAMED[id(c)] = ["a", "b"]
                        log.append(("register_named",))
                        do_query(c, rng, N, exact)
            else:
                # the same question before and after re-binding by name only
                do_query(c, rng, N, exact)
                gen.attempt2(c.to_dense)
                gen.attempt2(c.set_params, {gen.choice(rng, names): float(rng.normal())})
                log.append(("set_named",))
                gen.attempt2(c.to_dense)
                do_query(c, rng, N, exact)
    # final queries on every live circuit (cache clause: repeated queries)
    for c in circs:
        for _ in range(3):
            do_query(c, rng, N, exact)
    return {"kind": kind, "N": N, "kw": {k_: (v if not hasattr(v, "tensor_map") else "psi0") for k_, v in kw.items()},
            "log": log[:40]}


WORKLOADS = [
    ("program", 1, wl_program),
]
