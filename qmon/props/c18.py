"""C18 - exact time evolution follows the Schroedinger / von Neumann equation.

A shadow dense model is attached to every quimb.Evolution object at
construction (wrapper on __init__); after every update_to / yielded at_times
state, and inside every compute callback, the reported state is compared with
U(t,t0) p0 (U p0 U^dagger for density operators, time ordered for H(t))."""

import functools
import weakref

import numpy as np
import scipy.linalg as sla
import scipy.sparse as sp
from scipy.sparse.linalg import LinearOperator, aslinearoperator

from .. import gen
from ..core import close
from ..ref import linalg as rl

PROP = "C18"
NCASES = {"quick": 2500, "thorough": 60000}
BUDGET = {"quick": 60, "thorough": 900}
RULE = ("method in solve/integrate/expm x ket/dop x H dense/sparse/pre-diagonalised/"
        "callable/LinearOperator x t0 x time sequences (uniform, non-uniform, "
        "repeated, non-monotonic where allowed) x int_small_step; non-trivial = "
        "d>=2 and at least one update to t != t0; distinct = (method, state kind, "
        "H representation, d, number of times, t0!=0) signatures")
ASSUMPTIONS = [
    "reference propagator scipy.linalg.expm(-iH(t-t0)); for H(t) a product of "
    "600 midpoint exponentials per unit time (error O(dt^2))",
    "tolerances: solve/expm 1e-9, integrate 2e-5 (scipy dop853/dopri5 default "
    "rtol 1e-6), time-dependent 2e-4",
]
DECIDING = [("Evolution", "state"), ("Evolution", "time"), ("Evolution", "conserved")]
MANIFEST = dict(
    technique="shadow-model runtime monitor attached to every quimb.Evolution (wrappers on __init__/update_to/at_times and on the compute callbacks) vs dense expm propagation; conservation-law assertions along each history of requested times",
    text="For every Evolution object the workloads create, the state reported after each update_to / at_times step and seen by each compute callback is compared with exp(-iH(t-t0)) applied to p0 (two-sided for density operators, time-ordered product for callable H), evo.t must equal the requested time, and norm/trace, purity and energy must stay at their initial values; combinations the constructor accepts must therefore evolve correctly or raise.",
    note="Trusted: scipy.linalg.expm. Lindblad right-hand sides are compared with a vectorised reference on tiny systems. slepc expm backends absent.",
    ref="3/C18")

SHADOW = weakref.WeakKeyDictionary()


class Shadow:
    def __init__(self, p0, ham, t0, method, timedep):
        self.p0 = np.array(rl.dense(p0), dtype=complex)
        d = self.p0.shape[0]
        if self.p0.ndim == 1 or self.p0.shape[1] != d or d == 1:
            self.p0 = self.p0.reshape(d, -1)
        self.isdop = self.p0.shape[1] == d and d > 1
        self.t0 = float(t0)
        self.method = method
        self.timedep = timedep
        self.ham = ham
        self.H = None
        if not timedep:
            if isinstance(ham, (tuple, list)):
                ev, vec = ham
                vec = rl.dense(vec)
                self.H = (vec * np.asarray(ev)) @ vec.conj().T
            elif isinstance(ham, LinearOperator):
                n = ham.shape[0]
                self.H = np.stack([np.asarray(ham.matvec(np.eye(n, dtype=complex)[:, j])
                                              ).reshape(-1) for j in range(n)], axis=1)
            elif callable(ham) and not sp.issparse(ham) and not hasattr(ham, "shape"):
                self.H = rl.dense(ham())
            else:
                import quimb as qu
                self.H = rl.dense(ham() if isinstance(ham, qu.Lazy) else ham)
        self.cache = {}

    def U(self, t):
        key = round(float(t), 12)
        if key in self.cache:
            return self.cache[key]
        if not self.timedep:
            U = sla.expm(-1j * self.H * (t - self.t0))
        else:
            span = t - self.t0
            n = max(50, int(abs(span) * 600))
            dt = span / n
            d = self.p0.shape[0]
            U = np.eye(d, dtype=complex)
            for i in range(n):
                tm = self.t0 + (i + 0.5) * dt
                U = sla.expm(-1j * rl.dense(self.ham(tm)) * dt) @ U
        if len(self.cache) < 64:
            self.cache[key] = U
        return U

    def state(self, t):
        U = self.U(t)
        if self.isdop:
            return U @ self.p0 @ U.conj().T
        return U @ self.p0

    def tol(self):
        if self.timedep:
            return 2e-4
        return {"solve": 1e-9, "expm": 1e-8}.get(self.method, 2e-5)


def install(rec):
    import quimb as qu
    from quimb import evo as qevo
    E = qevo.Evolution

    def judge_state(evo, t, pt, where):
        sh = SHADOW.get(evo)
        if sh is None:
            return
        want = sh.state(t)
        got = np.asarray(rl.dense(pt), dtype=complex).reshape(want.shape)
        sc = float(np.abs(want).max()) + 1e-300
        err = float(np.abs(got - want).max())
        ok = err <= sh.tol() * max(1.0, abs(t - sh.t0)) * max(sc, 1.0)
        mech = f"Evolution:state:{sh.method}:{'dop' if sh.isdop else 'ket'}"
        if not ok and sh.isdop:
            # diagnosis: one-sided propagator?
            one = sh.U(t) @ sh.p0
            if float(np.abs(got - one).max()) <= 1e-6:
                mech += ":one_sided_propagator"
        rec.check("Evolution", "state", ok, mech=mech,
                  detail={"where": where, "t": t, "t0": sh.t0, "err": err,
                          "method": sh.method, "isdop": sh.isdop,
                          "timedep": sh.timedep, "d": want.shape[0]},
                  sig=(sh.method, sh.isdop, sh.timedep, want.shape[0], where,
                       sh.t0 != 0.0, sh.hrep))
        # conservation laws (independent of the shadow propagator)
        if sh.isdop:
            tr0 = np.trace(sh.p0)
            pur0 = np.trace(sh.p0 @ sh.p0).real
            c_ok = abs(np.trace(got) - tr0) <= 10 * sh.tol() and \
                abs(np.trace(got @ got).real - pur0) <= 10 * sh.tol()
            en = (np.trace(sh.H @ got).real, np.trace(sh.H @ sh.p0).real) \
                if sh.H is not None else None
        else:
            n0 = np.linalg.norm(sh.p0)
            c_ok = abs(np.linalg.norm(got) - n0) <= 10 * sh.tol() * max(n0, 1.0)
            en = ((got.conj().T @ sh.H @ got).real.item(),
                  (sh.p0.conj().T @ sh.H @ sh.p0).real.item()) if sh.H is not None else None
        if en is not None:
            hs = float(np.abs(sh.H).max()) + 1.0
            c_ok = c_ok and abs(en[0] - en[1]) <= 100 * sh.tol() * hs
        rec.check("Evolution", "conserved", bool(c_ok),
                  mech=f"Evolution:conserved:{sh.method}",
                  detail={"where": where, "t": t, "method": sh.method,
                          "isdop": sh.isdop},
                  sig=(sh.method, sh.isdop, sh.timedep, "cons"))

    orig_init = E.__init__

    @functools.wraps(orig_init)
    def init(self, p0, ham, t0=0, compute=None, int_stop=None, method="integrate",
             **kw):
        if not rec.enabled:
            return orig_init(self, p0, ham, t0=t0, compute=compute,
                             int_stop=int_stop, method=method, **kw)
        evo_ref = weakref.ref(self)

        def wrap_cb(fn):
            def cb2(t, pt):
                e = evo_ref()
                if e is not None:
                    try:
                        judge_state(e, float(t), pt, "callback")
                        rec.count("Evolution", "callback", "seen")
                    except Exception as ex:  # noqa
                        rec.monitor_error("Evolution.callback", ex)
                return fn(t, pt)

            def cb3(t, pt, H):
                e = evo_ref()
                if e is not None:
                    try:
                        judge_state(e, float(t), pt, "callback")
                        rec.count("Evolution", "callback", "seen")
                    except Exception as ex:  # noqa
                        rec.monitor_error("Evolution.callback", ex)
                return fn(t, pt, H)
            import inspect
            try:
                npar = len(inspect.signature(fn).parameters)
            except (TypeError, ValueError):
                npar = 2
            return cb3 if npar >= 3 else cb2

        c2 = compute
        if callable(compute):
            c2 = wrap_cb(compute)
        elif isinstance(compute, dict):
            c2 = {k: wrap_cb(v) for k, v in compute.items()}
        try:
            timedep = callable(ham) and not isinstance(ham, (LinearOperator, qu.Lazy))
            sh = Shadow(p0, ham, t0, "solve" if isinstance(ham, (tuple, list)) else method,
                        timedep)
            sh.hrep = ("tuple" if isinstance(ham, (tuple, list)) else
                       "linop" if isinstance(ham, LinearOperator) else
                       "callable" if timedep else
                       getattr(ham, "format", "dense"))
            sh.int_stop = int_stop is not None
        except Exception as ex:  # noqa
            rec.monitor_error("Evolution.__init__", ex)
            sh = None
        try:
            orig_init(self, p0, ham, t0=t0, compute=c2, int_stop=int_stop,
                      method=method, **kw)
        except BaseException:
            rec.count("Evolution", "__init__", "rejected")
            raise
        if sh is not None:
            SHADOW[self] = sh
            rec.count("Evolution", "__init__", "shadowed")

    E.__init__ = init

    orig_update = E.update_to

    @functools.wraps(orig_update)
    def update_to(self, t):
        try:
            r = orig_update(self, t)
        except BaseException:
            rec.count("Evolution", "update_to", "rejected")
            raise
        if rec.enabled:
            try:
                sh = SHADOW.get(self)
                if sh is not None:
                    if not sh.int_stop:
                        rec.check("Evolution", "time",
                                  abs(float(self.t) - float(t)) <= 1e-12 * max(1, abs(t)),
                                  mech=f"Evolution:time:{sh.method}",
                                  detail={"asked": t, "got": float(self.t)},
                                  sig=(sh.method, "time"))
                    judge_state(self, float(self.t), self.pt, "update_to")
            except Exception as ex:  # noqa
                rec.monitor_error("Evolution.update_to", ex)
        return r

    E.update_to = update_to

    orig_at = E.at_times

    @functools.wraps(orig_at)
    def at_times(self, ts):
        ts = list(ts)
        for t, pt in zip(ts, orig_at(self, ts)):
            if rec.enabled:
                try:
                    sh = SHADOW.get(self)
                    if sh is not None:
                        if not sh.int_stop:
                            rec.check("Evolution", "time",
                                      abs(float(self.t) - float(t)) <= 1e-12 * max(1, abs(t)),
                                      mech=f"Evolution:time:{sh.method}:at_times",
                                      detail={"asked": t, "got": float(self.t)},
                                      sig=(sh.method, "time_at"))
                        judge_state(self, float(t), pt, "at_times")
                except Exception as ex:  # noqa
                    rec.monitor_error("Evolution.at_times", ex)
            yield pt

    E.at_times = at_times


# ---------------------------------------------------------------------------
# workloads
# ---------------------------------------------------------------------------

def _rand_H(rng, d):
    a = gen.rand_array(rng, (d, d), "complex128" if rng.random() < 0.6 else "float64")
    return (a + a.conj().T) / 2


def _times(rng, t0, monotonic):
    n = int(rng.integers(1, 6))
    kind = gen.choice(rng, ["uniform", "nonuniform", "repeated", "nonmono"])
    if kind == "uniform":
        dt = float(rng.uniform(0.05, 0.5))
        ts = [t0 + dt * (i + 1) for i in range(n)]
    elif kind == "nonuniform":
        ts = list(t0 + np.cumsum(rng.uniform(0.01, 0.6, size=n)))
    elif kind == "repeated":
        ts = list(t0 + np.cumsum(rng.uniform(0.01, 0.6, size=n)))
        ts = [float(x) for x in ts for _ in range(2)]
    else:
        ts = list(t0 + rng.uniform(-1.0, 1.5, size=n))
        if monotonic:
            ts = sorted(abs(t - t0) + t0 for t in ts)
    return [float(t) for t in ts], kind


def wl_evolution(rng, rec, tier):
    import quimb as qu
    d = int(gen.choice(rng, [2, 3, 4, 6, 8]))
    H = _rand_H(rng, d)
    method = gen.choice(rng, ["solve", "integrate", "expm"])
    state = gen.choice(rng, ["ket", "dop", "dop_mixed"])
    hrep = gen.choice(rng, ["dense", "sparse", "tuple", "callable", "linop", "qarray"])
    t0 = float(gen.choice(rng, [0.0, 0.0, 0.7, -0.3]))
    psi = gen.rand_array(rng, (d, 1), "complex128")
    psi /= np.linalg.norm(psi)
    if state == "ket":
        p0 = qu.qu(psi)
    elif state == "dop":
        p0 = qu.qu(psi @ psi.conj().T)
    else:
        v = gen.rand_array(rng, (d, 3), "complex128")
        r = v @ v.conj().T
        p0 = qu.qu(r / np.trace(r))
    w = float(rng.uniform(0.5, 3.0))
    H1 = _rand_H(rng, d)
    if hrep == "dense":
        ham = H
    elif hrep == "qarray":
        ham = qu.qarray(H)
    elif hrep == "sparse":
        ham = sp.csr_matrix(H)
    elif hrep == "tuple":
        ham = tuple(np.linalg.eigh(H))
    elif hrep == "linop":
        ham = aslinearoperator(H)
    else:
        sparse_t = rng.random() < 0.3

        def ham(t, H=H, H1=H1, w=w, sparse_t=sparse_t):
            M = H + np.cos(w * t) * H1
            return sp.csr_matrix(M) if sparse_t else M
    kw = {}
    if method == "integrate" and rng.random() < 0.4:
        kw["int_small_step"] = True
    results_kind = gen.choice(rng, [None, "single", "dict", "three"])
    if results_kind == "single":
        kw["compute"] = lambda t, p: float(t)
    elif results_kind == "dict":
        kw["compute"] = {"t": lambda t, p: float(t),
                         "n": lambda t, p: float(np.linalg.norm(p))}
    elif results_kind == "three":
        kw["compute"] = lambda t, p, h: float(t)
    evo = gen.attempt(qu.Evolution, p0, ham, t0=t0, method=method, **kw)
    desc = {"d": d, "method": method, "state": state, "hrep": hrep, "t0": t0,
            "compute": results_kind}
    if evo is None:
        desc["rejected"] = True
        return desc
    eff_method = "solve" if hrep == "tuple" else method
    ts, kind = _times(rng, t0, monotonic=(eff_method == "integrate"))
    desc["times"] = ts
    desc["kind"] = kind
    if rng.random() < 0.5:
        for t in ts:
            if gen.attempt(evo.update_to, t) is None and False:
                break
    else:
        def run():
            for _ in evo.at_times(ts):
                pass
        gen.attempt(run)
    return desc


def wl_lindblad(rng, rec, tier):
    """right-hand sides vs a vectorised reference (tiny systems)"""
    import quimb as qu
    from quimb import evo as qevo
    d = int(gen.choice(rng, [2, 3, 4]))
    H = _rand_H(rng, d)
    nl = int(rng.integers(1, 3))
    ls = [gen.rand_array(rng, (d, d), "complex128") for _ in range(nl)]
    gamma = float(rng.uniform(0.1, 1.0))
    v = gen.rand_array(rng, (d, 3), "complex128")
    rho = v @ v.conj().T
    rho /= np.trace(rho)
    want = -1j * (H @ rho - rho @ H)
    for L in ls:
        LL = L.conj().T @ L
        want = want + gamma * (L @ rho @ L.conj().T - 0.5 * (LL @ rho + rho @ LL))
    sc = float(np.abs(want).max())
    for name, f in (("lindblad_eq", lambda: qevo.lindblad_eq(qu.qarray(H), [qu.qarray(l) for l in ls], gamma)),
                    ("lindblad_eq_vectorized", lambda: qevo.lindblad_eq_vectorized(
                        qu.qarray(H), [qu.qarray(l) for l in ls], gamma)),
                    ("lindblad_eq_vectorized_sparse", lambda: qevo.lindblad_eq_vectorized(
                        sp.csr_matrix(H), [sp.csr_matrix(l) for l in ls], gamma, sparse=True))):
        try:
            rd = f()(0.0, rho.reshape(-1).copy())
        except Exception:
            rec.count("lindblad", name, "rejected")
            continue
        got = np.asarray(rl.dense(rd)).reshape(d, d)
        ok, err, _ = close(got, want, sc, 2.3e-16, 1e4)
        rec.check("lindblad", "rhs", ok, mech=f"lindblad:rhs:{name}",
                  detail={"d": d, "nl": nl, "err": err}, sig=(name, d, nl))
    # the closed-system right hand sides
    wantc = -1j * (H @ rho - rho @ H)
    for name, f in (("dop", lambda: qevo.schrodinger_eq_dop(qu.qarray(H))),
                    ("dop_vectorized", lambda: qevo.schrodinger_eq_dop_vectorized(qu.qarray(H))),
                    ("dop_vectorized_sparse", lambda: qevo.schrodinger_eq_dop_vectorized(
                        sp.csr_matrix(H)))):
        try:
            rd = f()(0.0, rho.reshape(-1).copy())
        except Exception:
            rec.count("lindblad", name, "rejected")
            continue
        got = np.asarray(rl.dense(rd)).reshape(d, d)
        ok, err, _ = close(got, wantc, float(np.abs(wantc).max()), 2.3e-16, 1e4)
        rec.check("lindblad", "rhs_closed", ok, mech=f"lindblad:rhs_closed:{name}",
                  detail={"d": d, "err": err}, sig=(name, d))
    return {"d": d, "nl": nl, "gamma": gamma}


WORKLOADS = [("evolution", 9, wl_evolution), ("lindblad", 1, wl_lindblad)]
