"""C12 - approximate contraction is exact when untruncated and obeys its bond
cap; environments are consistent with the whole.

Entry-level monitors on the 2D/3D boundary / HOTRG / CTMRG schemes, the
environment builders and the generic compressed contraction: the value of the
network at entry (independent reference) must be returned when the call is
untruncating; every boundary the scheme hands back obeys the cap; every stored
environment combined with the part it excludes denotes the whole."""

import numpy as np

from .. import attach, gen
from ..core import close, eps_of, exponent_of, ops_of, to_numpy
from ..ref import value as refv

PROP = "C12"
NCASES = {"quick": 8000, "thorough": 150000}
BUDGET = {"quick": 85, "thorough": 1500}
RULE = ("2D lattices 1x2..4x4 and 3D up to 2x2x3, bond 1-3, flat and bra/ket layered (PEPS "
        "norms), four dtypes, stored exponent; every from_which / sequence / mode / canonize / "
        "layer_tags / equalize_norms combination; caps {1, 2, exact, None}; cutoffs {0, 1e-10}; "
        "random graphs with optimizer and random trees for contract_compressed / "
        "contract_around; row, column and plaquette environments; distinct = (entry, geometry, "
        "mode, options signature, cap class)")
ASSUMPTIONS = [
    "untruncating = cutoff 0 and (no cap or cap >= D**(longest lattice side * layers)), D the "
    "largest bond: a sufficient condition, decided by the monitor from the geometry",
    "tolerances: 1e-8 relative (1e-3 single precision) for SVD based modes, 1e-4 for the "
    "squared-operator modes (projector / full-bond / eigh based), calibrated on the clean tree",
    "with the default cutoff 1e-10 an untruncating cap is judged at 1e-4 relative",
]
DECIDING = [("scheme", "exact"), ("scheme", "cap"), ("environment", "consistent")]
SUITE = ["tests/test_tensor/test_tn2d/test_core.py", "tests/test_tensor/test_tn3d", "tests/test_tensor/test_tnag/test_compress.py"]
MANIFEST = dict(
    technique="runtime postcondition monitors on every compressed-contraction scheme and environment builder: value at entry from an independent dense reference vs the returned scalar/network when the call is untruncating, bond sizes of every returned boundary vs the cap, (environment | complement) vs the whole",
    text="Random small 2D/3D lattices (flat and bra/ket layered) and random graphs are pushed through boundary contraction from every side/sequence/mode, HOTRG, CTMRG, coarse graining, compressed contraction along optimizer and random trees, contract_around, and the row/column/plaquette environment builders; untruncated runs must return the exact value, truncated ones must respect the cap on every boundary handed back, and every environment must be consistent with the whole.",
    note="Lattices are limited to what can be contracted exactly by the reference (<= 16 sites, bond <= 3).",
    ref="3/C12")

MAXREF = 1 << 22


def value_of(tn, output=None):
    ops = ops_of(tn)
    if len(ops) > 70:
        return None
    ex = exponent_of(tn)
    if abs(ex) > 250:
        return None
    if output is None:
        output = tuple(sorted(map(str, tn.outer_inds())))
    try:
        v, s = refv.value_and_scale(ops, ex, output, MAXREF)
    except (refv.TooBig, ValueError, MemoryError):
        return None
    return v, s, eps_of(*[a.dtype for a, _ in ops]), tuple(output)


def maxD(tn):
    return max([tn.ind_size(ix) for ix in tn.inner_inds()], default=1)


def nlayers(tn, layer_tags):
    return len(layer_tags) if layer_tags else 1


def untruncating(tn, max_bond, cutoff, side, layers=1, compress_opts=None):
    co = compress_opts or {}
    if co.get("max_bond") is not None or co.get("cutoff") not in (None, 0.0):
        return False
    if cutoff not in (0.0, 0, None) and cutoff > 1e-10:
        return False
    if max_bond is None or max_bond is False:
        return True
    D = maxD(tn)
    need = float(D) ** (side * max(layers, 1))
    return max_bond >= need


SQUARED = ("projector", "full-bond", "l2bp", "superorthogonal", "local-early", "local-late")


def tol_for(mode, cutoff, eps, method=None):
    t = 1e-8
    if mode in SQUARED or (method or "") in ("eigh", "svd:eig", "isvd"):
        t = 1e-4
    if cutoff not in (0.0, 0, None):
        t = max(t, 1e-4)
    if eps > 1e-10:
        t = max(t, 2e-3)
    return t


def compare(rec, entry, clause, pre, result, tol, detail, sig, mechsuffix="value", strict=False):
    """result: scalar, Tensor or network (value over the same outer labels);
    strict: nothing at all may have been truncated (no cap, cutoff exactly 0): only
    rounding relative to the absolute network plus ``tol`` relative to the value"""
    V, S, eps, out = pre
    if hasattr(result, "tensor_map") or (hasattr(result, "inds") and hasattr(result, "data")):
        if set(map(str, result.outer_inds() if hasattr(result, "tensor_map") else result.inds)) != set(out):
            rec.check(entry, clause, False, mech=f"{entry}:outer_labels_changed",
                      detail=dict(detail, before=list(out)[:8]), sig=sig)
            return
        r = value_of(result, out)
        if r is None:
            rec.count(entry, clause, "unreferenced")
            return
        got, s2 = r[0], r[1]
    else:
        if isinstance(result, tuple) and len(result) == 2:
            # (mantissa, exponent)
            m, e = result
            got = np.asarray(complex(np.asarray(to_numpy(m))) * 10.0 ** float(np.real(e)))
        else:
            try:
                got = np.asarray(to_numpy(result))
            except Exception:
                return
        s2 = 0.0
        if got.shape != V.shape:
            if got.size == V.size:
                got = got.reshape(V.shape)
            else:
                rec.check(entry, clause, False, mech=f"{entry}:result_shape", detail=dict(detail, got=got.shape), sig=sig)
                return
    vmax = float(np.abs(V).max()) if V.size else 0.0
    if vmax <= 1e-9 * S:
        rec.count(entry, clause, "out_of_domain")     # value is numerically zero: relative accuracy undefined
        return
    ok, err, bound = close(got, V, max(S, s2), eps, 1e5, rel=tol)
    # compressions are relative to the value of the *absolute* network only loosely: allow tol*S
    if ok is False and not strict and err <= tol * max(S, s2):
        ok = True
    rec.check(entry, clause, ok, mech=f"{entry}:{mechsuffix}", detail=dict(detail, err=err, bound=bound, vmax=vmax),
              sig=sig)


def install(rec):
    import quimb.tensor.tn2d.core as c2
    import quimb.tensor.tn3d.core as c3
    from quimb.tensor import tensor_core as tc

    # ---------------------------------------------------------------- 2D / 3D schemes
    def mk_scheme(cls, name, ndim):
        entry = f"{cls.__name__}.{name}"

        def pre(self, *a, **k):
            if rec.depth("scheme") > 0 or rec.depth("env") > 0:
                return None
            p = value_of(self)
            if p is None:
                return None
            sides = [getattr(self, "L" + c) for c in "xyz"[:ndim]]
            return {"p": p, "sides": sides, "D": maxD(self), "nt": self.num_tensors}

        def post(s, out, self, *a, **k):
            max_bond = k.get("max_bond", a[0] if (a and name in ("contract_boundary", "contract_hotrg", "contract_ctmrg")
                                                  and isinstance(a[0], (int, type(None)))) else None)
            if name.startswith("contract_boundary_from_") and len(a) >= 3:
                max_bond = a[2]
            cutoff = k.get("cutoff", 1e-10)
            mode = k.get("mode", "mps")
            layers = nlayers(self, k.get("layer_tags"))
            side = max(s["sides"])
            co = k.get("compress_opts")
            method = (co or {}).get("method")
            detail = {"max_bond": max_bond, "cutoff": cutoff, "mode": str(mode), "sides": s["sides"], "D": s["D"],
                      "layers": layers, "kw": sorted(kk for kk in k if kk not in ("max_bond", "cutoff"))[:10],
                      "equalize_norms": repr(k.get("equalize_norms", "default"))[:12],
                      "strip_exponent": bool(k.get("strip_exponent", False))}
            sig = (entry, tuple(s["sides"]), str(mode), layers, max_bond is None, cutoff == 0.0,
                   tuple(sorted(kk for kk in k if kk not in ("max_bond", "cutoff")))[:8])
            res = out if out is not None else self
            # cap: every bond inside a boundary that the scheme hands back
            if max_bond is not None and hasattr(res, "tensor_map") and res.num_tensors < s["nt"]:
                D0 = s["D"]
                worst = 0
                for ix in res.inner_inds():
                    tids = list(res.ind_map[ix])
                    if len(tids) != 2:
                        continue
                    sz = res.ind_size(ix)
                    # bonds that existed at entry keep their original size <= D0;
                    # anything larger was created by the scheme
                    if sz > D0:
                        worst = max(worst, sz)
                cap_eff = max(max_bond, 1)
                rec.check("scheme", "cap", worst <= cap_eff, mech=f"{entry}:bond_above_cap",
                          detail=dict(detail, worst=worst), sig=sig)
            # exactness
            if str(mode) not in ("mps", "full-bond", "projector", "direct", "dm", "peps") and cutoff not in (0.0, 0, None):
                # pseudo-canonical / randomised 1D compressors apply the cutoff in a
                # non-orthonormal gauge: only judged when no cutoff is applied at all
                rec.count("scheme", "exact", "truncating")
                return
            if str(mode) not in ("mps", "full-bond", "projector", "direct", "dm", "peps") and max_bond is not None \
                    and max_bond < float(s["D"]) ** (2 * side * layers):
                # ... and their partial (pseudo-canonical) factors can have a larger
                # rank than the boundary itself: a cap at the exact boundary rank may
                # still truncate
                rec.count("scheme", "exact", "truncating")
                return
            if str(mode) in SQUARED and cutoff not in (0.0, 0, None):
                # the statement's premise is "no cutoff is applied": the modes that
                # compress through squared (projector / environment) operators apply
                # even the default 1e-10 to a squared, possibly ill conditioned
                # spectrum, which can cost ~1e-3 on a cancelling network (seen once in
                # five seeds) - only an exact zero cutoff is judged for them
                rec.count("scheme", "exact", "truncating")
                return
            if untruncating(self if res is not self else res, max_bond, cutoff, side, layers, co) or \
                    (max_bond is not None and max_bond >= float(s["D"]) ** (side * layers) and cutoff in (0.0, 1e-10)):
                if not untruncating(res if hasattr(res, "tensor_map") else self, None, cutoff, side, layers, co) \
                        and cutoff not in (0.0, 1e-10):
                    return
                tol = tol_for(mode, cutoff, s["p"][2], method)
                if name in ("contract_hotrg", "coarse_grain_hotrg", "contract_ctmrg"):
                    tol = max(tol, 1e-4)
                compare(rec, "scheme", "exact", s["p"], res, tol, detail, sig, mechsuffix=f"{entry}:untruncated_value")
            else:
                rec.count("scheme", "exact", "truncating")
        return attach.monitored(rec, entry, pre, post, fam="scheme")

    names2 = ["contract_boundary", "contract_boundary_from_xmin", "contract_boundary_from_xmax",
              "contract_boundary_from_ymin", "contract_boundary_from_ymax", "contract_boundary_from",
              "contract_hotrg", "contract_ctmrg", "coarse_grain_hotrg", "contract_mps_sweep"]
    for nm in names2:
        if nm in vars(c2.TensorNetwork2D):
            attach.install(c2.TensorNetwork2D, nm, mk_scheme(c2.TensorNetwork2D, nm, 2))
    names3 = ["contract_boundary", "contract_boundary_from_xmin", "contract_boundary_from_xmax",
              "contract_boundary_from_ymin", "contract_boundary_from_ymax", "contract_boundary_from_zmin",
              "contract_boundary_from_zmax", "contract_hotrg", "contract_ctmrg", "coarse_grain_hotrg"]
    for nm in names3:
        if nm in vars(c3.TensorNetwork3D):
            attach.install(c3.TensorNetwork3D, nm, mk_scheme(c3.TensorNetwork3D, nm, 3))

    # ---------------------------------------------------------------- environments (2D)
    def mk_env(name, kind):
        entry = f"TensorNetwork2D.{name}"

        def pre(self, *a, **k):
            if rec.depth("env") > 0:
                return None
            p = value_of(self)
            if p is None:
                return None
            return {"p": p, "tn": self.copy(), "D": maxD(self)}

        def post(s, out, self, *a, **k):
            tn = s["tn"]
            max_bond = k.get("max_bond", a[0] if (a and kind != "plaq") else (a[2] if len(a) > 2 else None))
            cutoff = k.get("cutoff", 1e-10)
            mode = k.get("mode", "mps")
            layers = nlayers(tn, k.get("layer_tags"))
            side = max(tn.Lx, tn.Ly)
            exact = untruncating(tn, max_bond, cutoff, side, layers, k.get("compress_opts")) or \
                (max_bond is not None and max_bond >= float(s["D"]) ** (side * layers) and cutoff in (0.0, 1e-10))
            if k.get("dense"):
                exact = True
            tol = max(tol_for(mode, cutoff, s["p"][2]), 1e-7)
            detail = {"max_bond": max_bond, "cutoff": cutoff, "mode": str(mode), "Lx": tn.Lx, "Ly": tn.Ly,
                      "layers": layers}
            sig = (entry, tn.Lx, tn.Ly, str(mode), layers, max_bond is None)
            n = 0
            for key, env in list(out.items()):
                if n >= 8:
                    break
                try:
                    if kind == "x":
                        side_, i = key
                        other = ("xmax" if side_ == "xmin" else "xmin", i)
                        if side_ != "xmin" or other not in out:
                            continue
                        whole = out["xmin", i] | tn.select(tn.x_tag(i)) | out["xmax", i]
                    elif kind == "y":
                        side_, j = key
                        other = ("ymax" if side_ == "ymin" else "ymin", j)
                        if side_ != "ymin" or other not in out:
                            continue
                        whole = out["ymin", j] | tn.select(tn.y_tag(j)) | out["ymax", j]
                    elif kind == "xy":
                        continue
                    else:
                        (i0, j0), (bx, by) = key
                        tags = [tn.site_tag(i, j) for i in range(i0, i0 + bx) for j in range(j0, j0 + by)]
                        whole = env | tn.select(tags, which="any")
                except Exception as e:  # noqa
                    rec.check("environment", "consistent", False, mech=f"{entry}:cannot_combine",
                              detail=dict(detail, key=repr(key), error=repr(e)[:100]), sig=sig)
                    continue
                n += 1
                # cap on the environment's own bonds
                if max_bond is not None and not k.get("dense"):
                    worst = max([env.ind_size(ix) for ix in env.inner_inds() if env.ind_size(ix) > s["D"]], default=0)
                    rec.check("scheme", "cap", worst <= max(max_bond, 1), mech=f"{entry}:bond_above_cap",
                              detail=dict(detail, worst=worst, key=repr(key)), sig=sig)
                if exact:
                    suffix = f"{entry}:env_plus_complement_differs"
                    if kind == "plaq" and k.get("equalize_norms"):
                        # its own mechanism (known finding): exponents of the row /
                        # column environments lost when the plaquette one is cut out
                        suffix += ":with_equalize_norms"
                    compare(rec, "environment", "consistent", s["p"], whole, tol, dict(detail, key=repr(key)), sig,
                            mechsuffix=suffix)
                else:
                    rec.count("environment", "consistent", "truncating")
        return attach.monitored(rec, entry, pre, post, fam="env")

    for nm, kind in (("compute_x_environments", "x"), ("compute_y_environments", "y"),
                     ("compute_plaquette_environments", "plaq")):
        attach.install(c2.TensorNetwork2D, nm, mk_env(nm, kind))

    # ---------------------------------------------------------------- generic compressed contraction
    def mk_generic(name):
        entry = f"TensorNetwork.{name}"

        def pre(self, *a, **k):
            if rec.depth("scheme") > 0 or rec.depth("env") > 0 or rec.depth("gen") > 0:
                return None
            out = k.get("output_inds")
            p = value_of(self, tuple(out) if out is not None else None)
            if p is None:
                return None
            tot = 1.0
            for ix in self.inner_inds():
                tot *= self.ind_size(ix)
            return {"p": p, "D": maxD(self), "tot": tot, "nt": self.num_tensors}

        def post(s, out, self, *a, **k):
            max_bond = k.get("max_bond", "auto" if name == "contract_compressed" else None)
            cutoff = k.get("cutoff", 1e-10)
            mode = k.get("mode", k.get("compress_mode", "auto"))
            detail = {"max_bond": max_bond if not isinstance(max_bond, str) else max_bond, "cutoff": cutoff,
                      "mode": str(mode), "nt": s["nt"], "D": s["D"]}
            sig = (entry, s["nt"], str(mode), isinstance(max_bond, int), cutoff == 0.0,
                   tuple(sorted(kk for kk in k if kk not in ("max_bond", "cutoff", "optimize", "seed")))[:8])
            res = out if out is not None else self
            if isinstance(max_bond, int) and hasattr(res, "tensor_map") and res.num_tensors > 1:
                worst = max([res.ind_size(ix) for ix in res.inner_inds()
                             if len(res.ind_map[ix]) == 2 and res.ind_size(ix) > s["D"]], default=0)
                rec.check("scheme", "cap", worst <= max_bond, mech=f"{entry}:bond_above_cap",
                          detail=dict(detail, worst=worst), sig=sig)
            exact = (max_bond is None or (isinstance(max_bond, int) and max_bond >= s["tot"])) and cutoff in (0.0, 1e-10)
            if exact:
                tol = tol_for(str(mode), cutoff, s["p"][2], k.get("compress_opts", {}).get("method") if isinstance(
                    k.get("compress_opts"), dict) else None)
                tol = max(tol, 1e-6)
                compare(rec, "scheme", "exact", s["p"], res, tol, detail, sig, mechsuffix=f"{entry}:untruncated_value",
                        strict=(max_bond is None and cutoff == 0.0 and s["p"][2] < 1e-10))
            else:
                rec.count("scheme", "exact", "truncating")
        return attach.monitored(rec, entry, pre, post, fam="gen")

    for nm in ("contract_compressed", "contract_around", "contract_around_center", "contract_around_corner"):
        if nm in vars(tc.TensorNetwork):
            attach.install(tc.TensorNetwork, nm, mk_generic(nm))


# ---------------------------------------------------------------------------
# workloads
# ---------------------------------------------------------------------------

def rand_2d(rng):
    import quimb.tensor as qtn
    Lx, Ly = int(rng.integers(1, 5)), int(rng.integers(2, 5))
    if rng.random() < 0.5:
        Lx, Ly = Ly, Lx
    Lx, Ly = max(Lx, 1), max(Ly, 1)
    if Lx * Ly > 12:
        Lx, Ly = 3, 4
    kind = gen.choice(rng, ["flat", "flat", "norm"])
    seed = int(rng.integers(1 << 30))
    dtype = gen.choice(rng, gen.DTYPES, p=[0.45, 0.4, 0.08, 0.07])
    if kind == "flat":
        D = int(rng.integers(1, 4))
        if Lx * Ly > 9:
            D = min(D, 2)
        tn = qtn.TN2D_rand(Lx, Ly, D, seed=seed, dtype=dtype,
                           cyclic=bool(rng.random() < 0.1) if min(Lx, Ly) > 2 and D <= 2 and Lx * Ly <= 9 else False)
        layer_tags = None
    else:
        Lx, Ly = min(Lx, 3), min(Ly, 3)
        D = 2
        ps = qtn.PEPS.rand(Lx, Ly, D, seed=seed, dtype=dtype if "complex" not in dtype else "complex128")
        tn = ps.make_norm()
        layer_tags = ("KET", "BRA")
    if rng.random() < 0.25:
        tn.exponent = float(gen.choice(rng, [-1.0, 0.5, 2.0]))
    return tn, kind, Lx, Ly, D, layer_tags


def caps_for(rng, D, side, layers):
    exact = int(min(float(D) ** (side * layers), 4096))
    return gen.choice(rng, [1, 2, exact, exact, None, None])


def wl_boundary2d(rng, rec, tier):
    tn, kind, Lx, Ly, D, layer_tags = rand_2d(rng)
    layers = 2 if layer_tags else 1
    side = max(Lx, Ly)
    max_bond = caps_for(rng, D, side, layers)
    kw = {"max_bond": max_bond, "cutoff": float(gen.choice(rng, [0.0, 0.0, 1e-10]))}
    mode = gen.choice(rng, ["mps", "mps", "full-bond", "projector", "zipup", "dm"]) if rng.random() < 0.7 else "mps"
    kw["mode"] = mode
    if layer_tags and rng.random() < 0.6 and mode in ("mps", "full-bond"):
        kw["layer_tags"] = layer_tags
    if rng.random() < 0.3:
        kw["canonize"] = bool(rng.random() < 0.5)
    what = gen.choice(rng, ["full", "full", "from", "from_named", "seq"])
    if max_bond is None and mode != "mps":
        kw["max_bond"] = int(min(float(D) ** (side * layers), 4096))
    if what in ("full", "seq"):
        if what == "seq":
            kw["sequence"] = [gen.choice(rng, ["xmin", "xmax", "ymin", "ymax"]) for _ in range(int(rng.integers(1, 4)))]
        if rng.random() < 0.3:
            kw["equalize_norms"] = gen.choice(rng, [True, False, 1.0])
        if rng.random() < 0.2:
            kw["strip_exponent"] = True
        if rng.random() < 0.2:
            kw["final_contract"] = False
        gen.attempt(tn.contract_boundary, **kw)
    else:
        which = gen.choice(rng, ["xmin", "xmax", "ymin", "ymax"])
        n = Lx if which[0] == "x" else Ly
        if n < 2:
            return {"skipped": True}
        a = int(rng.integers(0, n - 1))
        b = int(rng.integers(a + 1, n))
        rng_ = (a, b)
        if what == "from":
            kk = dict(kw)
            kk["xrange" if which[0] == "x" else "yrange"] = rng_
            kk["yrange" if which[0] == "x" else "xrange"] = None
            gen.attempt(tn.contract_boundary_from, from_which=which, **kk)
        else:
            gen.attempt(getattr(tn, "contract_boundary_from_" + which), rng_, **kw)
    return {"kind": kind, "Lx": Lx, "Ly": Ly, "D": D, "what": what, "kw": {k: (v if not isinstance(v, tuple) else list(v)) for k, v in kw.items()}}


def wl_other2d(rng, rec, tier):
    tn, kind, Lx, Ly, D, layer_tags = rand_2d(rng)
    if kind != "flat" or getattr(tn, "is_cyclic_x", lambda: False)():
        return {"skipped": True}
    what = gen.choice(rng, ["hotrg", "ctmrg", "coarse"])
    side = max(Lx, Ly)
    exact = int(min(float(D) ** (2 * side), 4096))
    max_bond = gen.choice(rng, [2, exact, exact, None])
    kw = {"max_bond": max_bond, "cutoff": 0.0}
    if what == "hotrg":
        gen.attempt(tn.contract_hotrg, **kw)
    elif what == "ctmrg":
        gen.attempt(tn.contract_ctmrg, **kw)
    else:
        gen.attempt(tn.coarse_grain_hotrg, gen.choice(rng, ["x", "y"]), **kw)
    return {"what": what, "Lx": Lx, "Ly": Ly, "D": D, "max_bond": max_bond}


def wl_env2d(rng, rec, tier):
    tn, kind, Lx, Ly, D, layer_tags = rand_2d(rng)
    if Lx < 2 or Ly < 2:
        return {"skipped": True}
    # (which of "environment" and "selected rows" should carry a stored exponent
    # of the receiver is not specified: environments are built from exponent 0)
    tn.exponent = 0.0
    layers = 2 if layer_tags else 1
    side = max(Lx, Ly)
    exact = int(min(float(D) ** (side * layers), 4096))
    max_bond = gen.choice(rng, [2, exact, exact, None])
    kw = {"max_bond": max_bond, "cutoff": float(gen.choice(rng, [0.0, 0.0, 1e-10]))}
    if layer_tags and rng.random() < 0.5:
        kw["layer_tags"] = layer_tags
    what = gen.choice(rng, ["x", "y", "plaq", "plaq"])
    if rng.random() < 0.3:
        kw["equalize_norms"] = gen.choice(rng, [True, 1.0])
    if what in ("x", "y") and rng.random() < 0.25:
        kw["dense"] = True
    elif rng.random() < 0.3:
        kw["mode"] = gen.choice(rng, ["mps", "full-bond", "projector2d"])
    if what == "x":
        gen.attempt(tn.compute_x_environments, **kw)
    elif what == "y":
        gen.attempt(tn.compute_y_environments, **kw)
    else:
        bx, by = int(rng.integers(1, min(Lx, 2) + 1)), int(rng.integers(1, min(Ly, 2) + 1))
        if rng.random() < 0.4:
            kw["first_contract"] = gen.choice(rng, ["x", "y"])
        if rng.random() < 0.3:
            kw["second_dense"] = bool(rng.random() < 0.5)
        gen.attempt(tn.compute_plaquette_environments, bx, by, **kw)
    return {"kind": kind, "Lx": Lx, "Ly": Ly, "D": D, "what": what, "max_bond": max_bond}


def wl_3d(rng, rec, tier):
    import quimb.tensor as qtn
    dims = sorted(int(x) for x in rng.integers(1, 3, size=3))
    if rng.random() < 0.3:
        dims[-1] = 3
    rng.shuffle(dims)
    Lx, Ly, Lz = dims
    if Lx * Ly * Lz < 2:
        Lz = 2
    D = 2
    tn = gen.attempt2(qtn.TN3D_rand, Lx, Ly, Lz, D, seed=int(rng.integers(1 << 30)),
                      dtype=gen.choice(rng, ["float64", "complex128"]))
    if tn is gen.REJECTED:
        return {"rejected": True}
    exact = int(min(float(D) ** (max(dims) * max(dims)), 4096))
    max_bond = gen.choice(rng, [2, exact, exact])
    kw = {"max_bond": max_bond, "cutoff": 0.0}
    what = gen.choice(rng, ["boundary", "boundary", "hotrg"])
    if what == "boundary":
        if rng.random() < 0.4:
            kw["sequence"] = [gen.choice(rng, ["xmin", "xmax", "ymin", "ymax", "zmin", "zmax"])
                              for _ in range(int(rng.integers(1, 4)))]
        if rng.random() < 0.3:
            kw["mode"] = gen.choice(rng, ["peps", "projector", "l2bp"])
        gen.attempt(tn.contract_boundary, **kw)
        if rng.random() < 0.4:
            # one explicit step from one side, plain (not in-place) spelling: the
            # partially contracted network is handed back and denotes the same value
            fw = gen.choice(rng, ["xmin", "xmax", "ymin", "ymax", "zmin", "zmax"])
            L_ = {"x": Lx, "y": Ly, "z": Lz}[fw[0]]
            if L_ >= 2:
                rg = {"xrange": (0, Lx - 1), "yrange": (0, Ly - 1), "zrange": (0, Lz - 1)}
                rg[fw[0] + "range"] = (0, 1) if fw.endswith("min") else (L_ - 2, L_ - 1)
                p0 = value_of(tn)
                res = gen.attempt2(tn.contract_boundary_from, from_which=fw, max_bond=exact, cutoff=0.0,
                                   **({"mode": kw["mode"] + "3d" if kw.get("mode") in ("projector", "l2bp") else kw["mode"]}
                                      if "mode" in kw else {}), **rg)
                if res is not gen.REJECTED and p0 is not None:
                    if not hasattr(res, "tensor_map"):
                        rec.check("scheme", "exact", False, mech="scheme:TensorNetwork3D.contract_boundary_from:nothing_returned",
                                  detail={"from_which": fw, "type": type(res).__name__}, sig=("3dfrom", fw[0], "ret"))
                    else:
                        compare(rec, "scheme", "exact", p0, res, 1e-6,
                                {"from_which": fw, "dims": [Lx, Ly, Lz], "mode": kw.get("mode", "default")},
                                ("3dfrom", fw[0], kw.get("mode", "default")),
                                mechsuffix=f"TensorNetwork3D.contract_boundary_from:untruncated_value:{kw.get('mode', 'default')}")
    else:
        gen.attempt(tn.contract_hotrg, **kw)
    return {"dims": [Lx, Ly, Lz], "what": what, "kw": {k: v for k, v in kw.items()}}


def wl_generic(rng, rec, tier):
    import quimb.tensor as qtn
    from . import c04
    if rng.random() < 0.25:
        # no cap at all (max_bond=None, cutoff 0) on a lattice whose exact
        # intermediate bonds grow well beyond the square of the largest bond
        Lx, Ly = (5, 5) if rng.random() < 0.5 else (int(rng.integers(3, 6)), int(rng.integers(3, 6)))
        D = 3 if (Lx, Ly) == (5, 5) else int(rng.integers(2, 4))
        tn = qtn.TN2D_rand(Lx, Ly, D, seed=int(rng.integers(1 << 30)), dtype=gen.choice(rng, ["float64", "complex128"]))
        opt = gen.choice(rng, ["greedy-compressed", "greedy", "auto"])
        kw = {"max_bond": None, "cutoff": 0.0}
        if rng.random() < 0.3:
            kw["equalize_norms"] = gen.choice(rng, [True, 1.0])
        gen.attempt(tn.contract_compressed, opt, **kw)
        return {"graph": "lattice", "Lx": Lx, "Ly": Ly, "D": D, "what": "compressed_uncapped", "opt": opt}
    tn, desc = c04.rand_network(rng, hyper=False)
    if tn.num_tensors < 2:
        return desc
    tot = 1.0
    for ix in tn.inner_inds():
        tot *= tn.ind_size(ix)
    exact = int(min(tot, 1 << 16))
    max_bond = gen.choice(rng, [1, 2, exact, exact, None])
    what = gen.choice(rng, ["compressed", "compressed", "around"])
    out = tuple(tn.outer_inds())
    if what == "compressed":
        opt = gen.choice(rng, ["greedy", "auto", "random"])
        kw = {"max_bond": max_bond, "cutoff": float(gen.choice(rng, [0.0, 0.0, 1e-10])), "output_inds": out}
        if opt == "random":
            # explicit random contraction path (ssa pairs of current positions)
            n = tn.num_tensors
            path = []
            for m in range(n, 1, -1):
                i, j = (int(x) for x in rng.choice(m, size=2, replace=False))
                path.append((min(i, j), max(i, j)))
            opt = tuple(path)
        if rng.random() < 0.3:
            kw["canonize_distance"] = int(rng.integers(0, 3))
        if rng.random() < 0.3:
            kw["compress_mode"] = gen.choice(rng, ["basic", "full-bond"])
        if rng.random() < 0.3:
            kw["equalize_norms"] = gen.choice(rng, [True, 1.0])
        gen.attempt(tn.contract_compressed, opt, **kw)
    else:
        tags = sorted(map(str, tn.tag_map))
        t = gen.choice(rng, [x for x in tags if x.startswith("T")] or tags)
        kw = {"max_bond": max_bond if max_bond is not None else exact, "cutoff": 0.0}
        gen.attempt(tn.contract_around, t, **kw)
    desc.update(what=what, max_bond=max_bond)
    return desc


WORKLOADS = [
    ("boundary2d", 5, wl_boundary2d),
    ("other2d", 1, wl_other2d),
    ("env2d", 3, wl_env2d),
    ("d3", 1, wl_3d),
    ("generic", 3, wl_generic),
]
