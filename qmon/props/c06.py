"""C06 - applying a gate equals multiplying by the operator, in every mode.

Index-level monitors (gate_inds, gate_sandwich_inds, gate_inds_with_tn,
Tensor.gate) and site-level monitors (arbitrary geometry gate / gate_simple /
lazy op application, 1D gate / gate_split / auto swap / nonlocal / sub-MPO /
MPO / site swaps) compare the dense form after the call with the explicitly
embedded operator applied to the dense form at entry."""

import numpy as np

from .. import attach, gen
from ..core import close, eps_of, exponent_of, ops_of, to_numpy
from ..ref import value as refv

PROP = "C06"
NCASES = {"quick": 30000, "thorough": 600000}
BUDGET = {"quick": 65, "thorough": 900}
RULE = ("MPS open/periodic, MPO, PEPS 2x2-2x3, random trees/graphs, generic labelled "
        "networks; physical dims 2,3 and mixed; random non-unitary complex operators "
        "given as matrix or tensor; 1-3 site gates on adjacent / distant / reversed "
        "sites; every contract mode valid for the geometry x transpose/dagger x "
        "propagate_tags x which; labels literally named b/l0/r0; non-trivial = >=2 "
        "sites; distinct = (entry point, mode, geometry, nsites of gate, flags)")
ASSUMPTIONS = [
    "exact comparison only when no max_bond is given (default split cutoff 1e-10 is "
    "covered by the 1e-7 relative tolerance); truncating calls get structural "
    "clauses only",
    "gate_with_auto_swap(swap_back=False) permutes the sites by design and only gets "
    "the structural clauses here (C07 covers it through CircuitPermMPS)",
]
DECIDING = [("gate_inds", "value"), ("ag_gate", "value"), ("gate_1d", "value"),
            ("gate_inds", "outer_inds")]
SUITE = ["tests/test_tensor/test_gating.py", "tests/test_tensor/test_tn1d/test_core.py",
         "tests/test_tensor/test_tnag/test_core.py"]
MANIFEST = dict(
    technique="runtime pre/post monitors on the real gate entry points (index level and site level) vs explicit dense operator embedding; structural postconditions on outer labels, site tags and class",
    text="For every gate call the workloads make (and nested ones: ag gate -> gate_inds, MPS gate_split -> gate_inds, auto-swap -> swaps + split ...) the dense tensor over the outer labels after the call must equal the operator, reshaped per site in the given site order and transposed/conjugated as requested, applied to the dense tensor before the call; outer labels must be the same set, pre-existing site tags must survive and the network class / site naming must be unchanged.",
    note="Dense references limited to 2^20 elements. Simple-update gates are compared after re-absorbing the gauges (sqrt on each side of a bond, full gauge on outer bonds).",
    ref="3/C06")

MAX_REF = 1 << 20


def dense(obj, output, exp_extra=0.0):
    try:
        ops = ops_of(obj)
        if len(ops) > 40:
            return None
        v = refv.value(ops, exponent_of(obj) + exp_extra, output, MAX_REF)
        return v
    except (refv.TooBig, ValueError, MemoryError):
        return None


def as_gate_tensor(G, dims):
    """G given as matrix (prod d, prod d) or tensor (*d, *d) -> tensor (*d, *d)"""
    G = to_numpy(G)
    dims = tuple(int(d) for d in dims)
    return G.reshape(dims + dims)


def apply_axes(D, Gt, axes):
    """contract the column legs of Gt with ``axes`` of D, new legs placed back"""
    k = len(axes)
    nd = D.ndim
    letters = list(range(nd))
    gin = [nd + i for i in range(k)]       # output legs of G
    sub_D = list(letters)
    sub_G = gin + [letters[a] for a in axes]
    out = list(letters)
    for i, a in enumerate(axes):
        out[a] = gin[i]
    return np.einsum(Gt, sub_G, D, sub_D, out)


def effective(G, dagger, transpose, k):
    """matrix/tensor actually applied as  M @ x"""
    Gt = G
    if dagger:
        perm = list(range(k, 2 * k)) + list(range(k))
        Gt = np.conj(np.transpose(Gt, perm))
    elif transpose:
        perm = list(range(k, 2 * k)) + list(range(k))
        Gt = np.transpose(Gt, perm)
    return Gt


def install(rec):
    import quimb.tensor as qtn
    from quimb.tensor import gating, tensor_core as tc
    from quimb.tensor.tnag import core as ag
    from quimb.tensor.tn1d import core as c1
    TN = tc.TensorNetwork

    def struct_checks(entry, before, after_tn, detail, sig):
        oa = set(after_tn.outer_inds())
        # hyper outer labels (a label on 2 tensors that is also an output) do not
        # show up in outer_inds(); judge on presence
        have = set(ix for t in after_tn for ix in t.inds)
        lost = [ix for ix in before["outer"] if ix not in have]
        new = [ix for ix in oa if ix not in before["outer"]]
        rec.check(entry, "outer_inds", not lost and not new,
                  mech=f"{entry}:outer_inds:{'lost' if lost else 'new'}",
                  detail=dict(detail, lost=lost[:4], new=new[:4]), sig=sig)
        if before.get("site_tags") is not None:
            missing = [t for t in before["site_tags"] if t not in after_tn.tag_map]
            rec.check(entry, "site_tags", not missing, mech=f"{entry}:site_tags:lost",
                      detail=dict(detail, missing=missing[:4]), sig=sig)
            rec.check(entry, "class", type(after_tn).__name__ == before["cls"],
                      mech=f"{entry}:class", detail=dict(detail, got=type(after_tn).__name__),
                      sig=sig)

    def snapshot(tn, order=None):
        outer = tuple(order) if order is not None else tuple(tn.outer_inds())
        st = None
        if hasattr(tn, "site_tag_id") and hasattr(tn, "sites"):
            try:
                st = [tn.site_tag(s) for s in tn.sites if tn.site_tag(s) in tn.tag_map]
            except Exception:
                st = None
        D0 = dense(tn, outer)
        eps = eps_of(*[t.dtype for t in tn]) if tn.num_tensors else 2.3e-16
        return {"outer": outer, "D0": D0, "site_tags": st, "cls": type(tn).__name__,
                "eps": eps}

    def judge(entry, snap, after_tn, expected_fn, exact, detail, sig, exp_extra=0.0,
              cutoff=None):
        struct_checks(entry, snap, after_tn, detail, sig)
        if not exact:
            rec.count(entry, "value", "truncating_not_judged")
            return
        if snap["D0"] is None:
            rec.count(entry, "value", "unreferenced")
            return
        D1 = dense(after_tn, snap["outer"], exp_extra)
        if D1 is None:
            have = set(ix for t in after_tn for ix in t.inds)
            if all(ix in have for ix in snap["outer"]):
                rec.count(entry, "value", "unreferenced")
            return
        want = expected_fn(snap["D0"])
        sc = float(np.abs(want).max()) if want.size else 0.0
        # default split cutoff 1e-10 (relative discarded weight) => error ~1e-5 |psi|
        # per split; only cutoff=0 is judged as exact
        rel = 1e-7 if (cutoff is not None and cutoff <= 0.0) else 3e-4
        nrm = float(np.linalg.norm(want)) if want.size else 0.0
        ok, err, bound = close(D1, want, max(sc, nrm if rel > 1e-7 else 0.0),
                               max(snap["eps"], 2.3e-16), 1e5, rel=rel)
        mech = f"{entry}:value"
        if ok is False:
            # diagnosis helpers
            if close(D1, snap["D0"], sc, snap["eps"], 1e5, rel=1e-7)[0]:
                mech += ":gate_not_applied"
        rec.check(entry, "value", ok, mech=mech, detail=dict(detail, err=err, bound=bound),
                  sig=sig)

    def is_exact(kw):
        return kw.get("max_bond") is None

    # ------------------------------------------------------------------ index level
    def pre_gi(self, G, inds, contract=False, dagger=False, transpose=False, tags=None,
               info=None, inplace=False, **kw):
        if isinstance(inds, str):
            inds = (inds,)
        if hasattr(G, "params") or not isinstance(to_numpy(G), np.ndarray):
            return None
        if "absorb" in kw and kw["absorb"] is None:
            return None   # singular values handed out through info (simple update)
        snap = snapshot(self)
        snap["inds"] = tuple(inds)
        return snap

    def post_gi(snap, result, self, G, inds, contract=False, dagger=False,
                transpose=False, tags=None, info=None, inplace=False, **kw):
        res = result if hasattr(result, "tensor_map") else self
        inds = snap["inds"]
        if any(ix not in snap["outer"] for ix in inds):
            rec.count("gate_inds", "value", "out_of_domain")
            return
        sizes = {ix: d for ix, d in zip(snap["outer"], snap["D0"].shape)} if snap["D0"] is not None else None
        detail = {"contract": contract, "dagger": dagger, "transpose": transpose,
                  "ninds": len(inds), "cls": snap["cls"], "kw": sorted(kw)}
        sig = ("gate_inds", str(contract), dagger, transpose, len(inds), snap["cls"],
               is_exact(kw))

        def expected(D0):
            dims = [sizes[ix] for ix in inds]
            Gt = effective(as_gate_tensor(G, dims), dagger, transpose, len(inds))
            return apply_axes(D0, Gt, [snap["outer"].index(ix) for ix in inds])

        judge("gate_inds", snap, res, expected, is_exact(kw), detail, sig, cutoff=(kw.get("cutoff") if contract in ("split", "reduce-split", "split-gate", "swap-split-gate", "auto-split-gate") else 0.0))

    attach.install(gating, "tensor_network_gate_inds", attach.monitored(
        rec, "gate_inds", pre_gi, post_gi, fam="gate"))

    def pre_gs(self, G, inds_upper, inds_lower, contract=False, dagger=False,
               transpose=False, **kw):
        if "absorb" in kw and kw["absorb"] is None:
            return None   # singular values handed out through info (simple update)
        snap = snapshot(self)
        snap["iu"], snap["il"] = tuple(inds_upper), tuple(inds_lower)
        return snap

    def post_gs(snap, result, self, G, inds_upper, inds_lower, contract=False,
                dagger=False, transpose=False, tags=None, tags_upper=None,
                tags_lower=None, info=None, inplace=False, **kw):
        res = result if hasattr(result, "tensor_map") else self
        iu, il = snap["iu"], snap["il"]
        if any(ix not in snap["outer"] for ix in iu + il):
            rec.count("gate_sandwich_inds", "value", "out_of_domain")
            return
        sizes = {ix: d for ix, d in zip(snap["outer"], snap["D0"].shape)} if snap["D0"] is not None else None
        detail = {"contract": contract, "dagger": dagger, "transpose": transpose,
                  "n": len(iu), "cls": snap["cls"]}
        sig = ("sandwich", str(contract), dagger, transpose, len(iu), snap["cls"])

        def expected(D0):
            dims = [sizes[ix] for ix in iu]
            Gt = effective(as_gate_tensor(G, dims), dagger, transpose, len(iu))
            D = apply_axes(D0, Gt, [snap["outer"].index(ix) for ix in iu])
            return apply_axes(D, np.conj(Gt), [snap["outer"].index(ix) for ix in il])

        judge("gate_sandwich_inds", snap, res, expected, is_exact(kw), detail, sig, cutoff=(kw.get("cutoff") if contract not in (False, True) else 0.0))

    attach.install(gating, "tensor_network_gate_sandwich_inds", attach.monitored(
        rec, "gate_sandwich_inds", pre_gs, post_gs, fam="gate"))

    def pre_gtn(self, inds, gate, gate_inds_inner, gate_inds_outer, inplace=False):
        if isinstance(inds, str):
            inds, gate_inds_inner, gate_inds_outer = (inds,), (gate_inds_inner,), (gate_inds_outer,)
        if any(ix not in self.ind_map for ix in inds):
            return None
        snap = snapshot(self)
        gi, go = tuple(gate_inds_inner), tuple(gate_inds_outer)
        gt = gate if hasattr(gate, "tensor_map") else tc.TensorNetwork([gate])
        snap["G"] = dense(gt, go + gi)
        snap["inds"] = tuple(inds)
        extra = [ix for ix in gt.outer_inds() if ix not in gi + go]
        if extra or snap["G"] is None:
            return None
        return snap

    def post_gtn(snap, result, self, inds, gate, gate_inds_inner, gate_inds_outer,
                 inplace=False):
        res = result if hasattr(result, "tensor_map") else self
        inds = snap["inds"]
        if any(ix not in snap["outer"] for ix in inds):
            rec.count("gate_inds_with_tn", "value", "out_of_domain")
            return

        def expected(D0):
            return apply_axes(D0, snap["G"], [snap["outer"].index(ix) for ix in inds])

        judge("gate_inds_with_tn", snap, res, expected, True,
              {"ninds": len(inds), "cls": snap["cls"]},
              ("gitn", len(inds), snap["cls"]), cutoff=0.0)

    attach.install(TN, "gate_inds_with_tn", attach.monitored(
        rec, "gate_inds_with_tn", pre_gtn, post_gtn, fam="gate"))

    def pre_tg(self, G, ind, preserve_inds=True, transpose=False, inplace=False,
               transposed=None):
        return {"data": np.array(self.data, copy=True), "inds": tuple(self.inds)}

    def post_tg(snap, result, self, G, ind, preserve_inds=True, transpose=False,
                inplace=False, transposed=None):
        if transposed is not None:
            transpose = transposed
        ax = snap["inds"].index(ind)
        M = to_numpy(G)
        M = M.T if transpose else M
        want = np.moveaxis(np.tensordot(M, snap["data"], axes=(1, ax)), 0, ax)
        rinds = tuple(result.inds)
        ok_l = set(rinds) == set(snap["inds"]) and (not preserve_inds or rinds == snap["inds"])
        rec.check("Tensor.gate", "labels", ok_l, mech="Tensor.gate:labels",
                  detail={"got": rinds, "want": snap["inds"]})
        if not ok_l:
            return
        got = np.transpose(to_numpy(result.data), [rinds.index(i) for i in snap["inds"]])
        sc = float(np.abs(want).max()) if want.size else 0.0
        ok, err, _ = close(got, want, sc, eps_of(snap["data"].dtype, M.dtype), 1e4)
        rec.check("Tensor.gate", "value", ok, mech="Tensor.gate:value",
                  detail={"err": err, "transpose": transpose, "preserve_inds": preserve_inds},
                  sig=(snap["data"].shape, ax, transpose, preserve_inds))

    attach.install(tc.Tensor, "gate", attach.monitored(rec, "Tensor.gate", pre_tg, post_tg,
                                                       fam="tgate"))

    # ------------------------------------------------------------------ site level (arbgeom)
    def site_order(tn, ind_of):
        return [ind_of(s) for s in tn.sites]

    def pre_ag(self, G, where, *, which=None, contract=False, dagger=False, transpose=False,
               **kw):
        if hasattr(G, "params"):
            return None
        if "absorb" in kw and kw["absorb"] is None:
            return None
        isop = isinstance(self, ag.TensorNetworkGenOperator)
        wh = (where,) if self.has_site(where) else tuple(where)
        if which is None:
            which = "sandwich" if isop else "site"
        if which == "both":
            which = "sandwich"
        try:
            if isop:
                order = [self.upper_ind(s) for s in self.sites] + [self.lower_ind(s) for s in self.sites]
            else:
                order = [self.site_ind(s) for s in self.sites]
        except Exception:
            return None
        if set(order) != set(self.outer_inds()):
            order = list(self.outer_inds())
        snap = snapshot(self, order)
        snap["where"], snap["which"], snap["isop"] = wh, which, isop
        # independent site -> label translation
        if which == "site":
            snap["axes_u"] = [order.index(self.site_ind_id.format(*s) if isinstance(s, tuple)
                                          else self.site_ind_id.format(s)) for s in wh]
            snap["axes_l"] = None
        else:
            fmt_u = lambda s: self.upper_ind_id.format(*s) if isinstance(s, tuple) else self.upper_ind_id.format(s)
            fmt_l = lambda s: self.lower_ind_id.format(*s) if isinstance(s, tuple) else self.lower_ind_id.format(s)
            snap["axes_u"] = [order.index(fmt_u(s)) for s in wh] if which in ("upper", "sandwich") else None
            snap["axes_l"] = [order.index(fmt_l(s)) for s in wh] if which in ("lower", "sandwich") else None
        return snap

    def post_ag(snap, result, self, G, where, *, which=None, contract=False, dagger=False,
                transpose=False, tags=None, tags_upper=None, tags_lower=None,
                propagate_tags=False, info=None, inplace=False, **kw):
        res = result if hasattr(result, "tensor_map") else self
        wh, wch = snap["where"], snap["which"]
        detail = {"contract": contract, "which": wch, "dagger": dagger, "transpose": transpose,
                  "where": wh, "cls": snap["cls"], "propagate_tags": propagate_tags}
        sig = ("ag", str(contract), wch, dagger, transpose, len(wh), snap["cls"],
               str(propagate_tags), is_exact(kw))

        def expected(D0):
            ax = snap["axes_u"] if snap["axes_u"] is not None else snap["axes_l"]
            dims = [D0.shape[a] for a in ax]
            Gt = effective(as_gate_tensor(G, dims), dagger, transpose, len(wh))
            D = D0
            if wch == "site" or wch == "upper":
                D = apply_axes(D, Gt, snap["axes_u"])
            elif wch == "lower":
                D = apply_axes(D, Gt, snap["axes_l"])
            else:
                D = apply_axes(D, Gt, snap["axes_u"])
                D = apply_axes(D, np.conj(Gt), snap["axes_l"])
            return D

        judge("ag_gate", snap, res, expected, is_exact(kw), detail, sig, cutoff=(kw.get("cutoff") if contract not in (False, True) else 0.0))
        # propagated tags
        if propagate_tags == "register" and contract in (False, "split-gate", "swap-split-gate",
                                                         "auto-split-gate"):
            ok = True
            for s in wh:
                try:
                    ix = res.site_ind(s) if wch == "site" else (
                        res.upper_ind(s) if wch in ("upper", "sandwich") else res.lower_ind(s))
                    (t,) = res._inds_get(ix)
                    ok &= res.site_tag(s) in t.tags
                except Exception:
                    ok = False
            rec.check("ag_gate", "register_tags", ok, mech="ag_gate:register_tags",
                      detail=detail, sig=sig)

    attach.install(ag, "tensor_network_ag_gate", attach.monitored(
        rec, "ag_gate", pre_ag, post_ag, fam="sgate"))

    # simple update gate: gauges live outside
    def with_gauges(tn, gauges):
        t2 = tn.copy()
        g2 = dict(gauges)
        t2.gauge_simple_insert(g2)
        return t2

    def pre_ags(self, G, where, gauges, *, dagger=False, transpose=False, max_bond=None,
                **kw):
        if max_bond is not None:
            return None
        wh = (where,) if self.has_site(where) else tuple(where)
        try:
            order = [self.site_ind(s) for s in self.sites]
            full = with_gauges(self, gauges)
        except Exception:
            return None
        snap = snapshot(full, order)
        snap["where"] = wh
        snap["axes"] = [order.index(self.site_ind_id.format(*s) if isinstance(s, tuple)
                                    else self.site_ind_id.format(s)) for s in wh]
        snap["site_tags"] = None
        return snap

    def post_ags(snap, result, self, G, where, gauges, *, dagger=False, transpose=False,
                 max_bond=None, cutoff=1e-10, renorm=True, **kw):
        res = result if hasattr(result, "tensor_map") else self
        try:
            full = with_gauges(res, gauges)
        except Exception as e:  # noqa
            rec.count("ag_gate_simple", "value", "unreferenced")
            return
        wh = snap["where"]

        def expected(D0):
            dims = [D0.shape[a] for a in snap["axes"]]
            Gt = effective(as_gate_tensor(G, dims), dagger, transpose, len(wh))
            return apply_axes(D0, Gt, snap["axes"])

        if snap["D0"] is None:
            rec.count("ag_gate_simple", "value", "unreferenced")
            return
        D1 = dense(full, snap["outer"])
        if D1 is None:
            rec.count("ag_gate_simple", "value", "unreferenced")
            return
        want = expected(snap["D0"])
        if renorm:
            # gauges are renormalised: compare up to a positive scale
            n1, nw = np.linalg.norm(D1), np.linalg.norm(want)
            if n1 > 0 and nw > 0:
                D1 = D1 * (nw / n1)
        sc = float(np.abs(want).max()) if want.size else 0.0
        ok, err, bound = close(D1, want, sc, snap["eps"], 1e5, rel=1e-6)
        rec.check("ag_gate_simple", "value", ok, mech="ag_gate_simple:value",
                  detail={"err": err, "where": wh, "renorm": renorm, "cls": snap["cls"]},
                  sig=("ags", len(wh), snap["cls"], renorm, dagger, transpose))

    attach.install(ag, "tensor_network_ag_gate_simple", attach.monitored(
        rec, "ag_gate_simple", pre_ags, post_ags, fam="sgate"))

    # lazy operator application
    def pre_lazy(self, A, transpose=False, inplace=False, inplace_op=False, **kw):
        try:
            order = [self.site_ind(s) for s in self.sites]
        except Exception:
            return None
        snap = snapshot(self, order)
        sites = list(A.sites)
        up = [A.upper_ind(s) for s in sites]
        lo = [A.lower_ind(s) for s in sites]
        GA = dense(A, tuple(up) + tuple(lo))
        if GA is None:
            return None
        snap["GA"], snap["axes"] = GA, [order.index(self.site_ind(s)) for s in sites]
        return snap

    def post_lazy(snap, result, self, A, transpose=False, inplace=False, inplace_op=False,
                  **kw):
        res = result if hasattr(result, "tensor_map") else self
        k = len(snap["axes"])

        def expected(D0):
            return apply_axes(D0, effective(snap["GA"], False, transpose, k), snap["axes"])

        judge("gate_with_op_lazy", snap, res, expected, True,
              {"transpose": transpose, "cls": snap["cls"], "nsites": k},
              ("lazyop", transpose, k, snap["cls"]), cutoff=0.0)

    attach.install(ag.TensorNetworkGenVector, "gate_with_op_lazy", attach.monitored(
        rec, "gate_with_op_lazy", pre_lazy, post_lazy, fam="sgate"))

    # ------------------------------------------------------------------ 1D specific
    def mps_order(self):
        return [self.site_ind(i) for i in self.sites]

    def mk_1d(owner, name, entry, where_of, matrix_of, perm_of=None, exact_of=None):
        def pre(self, *a, **k):
            try:
                order = mps_order(self)
            except Exception:
                return None
            if set(order) != set(self.outer_inds()):
                return None
            snap = snapshot(self, order)
            try:
                snap["where"] = where_of(self, *a, **k)
                snap["M"] = matrix_of(self, *a, **k) if matrix_of else None
            except Exception as e:  # noqa
                return None
            return snap

        def post(snap, result, self, *a, **k):
            res = result if hasattr(result, "tensor_map") else self
            wh = snap["where"]
            order = list(snap["outer"])
            sites = list(self.sites)
            axes = [sites.index(s) for s in wh] if wh is not None else []
            exact = is_exact(k) and (exact_of(self, *a, **k) if exact_of else True)
            detail = {"where": wh, "cls": snap["cls"], "kw": sorted(k)}
            sig = (entry, len(axes), snap["cls"], tuple(np.sign(np.diff(axes))) if len(axes) > 1 else (),
                   exact, getattr(self, "cyclic", False))

            def expected(D0):
                D = D0
                if snap["M"] is not None:
                    dims = [D0.shape[x] for x in axes]
                    Gt = effective(as_gate_tensor(snap["M"], dims), k.get("dagger", False),
                                   k.get("transpose", False), len(axes))
                    D = apply_axes(D, Gt, axes)
                if perm_of is not None:
                    D = np.transpose(D, perm_of(self, len(order), *a, **k))
                return D

            judge(entry, snap, res, expected, exact, detail, sig, cutoff=k.get("cutoff"))

        attach.install(owner, name, attach.monitored(rec, entry, pre, post, fam="g1d"))

    MPS = qtn.MatrixProductState

    def where_gate(self, G, where, *a, **k):
        return (where,) if isinstance(where, int) else tuple(where)

    mk_1d(c1, "gate_TN_1D", "gate_1d", lambda tn, G, where, *a, **k: (where,) if isinstance(where, int) else tuple(where),
          lambda tn, G, where, *a, **k: G)
    mk_1d(MPS, "gate_split", "gate_split", where_gate, lambda self, G, where, *a, **k: G)
    mk_1d(MPS, "gate_with_auto_swap", "gate_with_auto_swap", where_gate,
          lambda self, G, where, *a, **k: G,
          exact_of=lambda self, G, where, info=None, swap_back=True, **k: swap_back)
    mk_1d(MPS, "gate_nonlocal", "gate_nonlocal", where_gate, lambda self, G, where, *a, **k: G)

    def swap_perm(self, n, i, j, *a, **k):
        p = list(range(n))
        p[i], p[j] = p[j], p[i]
        return p

    mk_1d(MPS, "swap_sites_with_compress", "swap_sites", lambda self, i, j, *a, **k: None,
          None, perm_of=swap_perm)

    def move_perm(self, n, i, f, *a, **k):
        # content of site i ends at position f, the sites in between shift by one
        src = list(range(n))
        x = src.pop(i)
        src.insert(f, x)
        return src   # new axis p shows old axis src[p]

    mk_1d(MPS, "swap_site_to", "swap_site_to", lambda self, i, f, *a, **k: None, None,
          perm_of=move_perm)

    # (sub-)MPO application
    def pre_mpo(self, mpo, *a, **k):
        try:
            order = mps_order(self)
        except Exception:
            return None
        if set(order) != set(self.outer_inds()):
            return None
        snap = snapshot(self, order)
        sites = list(mpo.sites)
        GA = dense(mpo, tuple(mpo.upper_ind(s) for s in sites) + tuple(mpo.lower_ind(s) for s in sites))
        if GA is None:
            return None
        snap["GA"] = GA
        snap["axes"] = [list(self.sites).index(s) for s in sites]
        return snap

    def post_mpo(snap, result, self, mpo, *a, **k):
        res = result if hasattr(result, "tensor_map") else self
        kk = len(snap["axes"])
        transpose = k.get("transpose", False)

        def expected(D0):
            return apply_axes(D0, effective(snap["GA"], False, transpose, kk), snap["axes"])

        exact = is_exact(k) and k.get("cutoff", 1e-10) <= 1e-10
        judge("gate_with_mpo", snap, res, expected, exact,
              {"nsites": kk, "method": k.get("method", "direct"), "transpose": transpose,
               "cls": snap["cls"]},
              ("mpo", kk, k.get("method", "direct"), transpose, exact), cutoff=k.get("cutoff"))

    attach.install(MPS, "gate_with_submpo", attach.monitored(
        rec, "gate_with_submpo", pre_mpo, post_mpo, fam="g1d"))
    attach.install(MPS, "gate_with_mpo", attach.monitored(
        rec, "gate_with_mpo", pre_mpo, post_mpo, fam="g1d"))

    # MPO sandwich with auto swap
    MPO = qtn.MatrixProductOperator

    def pre_mposw(self, G, where, dagger=False, info=None, swap_back=True, **k):
        order = [self.upper_ind(i) for i in self.sites] + [self.lower_ind(i) for i in self.sites]
        if set(order) != set(self.outer_inds()):
            return None
        snap = snapshot(self, order)
        snap["where"] = (where,) if isinstance(where, int) else tuple(where)
        return snap

    def post_mposw(snap, result, self, G, where, dagger=False, info=None, swap_back=True,
                   strip_exponent=False, contract="split", inplace=False, **k):
        res = result if hasattr(result, "tensor_map") else self
        L = len(list(self.sites))
        wh = snap["where"]
        au = [list(self.sites).index(s) for s in wh]
        al = [L + x for x in au]

        def expected(D0):
            dims = [D0.shape[x] for x in au]
            Gt = effective(as_gate_tensor(G, dims), dagger, False, len(wh))
            D = apply_axes(D0, Gt, au)
            return apply_axes(D, np.conj(Gt), al)

        judge("mpo_gate_sandwich", snap, res, expected, is_exact(k) and swap_back,
              {"where": wh, "dagger": dagger, "contract": contract},
              ("mposw", len(wh), dagger, str(contract), swap_back), cutoff=k.get("cutoff"))

    attach.install(MPO, "gate_sandwich_with_auto_swap", attach.monitored(
        rec, "mpo_gate_sandwich", pre_mposw, post_mposw, fam="g1d"))


# ---------------------------------------------------------------------------
# workloads
# ---------------------------------------------------------------------------

LAZY = [False, "split-gate", "swap-split-gate", "auto-split-gate"]
EAGER = [True, "split", "reduce-split"]


def rand_gate(rng, dims, dtype="complex128", as_tensor=None):
    d = int(np.prod(dims))
    G = gen.rand_array(rng, (d, d), dtype)
    if as_tensor is None:
        as_tensor = rng.random() < 0.4
    if as_tensor:
        G = G.reshape(tuple(dims) + tuple(dims))
    return G


def wl_generic(rng, rec, tier):
    """gate_inds on generic labelled networks, including hostile label names"""
    import quimb.tensor as qtn
    hostile = rng.random() < 0.4
    spec = gen.rand_tn_spec(rng, hyper=False, max_tensors=5, outer_prob=0.6,
                            dtype=gen.choice(rng, ["complex128", "float64"]))
    tn = gen.build_tn(rng, spec)
    outer = list(tn.outer_inds())
    if hostile and outer:
        names = ["b", "l0", "r0", "l1", "r1"]
        ren = {ix: names[i] for i, ix in enumerate(outer[:len(names)])}
        tn.reindex_(ren)
        outer = list(tn.outer_inds())
    if not outer:
        return {"skip": True}
    k = int(rng.integers(1, min(3, len(outer)) + 1))
    inds = [outer[int(i)] for i in rng.choice(len(outer), size=k, replace=False)]
    dims = [tn.ind_size(ix) for ix in inds]
    G = rand_gate(rng, dims)
    modes = [False, True] + (["split-gate", "swap-split-gate", "auto-split-gate"] if k == 2 else [])
    if k == 2:
        (ta,), (tb,) = (tuple(tn._inds_get(ix)) for ix in inds)
        if ta is not tb and len(ta.bonds(tb)) == 1:
            modes += ["split", "reduce-split"]
    contract = gen.choice(rng, modes)
    kw = {}
    r = rng.random()
    if r < 0.2:
        kw["dagger"] = True
    elif r < 0.4:
        kw["transpose"] = True
    elif r < 0.5:
        # documented: transpose is implied by dagger, giving both still means G^dagger
        kw["dagger"] = True
        kw["transpose"] = True
    if rng.random() < 0.3:
        kw["tags"] = ["G"]
    inplace = bool(rng.random() < 0.4)
    t = tn.copy() if inplace else tn
    gen.attempt(t.gate_inds, G, inds if k > 1 or rng.random() < 0.5 else inds[0],
                contract=contract, inplace=inplace, **kw)
    # gate with a small network (gate_inds_with_tn)
    if rng.random() < 0.3:
        gi = [f"gi{i}" for i in range(k)]
        go = [f"go{i}" for i in range(k)]
        Gt = qtn.Tensor(rand_gate(rng, dims, as_tensor=True), inds=go + gi)
        gtn = Gt.split(go[:1] + gi[:1], cutoff=0.0) if k == 2 and rng.random() < 0.5 else Gt
        gen.attempt(tn.gate_inds_with_tn, inds, gtn, gi, go)
    # single tensor gate
    tt = tn.tensors[0]
    if tt.inds:
        ix = gen.choice(rng, list(tt.inds))
        gen.attempt(tt.gate, gen.rand_array(rng, (tt.ind_size(ix),) * 2, "complex128"), ix,
                    transpose=bool(rng.random() < 0.5), preserve_inds=bool(rng.random() < 0.7))
    return {"spec": spec["tensors"], "inds": inds, "contract": str(contract), "kw": kw,
            "hostile": hostile}


def rand_vector_tn(rng):
    import quimb.tensor as qtn
    kind = gen.choice(rng, ["mps", "mps", "mps_cyc", "peps", "tree", "graph", "dense1d"])
    dtype = gen.choice(rng, ["complex128", "float64"])
    seed = int(rng.integers(1 << 30))
    phys = int(gen.choice(rng, [2, 2, 3]))
    if kind == "mps":
        L = int(rng.integers(2, 7))
        tn = qtn.MPS_rand_state(L, int(rng.integers(1, 4)), phys_dim=phys, dtype=dtype, seed=seed)
    elif kind == "mps_cyc":
        L = int(rng.integers(3, 6))
        tn = qtn.MPS_rand_state(L, 2, phys_dim=phys, dtype=dtype, seed=seed, cyclic=True)
    elif kind == "peps":
        tn = qtn.PEPS.rand(2, int(rng.integers(2, 4)), 2, phys_dim=phys, dtype=dtype, seed=seed)
    elif kind == "tree":
        n = int(rng.integers(3, 7))
        tn = qtn.TN_from_edges_rand(qtn.edges_tree_rand(n, seed=seed), D=2, phys_dim=phys,
                                    dtype=dtype, seed=seed)
    elif kind == "graph":
        n = int(rng.integers(3, 6))
        edges = gen.rand_simple_graph(rng, n, p_edge=0.8)
        tn = qtn.TN_from_edges_rand(edges, D=2, phys_dim=phys, dtype=dtype, seed=seed)
    else:
        L = int(rng.integers(2, 5))
        tn = qtn.Dense1D(gen.rand_array(rng, (phys,) * L, dtype), phys_dim=phys)
    return kind, tn


def wl_sites(rng, rec, tier):
    """site level gates on vector networks of every geometry"""
    kind, tn = rand_vector_tn(rng)
    sites = list(tn.sites)
    k = int(gen.choice(rng, [1, 2, 2, 2, 3])) if len(sites) >= 3 else int(rng.integers(1, len(sites) + 1))
    where = [sites[int(i)] for i in rng.choice(len(sites), size=k, replace=False)]
    dims = [tn.ind_size(tn.site_ind(s)) for s in where]
    G = rand_gate(rng, dims)
    modes = [False, True]
    if k == 2:
        modes += ["split-gate", "swap-split-gate", "auto-split-gate"]
        ta, tb = tn[tn.site_tag(where[0])], tn[tn.site_tag(where[1])]
        if hasattr(ta, "bonds") and hasattr(tb, "bonds") and ta is not tb and len(ta.bonds(tb)) == 1:
            modes += ["split", "reduce-split"]
    contract = gen.choice(rng, modes)
    kw = {}
    r = rng.random()
    if r < 0.2:
        kw["dagger"] = True
    elif r < 0.4:
        kw["transpose"] = True
    elif r < 0.5:
        kw["dagger"] = True
        kw["transpose"] = True
    kw["propagate_tags"] = gen.choice(rng, [False, True, "register", "sites"])
    if rng.random() < 0.3:
        kw["tags"] = ["GATE"]
    if contract in ("split", "reduce-split") and rng.random() < 0.3:
        kw["max_bond"] = int(rng.integers(1, 4))
    elif contract not in (False, True) and rng.random() < 0.7:
        kw["cutoff"] = 0.0
    inplace = bool(rng.random() < 0.4)
    t = tn.copy() if inplace else tn
    w = where if k > 1 or rng.random() < 0.5 else where[0]
    if kind.startswith("mps") or kind == "dense1d":
        kw1 = dict(kw)
        if kw1.get("propagate_tags") is True:
            kw1["propagate_tags"] = "sites"
        kw1.pop("dagger", None)
        kw1.pop("transpose", None)
        if k == 2 and abs(where[0] - where[1]) == 1 and rng.random() < 0.3:
            contract = gen.choice(rng, modes + ["swap+split"])
        if k == 2 and rng.random() < 0.15:
            contract = gen.choice(rng, ["swap+split", "nonlocal"] if kind == "mps" else ["swap+split"])
        gen.attempt(t.gate, G, w, contract=contract, inplace=inplace, **kw1)
    else:
        gen.attempt(t.gate, G, w, contract=contract, inplace=inplace, **kw)
    return {"kind": kind, "where": where, "contract": str(contract),
            "kw": {a: str(b) for a, b in kw.items()}}


def wl_mps_modes(rng, rec, tier):
    """MPS specific application modes + site swaps"""
    import quimb.tensor as qtn
    L = int(rng.integers(3, 8))
    phys = int(gen.choice(rng, [2, 2, 3]))
    dtype = gen.choice(rng, ["complex128", "float64"])
    psi = qtn.MPS_rand_state(L, int(rng.integers(1, 4)), phys_dim=phys, dtype=dtype,
                             seed=int(rng.integers(1 << 30)))
    op = gen.choice(rng, ["gate_split", "auto_swap", "nonlocal", "submpo", "mpo",
                          "swap_sites", "swap_site_to", "lazy_twice"])
    desc = {"L": L, "phys": phys, "op": op}
    i, j = [int(x) for x in rng.choice(L, size=2, replace=False)]
    inplace = bool(rng.random() < 0.4)
    t = psi.copy() if inplace else psi
    if op == "gate_split":
        a = int(rng.integers(0, L - 1))
        wh = (a, a + 1) if rng.random() < 0.7 else (a + 1, a)
        gen.attempt(t.gate_split, rand_gate(rng, [phys, phys]), wh, inplace=inplace,
                    **({"max_bond": 2} if rng.random() < 0.2 else {}))
        desc["where"] = wh
    elif op == "auto_swap":
        gen.attempt(t.gate_with_auto_swap, rand_gate(rng, [phys, phys]), (i, j), inplace=inplace,
                    swap_back=bool(rng.random() < 0.8), **({"cutoff": 0.0} if rng.random() < 0.7 else {}))
        desc["where"] = (i, j)
    elif op == "nonlocal":
        k = int(gen.choice(rng, [2, 2, 3])) if L >= 3 else 2
        wh = [int(x) for x in rng.choice(L, size=k, replace=False)]
        gen.attempt(t.gate_nonlocal, rand_gate(rng, [phys] * k), wh, inplace=inplace,
                    **({"method": gen.choice(rng, ["direct", "dm", "zipup"])} if rng.random() < 0.4 else {}),
                    **({"cutoff": 0.0} if rng.random() < 0.7 else {}))
        desc["where"] = wh
    elif op == "submpo":
        k = int(rng.integers(1, min(L, 4) + 1))
        sites = sorted(int(x) for x in rng.choice(L, size=k, replace=False))
        A0 = qtn.MPO_rand(k, 2, phys_dim=phys, dtype=dtype, seed=int(rng.integers(1 << 30)))
        A = qtn.MatrixProductOperator(A0.arrays, sites=sites, L=L)
        gen.attempt(t.gate_with_submpo, A, inplace=inplace, transpose=bool(rng.random() < 0.3),
                    cutoff=0.0)
        desc["sites"] = sites
    elif op == "mpo":
        A = qtn.MPO_rand(L, 2, phys_dim=phys, dtype=dtype, seed=int(rng.integers(1 << 30)))
        gen.attempt(t.gate_with_mpo, A, inplace=inplace, transpose=bool(rng.random() < 0.3),
                    method=gen.choice(rng, ["direct", "dm", "zipup"]), cutoff=0.0)
    elif op == "lazy_twice":
        # the same operator object (or its copy / conjugate / a view of it)
        # applied lazily several times: its bond names recur inside the state
        k = int(rng.integers(2, min(L, 4) + 1)) if L >= 2 else 1
        sites = sorted(int(x) for x in rng.choice(L, size=k, replace=False))
        A0 = qtn.MPO_rand(k, 2, phys_dim=phys, dtype=dtype, seed=int(rng.integers(1 << 30)))
        A = qtn.MatrixProductOperator(A0.arrays, sites=sites, L=L) if k > 1 else None
        if A is None:
            return desc
        cur = t
        for rep in range(int(rng.integers(2, 4))):
            B = gen.choice(rng, [A, A.copy(), A.conj(), A])
            how = gen.choice(rng, ["op_lazy", "submpo_lazy"])
            if how == "op_lazy":
                r_ = gen.attempt(cur.gate_with_op_lazy, B, transpose=bool(rng.random() < 0.3))
            else:
                r_ = gen.attempt(cur.gate_with_submpo, B, method="lazy", transpose=bool(rng.random() < 0.3))
            if r_ is None:
                break
            cur = r_
        desc["sites"] = sites
    elif op == "swap_sites":
        a = int(rng.integers(0, L - 1))
        gen.attempt(t.swap_sites_with_compress, a, a + 1, inplace=inplace,
                    **({"cutoff": 0.0} if rng.random() < 0.7 else {}))
        desc["where"] = (a, a + 1)
    else:
        gen.attempt(t.swap_site_to, i, j, inplace=inplace,
                    **({"cutoff": 0.0} if rng.random() < 0.7 else {}))
        desc["where"] = (i, j)
    return desc


def wl_operator(rng, rec, tier):
    """operator-like networks: upper / lower / sandwich"""
    import quimb.tensor as qtn
    L = int(rng.integers(2, 5))
    phys = 2
    dtype = gen.choice(rng, ["complex128", "float64"])
    A = qtn.MPO_rand(L, int(rng.integers(1, 3)), phys_dim=phys, dtype=dtype,
                     seed=int(rng.integers(1 << 30)))
    which = gen.choice(rng, [None, "upper", "lower", "sandwich"])
    k = int(gen.choice(rng, [1, 2])) if L >= 2 else 1
    where = [int(x) for x in rng.choice(L, size=k, replace=False)]
    G = rand_gate(rng, [phys] * k)
    kw = {}
    r = rng.random()
    if r < 0.2:
        kw["dagger"] = True
    elif r < 0.4:
        kw["transpose"] = True
    elif r < 0.5:
        # documented: transpose is implied by dagger, giving both still means G^dagger
        kw["dagger"] = True
        kw["transpose"] = True
    contract = gen.choice(rng, [False, True] + (["split", "reduce-split"] if k == 2 and abs(where[0] - where[-1]) == 1 else []))
    tn = A.view_as(__import__("quimb.tensor.tnag.core", fromlist=["x"]).TensorNetworkGenOperator,
                   sites=tuple(range(L)), site_tag_id="I{}", upper_ind_id="k{}", lower_ind_id="b{}") \
        if rng.random() < 0.5 else A
    f = {None: "gate", "upper": "gate_upper", "lower": "gate_lower", "sandwich": "gate_sandwich"}[which]
    if hasattr(tn, f):
        gen.attempt(getattr(tn, f), G, where if k > 1 else where[0], contract=contract, **kw)
    if k <= 2 and rng.random() < 0.4:
        wh = tuple(where) if k == 2 else None
        if wh:
            gen.attempt(A.gate_sandwich_with_auto_swap, G, wh, dagger=bool(rng.random() < 0.3))
    return {"L": L, "which": which, "where": where, "contract": str(contract), "kw": kw}


def wl_simple_update(rng, rec, tier):
    import quimb.tensor as qtn
    kind = gen.choice(rng, ["peps", "tree", "mps"])
    seed = int(rng.integers(1 << 30))
    dtype = gen.choice(rng, ["complex128", "float64"])
    if kind == "peps":
        tn = qtn.PEPS.rand(2, 2, 2, dtype=dtype, seed=seed)
    elif kind == "tree":
        tn = qtn.TN_from_edges_rand(qtn.edges_tree_rand(4, seed=seed), D=2, phys_dim=2,
                                    dtype=dtype, seed=seed)
    else:
        tn = qtn.MPS_rand_state(4, 2, dtype=dtype, seed=seed)
    gauges = {}
    tn.gauge_all_simple_(max_iterations=5, gauges=gauges)
    sites = list(tn.sites)
    calls = []
    for _ in range(int(rng.integers(1, 4))):
        k = int(gen.choice(rng, [1, 2]))
        if k == 2:
            # neighbouring sites
            pairs = []
            for a in sites:
                for b in sites:
                    if a != b and hasattr(tn[tn.site_tag(a)], "bonds") and tn[tn.site_tag(a)].bonds(tn[tn.site_tag(b)]):
                        pairs.append((a, b))
            if not pairs:
                continue
            where = list(gen.choice(rng, pairs))
        else:
            where = [gen.choice(rng, sites)]
        G = rand_gate(rng, [2] * k, as_tensor=False)
        calls.append(where)
        gen.attempt(tn.gate_simple_, G, where if k > 1 else where[0], gauges=gauges,
                    max_bond=None, cutoff=0.0, renorm=bool(rng.random() < 0.5))
    return {"kind": kind, "calls": calls}


WORKLOADS = [
    ("generic", 4, wl_generic),
    ("sites", 6, wl_sites),
    ("mps_modes", 4, wl_mps_modes),
    ("operator", 2, wl_operator),
    ("simple_update", 1, wl_simple_update),
]
