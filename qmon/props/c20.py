"""C20 - entanglement and information measures satisfy their defining
identities.  Postcondition monitors on quimb.calc functions vs textbook
definitions + metamorphic relations (local unitaries, relabelling, bounds,
ket == projector, dense == sparse, exact == subsystem shortcut)."""

import numpy as np
import scipy.sparse as sp

from .. import attach, gen
from ..core import close
from ..ref import linalg as rl

PROP = "C20"
NCASES = {"quick": 8000, "thorough": 200000}
BUDGET = {"quick": 60, "thorough": 900}
RULE = ("pure / mixed (rank 1..d) / product / maximally entangled / Werner / random "
        "states over dims lists of 2-4 subsystems (1-4 each), contiguous and "
        "non-contiguous / reordered subsystem choices, dense + sparse; non-trivial = "
        "total dimension >=4; distinct = (function, dims, subsystems, state kind, "
        "representation) signatures")
ASSUMPTIONS = [
    "references: numpy eigvalsh/svd based textbook formulas in qmon/ref/linalg.py",
    "absolute tolerance 1e-7 on O(1) quantities (entropies of nearly-pure states "
    "are sqrt(eps)-conditioned); discord vs a 60x120 brute-force grid at 2e-3",
    "stochastic approx_spectral branch only to 5% with fixed seeds, otherwise "
    "logged 'stochastic'",
]
DECIDING = [("entropy", "value"), ("mutinf", "value"), ("logneg", "value"),
            ("fidelity", "value"), ("relation", "local_unitary")]
MANIFEST = dict(
    technique="runtime postcondition monitors on quimb.calc measures vs textbook numpy definitions + metamorphic relation checks (local unitary invariance, subsystem relabelling, bounds, ket/projector, dense/sparse, exact/shortcut)",
    text="Each call the workloads make to entropy, entropy_subsys, mutinf(_subsys), negativity, logneg(_subsys), concurrence, fidelity, trace_distance, schmidt_gap, tr_sqrt, purify, kraus_op, projector, measure, simulate_counts, dephase, correlation, quantum_discord, partial_transpose is compared with the definition evaluated by plain linear algebra on its own arguments; the workloads additionally assert invariance under random local unitaries and consistent relabelling, the standard bounds, and ket/projector, dense/sparse, exact/shortcut agreement.",
    note="Quantities of nearly pure states are judged at 1e-7 absolute. The stochastic Lanczos branch (approx_thresh forced small) is only judged to its advertised accuracy.",
    ref="3/C20")

ATOL = 1e-7


def S(rho):
    return rl.entropy_vn(rho)


def neg_norm(p, dims, sysa):
    return rl.trace_norm(rl.partial_transpose(p, dims, sysa))


def tup(x):
    return (int(x),) if np.ndim(x) == 0 else tuple(int(i) for i in x)


def comp(dims, sysa):
    return tuple(i for i in range(len(dims)) if i not in sysa)


def install(rec):
    import quimb as qu
    from quimb import calc

    def mon(entry, name, ref_fn, atol=ATOL, owner=calc, domain=None):
        def pre(*a, **k):
            if domain is not None and not domain(*a, **k):
                rec.count(entry, "value", "out_of_domain")
                return None
            ca = [np.array(rl.dense(x), copy=True) if hasattr(x, "shape") else x for x in a]
            try:
                return {"want": ref_fn(*ca, **k), "rep": getattr(a[0], "format", "dense")}
            except Exception as e:  # noqa
                rec.count(entry, "value", "unreferenced")
                return None

        def post(snap, result, *a, **k):
            want = snap["want"]
            got = rl.dense(result) if hasattr(result, "shape") else np.asarray(result)
            want = np.asarray(want)
            if got.shape != want.shape:
                got = got.reshape(want.shape) if got.size == want.size else got
            if got.shape != want.shape:
                rec.check(entry, "value", False, mech=f"{entry}:value:shape",
                          detail={"got": got.shape, "want": want.shape})
                return
            err = float(np.abs(got - want).max()) if want.size else 0.0
            ok = bool(err <= atol * max(1.0, float(np.abs(want).max()) if want.size else 1.0))
            sig = (entry, tuple(np.shape(x) for x in a if hasattr(x, "shape")),
                   repr([x for x in a if not hasattr(x, "shape")])[:80],
                   repr(sorted((kk, vv) for kk, vv in k.items()
                               if not hasattr(vv, "shape")))[:80], snap["rep"])
            rec.check(entry, "value", ok, mech=f"{entry}:value",
                      detail={"err": err,
                              "args": [x for x in a if not hasattr(x, "shape")],
                              "kw": {kk: vv for kk, vv in k.items() if not hasattr(vv, "shape")},
                              "got": got if got.size <= 4 else None,
                              "want": want if want.size <= 4 else None,
                              "rep": snap["rep"]},
                      sig=sig)

        attach.install(owner, name, attach.monitored(rec, entry, pre, post, fam=entry))

    # ---- references ------------------------------------------------------
    def r_entropy(a, rank=None):
        a = np.asarray(a)
        if a.ndim == 1:
            ev = a[a > 0]
            return float(-np.sum(ev * np.log2(ev)))
        return S(a)

    def r_mutinf(p, dims=(2, 2), sysa=0, rank=None):
        sysa = tup(sysa)
        rho = rl.as_dop(p)
        sysb = comp(dims, sysa)
        return S(rl.ptrace(rho, dims, sysa)) + S(rl.ptrace(rho, dims, sysb)) - S(rho)

    def r_mutinf_subsys(psi, dims, sysa, sysb, approx_thresh=2 ** 13, **kw):
        sysa, sysb = tup(sysa), tup(sysb)
        rho = rl.as_dop(psi)
        return (S(rl.ptrace(rho, dims, sysa)) + S(rl.ptrace(rho, dims, sysb))
                - S(rl.ptrace(rho, dims, sysa + sysb)))

    def r_entropy_subsys(psi, dims, sysa, approx_thresh=2 ** 13, **kw):
        return S(rl.ptrace(psi, dims, tup(sysa)))

    def r_logneg(p, dims=(2, 2), sysa=0):
        return max(0.0, float(np.log2(neg_norm(p, dims, tup(sysa)))))

    def r_negativity(p, dims=(2, 2), sysa=0):
        return max(0.0, (neg_norm(p, dims, tup(sysa)) - 1) / 2)

    def r_logneg_subsys(psi, dims, sysa, sysb, approx_thresh=2 ** 13, **kw):
        sysa, sysb = tup(sysa), tup(sysb)
        keep = sorted(sysa + sysb)
        rho = rl.ptrace(psi, dims, keep)
        nd = [dims[i] for i in keep]
        na = [keep.index(i) for i in sysa]
        return max(0.0, float(np.log2(rl.trace_norm(rl.partial_transpose(rho, nd, na)))))

    def r_concurrence(p, dims=(2, 2), sysa=0, sysb=1):
        rho = rl.as_dop(p)
        if len(dims) > 2:
            rho = rl.ptrace(rho, dims, (sysa, sysb))
        Y = np.array([[0, -1j], [1j, 0]])
        YY = np.kron(Y, Y)
        R = rho @ YY @ rho.conj() @ YY
        lam = np.sqrt(np.clip(np.sort(np.linalg.eigvals(R).real)[::-1], 0, None))
        return max(0.0, float(lam[0] - lam[1] - lam[2] - lam[3]))

    def r_fidelity(p1, p2, squared=False):
        return rl.fidelity(rl.as_dop(p1), rl.as_dop(p2), squared)

    def r_trace_distance(p1, p2, isherm=True):
        return 0.5 * rl.trace_norm(rl.as_dop(p1) - rl.as_dop(p2))

    def r_schmidt_gap(psi, dims, sysa):
        sysa = tup(sysa)
        if len(sysa) == len(dims) or int(np.prod([dims[i] for i in comp(dims, sysa)])) == 1:
            return 1.0
        ev = np.sort(rl.herm_eigvals(rl.ptrace(psi, dims, sysa)))[::-1]
        evb = np.sort(rl.herm_eigvals(rl.ptrace(psi, dims, comp(dims, sysa))))[::-1]
        ev = ev if len(ev) <= len(evb) else evb
        return float(abs(ev[0] - (ev[1] if len(ev) > 1 else 0.0)))

    def r_tr_sqrt(A, rank=None):
        ev = rl.herm_eigvals(A)
        return float(np.sum(np.sqrt(ev[ev > 0])))

    def r_kraus(rho, Ek, dims=None, where=None, check=False):
        Ek = [rl.dense(e) for e in (Ek if not isinstance(Ek, np.ndarray) else list(Ek))]
        if dims is not None:
            where_ = tup(where)
            Ek = [rl.embed(e, list(dims), list(where_)) for e in Ek]
        return sum(e @ rho @ e.conj().T for e in Ek)

    def r_dephase(rho, p, rand_rank=None):
        d = rho.shape[0]
        return (1 - p) * rho + p * np.eye(d) / d

    def r_correlation(p, A, B, sysa, sysb, dims=None, sparse=None, precomp_func=False):
        rho = rl.as_dop(p)
        if dims is None:
            n = int(round(np.log2(rho.shape[0])))
            dims = (2,) * n
        Ae = rl.embed(A, list(dims), [sysa])
        Be = rl.embed(B, list(dims), [sysb])
        ex = lambda O: np.trace(O @ rho)
        return float((ex(Ae @ Be) - ex(Ae) * ex(Be)).real)

    mon("entropy", "entropy", r_entropy)
    mon("mutinf", "mutinf", r_mutinf, atol=3e-7)
    mon("mutinf_subsys", "mutinf_subsys", r_mutinf_subsys, atol=3e-7,
        domain=lambda psi, dims, sysa, sysb, approx_thresh=2 ** 13, **kw:
        approx_thresh is None or approx_thresh > int(np.prod(dims)))
    mon("logneg", "logneg", r_logneg)
    mon("negativity", "negativity", r_negativity)
    mon("logneg_subsys", "logneg_subsys", r_logneg_subsys,
        domain=lambda psi, dims, sysa, sysb, approx_thresh=2 ** 13, **kw:
        approx_thresh is None or approx_thresh > int(np.prod(dims)))
    mon("concurrence", "concurrence", r_concurrence)
    # Tr sqrt(.) is sqrt-conditioned at zero eigenvalues: rank deficient inputs
    # are judged at 2e-6 (d * sqrt(eps)), full rank ones at 1e-6. (Until the root of a
    # rounding-level negative eigenvalue stopped being taken as imaginary in sqrtm
    # the library was only good to ~1e-4 there and this bound was 2e-4.)
    def fid_domain(p1, p2, squared=False):
        return True

    def pre_fid(p1, p2, squared=False):
        a, b = rl.as_dop(np.array(rl.dense(p1))), rl.as_dop(np.array(rl.dense(p2)))
        deficient = min(np.linalg.eigvalsh(a).min(), np.linalg.eigvalsh(b).min()) < 1e-10
        pure = (np.ndim(p1) == 1 or 1 in np.shape(p1)) or (np.ndim(p2) == 1 or 1 in np.shape(p2))
        return {"want": rl.fidelity(a, b, squared),
                "atol": 1e-6 if (pure or not deficient) else 2e-6}

    def post_fid(snap, result, p1, p2, squared=False):
        err = abs(float(result) - snap["want"])
        rec.check("fidelity", "value", err <= snap["atol"], mech="fidelity:value",
                  detail={"err": err, "squared": squared, "atol": snap["atol"]},
                  sig=(np.shape(p1), np.shape(p2), squared, snap["atol"]))

    attach.install(calc, "fidelity", attach.monitored(rec, "fidelity", pre_fid, post_fid,
                                                      fam="fid"))
    mon("trace_distance", "trace_distance", r_trace_distance, atol=1e-6)
    mon("schmidt_gap", "schmidt_gap", r_schmidt_gap)
    mon("tr_sqrt", "tr_sqrt", r_tr_sqrt, atol=1e-6)
    mon("kraus_op", "kraus_op", r_kraus)
    mon("dephase", "dephase", r_dephase, domain=lambda rho, p, rand_rank=None:
        rand_rank is None)
    mon("correlation", "correlation", r_correlation,
        domain=lambda *a, **k: not k.get("precomp_func", False))

    # entropy_subsys is a closure generated by gen_bipartite_spectral_fn
    def pre_es(psi, dims, sysa, approx_thresh=2 ** 13, **kw):
        stoch = approx_thresh is not None and approx_thresh <= max(
            1, min(int(np.prod([dims[i] for i in tup(sysa)])),
                   int(np.prod(dims)) // int(np.prod([dims[i] for i in tup(sysa)]))))
        return {"want": r_entropy_subsys(np.array(rl.dense(psi)), dims, sysa),
                "stoch": stoch}

    def post_es(snap, result, psi, dims, sysa, approx_thresh=2 ** 13, **kw):
        err = abs(float(result) - snap["want"])
        if snap["stoch"]:
            rec.count("entropy_subsys", "value", "stochastic")
            # stochastic Lanczos estimate: only a sanity band is judged
            ok = err <= 0.25 * max(1.0, snap["want"]) + 0.25
            rec.check("entropy_subsys", "approx_value", ok,
                      mech="entropy_subsys:approx_value",
                      detail={"err": err, "dims": dims, "sysa": sysa},
                      sig=(tuple(dims), tup(sysa), "approx"))
            return
        rec.check("entropy_subsys", "value", err <= ATOL,
                  mech="entropy_subsys:value",
                  detail={"err": err, "dims": dims, "sysa": sysa},
                  sig=(tuple(dims), tup(sysa)))

    attach.install(calc, "entropy_subsys", attach.monitored(
        rec, "entropy_subsys", pre_es, post_es, fam="es"))

    # ---- purify / projector / measure / simulate_counts -------------------
    def pre_purify(rho):
        return {"rho": np.array(rl.dense(rho), copy=True)}

    def post_purify(snap, result, rho):
        d = snap["rho"].shape[0]
        psi = rl.dense(result).reshape(-1)
        ok_n = abs(np.linalg.norm(psi) ** 2 - np.trace(snap["rho"]).real) <= 1e-8
        red = rl.ptrace(psi, [d, d], [0])
        err = float(np.abs(red - snap["rho"]).max())
        rec.check("purify", "reduces_back", ok_n and err <= 1e-7,
                  mech="purify:reduces_back", detail={"err": err, "d": d}, sig=(d,))

    attach.install(calc, "purify", attach.monitored(rec, "purify", pre_purify, post_purify))

    def pre_proj(A, eigenvalue=1.0, tol=1e-12, autoblock=False):
        if isinstance(A, (tuple, list)):
            return None
        return {"A": np.array(rl.dense(A), copy=True)}

    def post_proj(snap, result, A, eigenvalue=1.0, tol=1e-12, autoblock=False):
        A_ = snap["A"]
        P = rl.dense(result)
        ev = np.linalg.eigvalsh(A_)
        mult = int(np.sum(np.abs(ev - eigenvalue) < 1e-9))
        sc = max(1.0, float(np.abs(A_).max()))
        ok = (np.abs(P @ P - P).max() <= 1e-8 and np.abs(P - P.conj().T).max() <= 1e-8
              and np.abs(A_ @ P - eigenvalue * P).max() <= 1e-7 * sc
              and abs(np.trace(P).real - mult) <= 1e-7)
        rec.check("projector", "eigenspace", bool(ok), mech="projector:eigenspace",
                  detail={"eigenvalue": eigenvalue, "mult": mult,
                          "trace": float(np.trace(P).real)},
                  sig=(A_.shape[0], mult, autoblock))

    attach.install(calc, "projector", attach.monitored(rec, "projector", pre_proj, post_proj,
                                                       fam="proj"))

    def pre_measure(p, A, eigenvalue=None, tol=1e-12):
        if isinstance(A, (tuple, list)):
            return None
        return {"p": np.array(rl.dense(p), copy=True), "A": np.array(rl.dense(A), copy=True)}

    def post_measure(snap, result, p, A, eigenvalue=None, tol=1e-12):
        lam, after = result
        A_, p_ = snap["A"], snap["p"]
        ev, vec = np.linalg.eigh(A_)
        sel = np.abs(ev - lam) < 1e-9
        if not sel.any():
            rec.check("measure", "outcome", False, mech="measure:outcome:not_an_eigenvalue",
                      detail={"lam": lam})
            return
        P = vec[:, sel] @ vec[:, sel].conj().T
        rho = rl.as_dop(p_)
        prob = float(np.trace(P @ rho).real)
        rec.check("measure", "outcome", prob > 1e-12, mech="measure:outcome:zero_probability",
                  detail={"lam": float(lam), "prob": prob}, sig=(A_.shape[0], "outcome"))
        if prob <= 1e-12:
            return
        isket = p_.ndim == 1 or 1 in p_.shape
        if isket:
            want = (P @ p_.reshape(-1)) / np.sqrt(prob)
            got = rl.dense(after).reshape(-1)
        else:
            want = P @ rho @ P / prob
            got = rl.dense(after)
        err = float(np.abs(got - want).max())
        rec.check("measure", "post_state", err <= 1e-7, mech="measure:post_state",
                  detail={"err": err, "isket": isket, "forced": eigenvalue is not None},
                  sig=(A_.shape[0], isket, eigenvalue is not None))

    attach.install(calc, "measure", attach.monitored(rec, "measure", pre_measure,
                                                     post_measure, fam="meas"))

    def pre_counts(p, C, phys_dim=2, seed=None):
        return {"p": np.array(rl.dense(p), copy=True)}

    def post_counts(snap, result, p, C, phys_dim=2, seed=None):
        rho = rl.as_dop(snap["p"])
        probs = np.diag(rho).real
        n = int(round(np.log(len(probs)) / np.log(phys_dim)))
        ok = sum(result.values()) == C
        for key in result:
            try:
                ok = ok and len(key) == n and probs[int(key, phys_dim)] > 1e-14
            except (ValueError, IndexError):
                ok = False
        rec.check("simulate_counts", "support", bool(ok), mech="simulate_counts:support",
                  detail={"C": C, "keys": list(result)[:5]}, sig=(len(probs), C))

    attach.install(calc, "simulate_counts", attach.monitored(
        rec, "simulate_counts", pre_counts, post_counts))

    # ---- discord ------------------------------------------------------------
    def pre_disc(p, dims=(2, 2), sysa=0, sysb=1, **kw):
        rho = rl.as_dop(np.array(rl.dense(p), copy=True))
        if len(dims) > 2:
            rho = rl.ptrace(rho, dims, (sysa, sysb))
        if sysa > sysb:
            # A is the first named subsystem, B (the measured one) the second,
            # whatever their position: the reduced state above is position ordered
            rho = rho.reshape(2, 2, 2, 2).transpose(1, 0, 3, 2).reshape(4, 4)
        iab = S(rl.ptrace(rho, [2, 2], [0])) + S(rl.ptrace(rho, [2, 2], [1])) - S(rho)
        sa = S(rl.ptrace(rho, [2, 2], [0]))
        best = np.inf
        for th in np.linspace(0, np.pi, 60):
            for ph in np.linspace(0, 2 * np.pi, 120, endpoint=False):
                nvec = np.array([np.sin(th) * np.cos(ph), np.sin(th) * np.sin(ph), np.cos(th)])
                X = np.array([[0, 1], [1, 0]])
                Y = np.array([[0, -1j], [1j, 0]])
                Z = np.diag([1.0, -1.0])
                pr = 0.5 * (np.eye(2) + nvec[0] * X + nvec[1] * Y + nvec[2] * Z)
                cond = 0.0
                for prj in (pr, np.eye(2) - pr):
                    M = np.kron(np.eye(2), prj) @ rho
                    pj = np.trace(M).real
                    if pj > 1e-14:
                        ra = rl.ptrace(M, [2, 2], [0]) / pj
                        cond += pj * S((ra + ra.conj().T) / 2)
                val = iab - (sa - cond)
                best = min(best, val)
        return {"want": max(best, 0.0)}

    def post_disc(snap, result, p, dims=(2, 2), sysa=0, sysb=1, **kw):
        err = abs(float(result) - snap["want"])
        rec.check("quantum_discord", "value", err <= 3e-3, mech="quantum_discord:value",
                  detail={"got": float(result), "want": snap["want"]},
                  sig=(tuple(dims), sysa, sysb))

    attach.install(calc, "quantum_discord", attach.monitored(
        rec, "quantum_discord", pre_disc, post_disc, fam="disc"))


# ---------------------------------------------------------------------------
# workloads
# ---------------------------------------------------------------------------

def rand_dims(rng, nmin=2, nmax=4, Dmax=64):
    while True:
        n = int(rng.integers(nmin, nmax + 1))
        dims = [int(rng.integers(1, 5)) for _ in range(n)]
        D = int(np.prod(dims))
        if 4 <= D <= Dmax and sum(d > 1 for d in dims) >= 2:
            return dims


def rand_state(rng, D, kind):
    if kind == "pure":
        v = gen.rand_array(rng, (D, 1), "complex128")
        return v / np.linalg.norm(v)
    if kind == "product":
        return None
    r = {"mixed1": 1, "mixed2": 2, "mixedfull": D}.get(kind, int(rng.integers(1, D + 1)))
    v = gen.rand_array(rng, (D, r), "complex128")
    rho = v @ v.conj().T
    return rho / np.trace(rho).real


def rand_unitary(rng, d):
    q, r = np.linalg.qr(gen.rand_array(rng, (d, d), "complex128"))
    return q * (np.diag(r) / np.abs(np.diag(r)))


def subset(rng, n, proper=True):
    k = int(rng.integers(1, n if proper else n + 1))
    s = [int(x) for x in rng.choice(n, size=k, replace=False)]
    if rng.random() < 0.5:
        s = sorted(s)
    return s


def wl_bipartite(rng, rec, tier):
    """entropies, mutual information, negativities + metamorphic relations"""
    import quimb as qu
    dims = rand_dims(rng)
    n = len(dims)
    D = int(np.prod(dims))
    kind = gen.choice(rng, ["pure", "mixed1", "mixed2", "mixedfull", "mixed"])
    st = rand_state(rng, D, kind)
    ispure = kind == "pure"
    sysa = subset(rng, n)
    sa_arg = sysa[0] if len(sysa) == 1 and rng.random() < 0.5 else sysa
    desc = {"dims": dims, "kind": kind, "sysa": sysa}
    vals = {}
    p = qu.qu(st)
    vals["mutinf"] = gen.attempt(qu.mutinf, p, dims, sa_arg)
    vals["logneg"] = gen.attempt(qu.logneg, p, dims, sa_arg)
    vals["neg"] = gen.attempt(qu.negativity, p, dims, sa_arg)
    if ispure:
        vals["es"] = gen.attempt(qu.entropy_subsys, p, dims, sa_arg)
        gen.attempt(qu.schmidt_gap, p, dims, sa_arg)
        # S(A) == S(B) for pure states
        sb = [i for i in range(n) if i not in sysa]
        esb = gen.attempt(qu.entropy_subsys, p, dims, sb)
        if vals["es"] is not None and esb is not None:
            rec.check("relation", "pure_SA_eq_SB", abs(vals["es"] - esb) <= 1e-7,
                      mech="relation:pure_SA_eq_SB", detail=desc, sig=(tuple(dims), tuple(sysa)))
        # ket == projector
        proj = qu.qu(st @ st.conj().T)
        for name, fn in (("mutinf", qu.mutinf), ("logneg", qu.logneg), ("neg", qu.negativity)):
            v2 = gen.attempt(fn, proj, dims, sa_arg)
            if vals[name] is not None and v2 is not None:
                rec.check("relation", "ket_eq_projector", abs(vals[name] - v2) <= 2e-6,
                          mech=f"relation:ket_eq_projector:{name}",
                          detail=dict(desc, a=vals[name], b=v2),
                          sig=(name, tuple(dims), tuple(sysa)))
    else:
        rho_a = qu.ptr(p, dims, sysa)
        gen.attempt(qu.entropy, rho_a)
        gen.attempt(qu.entropy, np.linalg.eigvalsh(rho_a))
        gen.attempt(qu.tr_sqrt, rho_a)
        if kind in ("mixed1", "mixed2"):
            gen.attempt(qu.mutinf, p, dims, sa_arg, rank={"mixed1": 1, "mixed2": 2}[kind])
    # bounds
    if vals["mutinf"] is not None:
        rec.check("relation", "mutinf_nonneg", vals["mutinf"] >= -1e-7,
                  mech="relation:mutinf_nonneg", detail=dict(desc, v=vals["mutinf"]))
    if vals["logneg"] is not None and vals["neg"] is not None:
        rec.check("relation", "logneg_vs_neg",
                  abs(vals["logneg"] - np.log2(2 * vals["neg"] + 1)) <= 1e-6,
                  mech="relation:logneg_vs_neg", detail=dict(desc, **vals),
                  sig=(tuple(dims), tuple(sysa), kind))
    # local unitary invariance + consistent relabelling
    Us = [rand_unitary(rng, d) for d in dims]
    U = rl.kron_all(Us)
    st2 = U @ st if ispure else U @ st @ U.conj().T
    perm = [int(x) for x in rng.permutation(n)]
    st3 = rl.permute(st, dims, perm)
    dims3 = [dims[i] for i in perm]
    sysa3 = [perm.index(i) for i in sysa]
    for name, fn in (("mutinf", qu.mutinf), ("logneg", qu.logneg), ("neg", qu.negativity)):
        if vals[name] is None:
            continue
        v2 = gen.attempt(fn, qu.qu(st2), dims, sa_arg)
        if v2 is not None:
            rec.check("relation", "local_unitary", abs(v2 - vals[name]) <= 2e-6,
                      mech=f"relation:local_unitary:{name}",
                      detail=dict(desc, a=vals[name], b=v2),
                      sig=(name, tuple(dims), tuple(sysa), kind))
        v3 = gen.attempt(fn, qu.qu(st3), dims3, sysa3)
        if v3 is not None:
            rec.check("relation", "relabelling", abs(v3 - vals[name]) <= 2e-6,
                      mech=f"relation:relabelling:{name}",
                      detail=dict(desc, perm=perm, a=vals[name], b=v3),
                      sig=(name, tuple(dims), tuple(sysa), tuple(perm)))
    return desc


def wl_tripartite(rng, rec, tier):
    import quimb as qu
    dims = rand_dims(rng, nmin=3, nmax=5, Dmax=96)
    n = len(dims)
    D = int(np.prod(dims))
    psi = rand_state(rng, D, "pure")
    k = int(rng.integers(2, n + 1))
    chosen = [int(x) for x in rng.choice(n, size=k, replace=False)]
    cut = int(rng.integers(1, k))
    sysa, sysb = chosen[:cut], chosen[cut:]
    desc = {"dims": dims, "sysa": sysa, "sysb": sysb}
    p = qu.qu(psi)
    mi = gen.attempt(qu.mutinf_subsys, p, dims, sysa, sysb)
    ln = gen.attempt(qu.logneg_subsys, p, dims, sysa, sysb)
    # exact vs shortcut: the same quantity through ptr + mixed-state function
    keep = sorted(sysa + sysb)
    rho = qu.ptr(p, dims, keep)
    nd = [dims[i] for i in keep]
    na = [keep.index(i) for i in sysa]
    if len(keep) < n or True:
        v = gen.attempt(qu.logneg, rho, nd, na)
        if ln is not None and v is not None:
            rec.check("relation", "exact_eq_shortcut", abs(ln - v) <= 2e-6,
                      mech="relation:exact_eq_shortcut:logneg", detail=dict(desc, a=ln, b=v),
                      sig=(tuple(dims), tuple(sysa), tuple(sysb)))
    if mi is not None:
        # sub-additivity  I >= 0
        rec.check("relation", "mutinf_nonneg", mi >= -1e-7,
                  mech="relation:mutinf_nonneg", detail=dict(desc, v=mi))
    # forced stochastic branch (fixed seed), judged loosely
    if rng.random() < 0.15 and D >= 16:
        qu.seed_rand(int(rng.integers(1 << 30)))
        gen.attempt(qu.entropy_subsys, p, dims, sysa, approx_thresh=1)
    return desc


def wl_two_qubit(rng, rec, tier):
    import quimb as qu
    kind = gen.choice(rng, ["pure", "werner", "mixed", "product", "bell", "embedded"])
    dims = (2, 2)
    if kind == "pure":
        st = rand_state(rng, 4, "pure")
    elif kind == "werner":
        pw = float(rng.uniform(0, 1))
        b = np.array([0, 1, -1, 0]) / np.sqrt(2)
        st = pw * np.outer(b, b) + (1 - pw) * np.eye(4) / 4
    elif kind == "product":
        a = rand_state(rng, 2, "mixed")
        b = rand_state(rng, 2, "mixed")
        st = np.kron(a, b)
    elif kind == "bell":
        st = np.asarray(qu.bell_state(int(rng.integers(0, 4))))
    elif kind == "embedded":
        dims = (2, 3, 2) if rng.random() < 0.5 else (2, 2, 2)
        st = rand_state(rng, int(np.prod(dims)), gen.choice(rng, ["pure", "mixed2"]))
    else:
        st = rand_state(rng, 4, "mixed")
    p = qu.qu(st)
    desc = {"kind": kind, "dims": dims}
    if kind == "embedded":
        sysa, sysb = (0, 2) if rng.random() < 0.5 else (2, 0)
        c = gen.attempt(qu.concurrence, p, dims, sysa, sysb)
        if tier == "thorough" or rng.random() < 0.2:
            gen.attempt(qu.quantum_discord, p, dims, sysa, sysb)
        return desc
    c = gen.attempt(qu.concurrence, p)
    if kind in ("pure", "bell") and c is not None:
        v = np.asarray(st).reshape(-1)
        rec.check("relation", "pure_concurrence_2det",
                  abs(c - 2 * abs(v[0] * v[3] - v[1] * v[2])) <= 1e-7,
                  mech="relation:pure_concurrence_2det", detail=desc, sig=(kind,))
    if kind == "product" and c is not None:
        rec.check("relation", "product_state_unentangled", c <= 1e-6,
                  mech="relation:product_state_unentangled", detail=dict(desc, c=c))
    if tier == "thorough" or rng.random() < 0.15:
        if rng.random() < 0.5:
            gen.attempt(qu.quantum_discord, p)
        else:
            gen.attempt(qu.quantum_discord, p, (2, 2), 1, 0)     # measure the first qubit
    # local unitary invariance of concurrence
    U = np.kron(rand_unitary(rng, 2), rand_unitary(rng, 2))
    st2 = U @ st if st.ndim == 1 or 1 in st.shape else U @ st @ U.conj().T
    c2 = gen.attempt(qu.concurrence, qu.qu(st2))
    if c is not None and c2 is not None:
        rec.check("relation", "local_unitary", abs(c - c2) <= 2e-6,
                  mech="relation:local_unitary:concurrence", detail=dict(desc, a=c, b=c2),
                  sig=("conc", kind))
    return desc


def wl_distances(rng, rec, tier):
    import quimb as qu
    d = int(gen.choice(rng, [2, 3, 4, 6, 8]))
    k1 = gen.choice(rng, ["pure", "mixed", "mixed2"])
    k2 = gen.choice(rng, ["pure", "mixed", "mixed2"])
    a, b = rand_state(rng, d, k1), rand_state(rng, d, k2)
    pa, pb = qu.qu(a), qu.qu(b)
    sq = bool(rng.random() < 0.4)
    f = gen.attempt(qu.fidelity, pa, pb, squared=sq)
    f2 = gen.attempt(qu.fidelity, pb, pa, squared=sq)
    t = gen.attempt(qu.trace_distance, pa, pb)
    desc = {"d": d, "k1": k1, "k2": k2, "squared": sq}
    if f is not None and f2 is not None:
        ftol = 2e-6 if (k1 == "pure" or k2 == "pure") else 4e-6
        rec.check("relation", "fidelity_symmetric", abs(f - f2) <= ftol,
                  mech="relation:fidelity_symmetric", detail=dict(desc, a=f, b=f2),
                  sig=(d, k1, k2, sq))
        rec.check("relation", "fidelity_in_unit_interval", -1e-7 <= f <= 1 + 1e-6,
                  mech="relation:fidelity_in_unit_interval", detail=dict(desc, f=f))
    if f is not None and t is not None:
        F = f if not sq else max(f, 0.0) ** 0.5
        # Fuchs - van de Graaf
        rec.check("relation", "fuchs_van_de_graaf",
                  1 - F - 4e-4 <= t <= np.sqrt(max(0.0, 1 - F ** 2)) + 2e-2 * (F > 0.999) + 4e-4,
                  mech="relation:fuchs_van_de_graaf", detail=dict(desc, F=F, T=t),
                  sig=(d, k1, k2, "fvg"))
    # sparse == dense for operators
    if k1 != "pure" and k2 != "pure" and rng.random() < 0.3:
        gen.attempt(qu.trace_distance, pa, pb, isherm=False)
    return desc


def wl_maps(rng, rec, tier):
    import quimb as qu
    dims = rand_dims(rng, nmin=2, nmax=3, Dmax=36)
    n = len(dims)
    D = int(np.prod(dims))
    rho = rand_state(rng, D, "mixed")
    p = qu.qu(rho)
    desc = {"dims": dims}
    # kraus on a random ordered subset
    where = subset(rng, n, proper=False)
    dk = int(np.prod([dims[i] for i in where]))
    K = int(rng.integers(1, 4))
    Ek = [gen.rand_array(rng, (dk, dk), "complex128") for _ in range(K)]
    # make them a channel
    Ssum = sum(e.conj().T @ e for e in Ek)
    w, v = np.linalg.eigh(Ssum)
    isq = (v / np.sqrt(w)) @ v.conj().T
    Ek = [e @ isq for e in Ek]
    gen.attempt(qu.kraus_op, p, Ek if rng.random() < 0.5 else np.stack(Ek),
                dims=dims, where=where if len(where) > 1 or rng.random() < 0.5 else where[0],
                check=bool(rng.random() < 0.5))
    if dk == D:
        gen.attempt(qu.kraus_op, p, Ek)
    gen.attempt(qu.dephase, p, float(rng.uniform(0, 1)))
    gen.attempt(qu.purify, p)
    # observable with a degenerate spectrum
    vals = rng.integers(-2, 3, size=D).astype(float)
    q = rand_unitary(rng, D)
    A = qu.qu((q * vals) @ q.conj().T)
    ev = float(gen.choice(rng, list(vals)))
    gen.attempt(qu.projector, A, ev)
    psi = qu.qu(rand_state(rng, D, "pure"))
    np.random.seed(int(rng.integers(1 << 30)))
    gen.attempt(qu.measure, psi if rng.random() < 0.5 else p, A)
    gen.attempt(qu.measure, psi if rng.random() < 0.5 else p, A, eigenvalue=ev)
    # correlations
    if n >= 2:
        i, j = [int(x) for x in rng.choice(n, size=2, replace=False)]
        A1 = gen.rand_array(rng, (dims[i], dims[i]), "complex128")
        B1 = gen.rand_array(rng, (dims[j], dims[j]), "complex128")
        A1 = A1 + A1.conj().T
        B1 = B1 + B1.conj().T
        gen.attempt(qu.correlation, p if rng.random() < 0.5 else psi, A1, B1, i, j, dims=dims)
    # counts on qubits
    nq = int(rng.integers(1, 5))
    v = rand_state(rng, 2 ** nq, "pure")
    v[rng.random(v.shape) < 0.4] = 0
    if np.linalg.norm(v) > 0:
        v = v / np.linalg.norm(v)
        gen.attempt(qu.simulate_counts, qu.qu(v), int(rng.integers(1, 200)),
                    seed=int(rng.integers(1 << 30)))
    # ... and on qutrits / ququarts
    dloc = int(gen.choice(rng, [3, 4]))
    nq = int(rng.integers(1, 4))
    v = rand_state(rng, dloc ** nq, "pure")
    v[rng.random(v.shape) < 0.5] = 0
    if np.linalg.norm(v) > 0:
        v = v / np.linalg.norm(v)
        gen.attempt(qu.simulate_counts, qu.qu(v), int(rng.integers(1, 100)), phys_dim=dloc,
                    seed=int(rng.integers(1 << 30)))
    # dephasing with a random diagonal of a given rank: an integer is a count
    dd = int(gen.choice(rng, [2, 3, 4]))
    rho_ = qu.qu(rand_state(rng, dd, "mixed"))
    rk = int(rng.integers(1, dd + 1))
    out = gen.attempt2(qu.dephase, rho_, 1.0, rand_rank=rk)
    if out is not gen.REJECTED:
        o = np.asarray(out)
        off = float(np.abs(o - np.diag(np.diag(o))).max())
        nz = int(np.sum(np.abs(np.diag(o)) > 1e-12))
        rec.check("dephase", "rand_rank", off <= 1e-12 and nz == rk and abs(np.trace(o) - 1) <= 1e-9,
                  mech="dephase:rand_rank:integer_count_not_honoured", detail={"d": dd, "rand_rank": rk, "nonzero": nz},
                  sig=("dephase_rank", dd, rk))
    return desc


WORKLOADS = [
    ("bipartite", 5, wl_bipartite),
    ("tripartite", 3, wl_tripartite),
    ("two_qubit", 3, wl_two_qubit),
    ("distances", 3, wl_distances),
    ("maps", 3, wl_maps),
]
