"""One worker process: installs the monitors of a property, drives its
workloads for the case indices of this shard, dumps what the monitors saw."""

import argparse
import faulthandler
import importlib
import json
import os
import sys
import time
import traceback

import numpy as np


def pick_workload(workloads, idx):
    total = sum(w for _, w, _ in workloads)
    r = ((idx * 1103515245 + 12345) >> 8) % total
    for name, w, fn in workloads:
        if r < w:
            return name, fn
        r -= w
    raise AssertionError


def classify_exception(exc):
    """'library' if the innermost frame with a real file is quimb / third
    party, 'harness' if it is under /verif."""
    tb = exc.__traceback__
    last = None
    while tb is not None:
        last = tb.tb_frame.f_code.co_filename
        tb = tb.tb_next
    here = os.path.dirname(os.path.abspath(__file__))
    # (compiled extension modules report relative .pyx paths: only an absolute
    # path under /verif is ours)
    if last is not None and os.path.isabs(last) and os.path.abspath(last).startswith(os.path.dirname(here)):
        return "harness"
    return "library"


def run_case(mod, rec, name, fn, seed, idx, tier):
    from .core import jsonable
    rng = np.random.default_rng([seed, int(mod.PROP[1:]), idx])
    # library code that draws from numpy's global generator (random initial
    # states, probes) must replay too
    np.random.seed((seed * 1000003 + int(mod.PROP[1:]) * 7919 + idx) % (2 ** 32))
    rec.case = {"prop": mod.PROP, "workload": name, "seed": seed, "idx": idx,
                "tier": tier}
    try:
        desc = fn(rng, rec, tier)
        rec.note("cases_run")
        rec.note("wl:" + name)
        if desc is not None and rec.notes.get("descs", 0) < 6:
            rec.note("descs")
            rec.case_descs.append({"workload": name, "idx": idx,
                                   "case": jsonable(desc)})
    except Exception as e:  # noqa
        kind = classify_exception(e)
        rec.note("cases_raised_" + kind)
        rec.note(f"raise:{name}:{type(e).__name__}")
        if kind == "harness" and len(rec.errors) < 30:
            rec.errors.append({"entry": "workload:" + name,
                               "error": repr(e)[:300],
                               "tb": traceback.format_exc(limit=-5)[-1800:],
                               "case": jsonable(rec.case)})
    finally:
        rec.case = None


def main(argv=None):
    ap = argparse.ArgumentParser()
    ap.add_argument("--prop", required=True)
    ap.add_argument("--tier", default="quick")
    ap.add_argument("--seed", type=int, default=0)
    ap.add_argument("--shard", type=int, default=0)
    ap.add_argument("--nshards", type=int, default=1)
    ap.add_argument("--out", required=True)
    ap.add_argument("--budget", type=float, default=None)
    ap.add_argument("--ncases", type=int, default=None)
    ap.add_argument("--replay", default=None)
    ap.add_argument("--only", default=None, help="restrict to one workload")
    ap.add_argument("--start", type=int, default=None,
                    help="resume at this case index (after a crash of the library)")
    args = ap.parse_args(argv)

    faulthandler.enable()
    from .core import Recorder

    mod = importlib.import_module(f"qmon.props.{args.prop.lower()}")
    rec = Recorder(mod.PROP)
    rec.case_descs = []
    t0 = time.time()
    mod.install(rec)
    rec.note("install_s", round(time.time() - t0, 2))
    # the case budget starts once the library is imported and the monitors are
    # attached (a cold numba cache makes the import itself slow)
    t0 = time.time()
    workloads = mod.WORKLOADS
    if args.only:
        workloads = [w for w in workloads if w[0] == args.only]

    if args.replay:
        ev = json.load(open(args.replay))
        case = ev["case"]
        wl = {n: f for n, _, f in mod.WORKLOADS}
        run_case(mod, rec, case["workload"], wl[case["workload"]],
                 int(case["seed"]), int(case["idx"]), case.get("tier", "quick"))
    else:
        ncases = args.ncases or mod.NCASES[args.tier]
        budget = args.budget or mod.BUDGET[args.tier]
        done = 0
        first = args.shard if args.start is None else args.start
        last_ckpt = time.time()

        def checkpoint(path):
            o = rec.dump()
            o["case_descs"] = rec.case_descs
            o["shard"] = args.shard
            o["notes"] = dict(o["notes"], cases_attempted=done)
            with open(path + ".tmp", "w") as f:
                json.dump(o, f)
            os.replace(path + ".tmp", path)

        for idx in range(first, ncases, args.nshards):
            if time.time() - t0 > budget:
                rec.note("budget_exhausted")
                break
            name, fn = pick_workload(workloads, idx)
            # where we are, for the parent, should the library take the
            # process down (SIGSEGV / abort inside a JIT kernel)
            with open(args.out + ".cur.tmp", "w") as f:
                f.write(json.dumps({"workload": name, "idx": idx, "seed": args.seed,
                                    "tier": args.tier, "prop": mod.PROP}))
            os.replace(args.out + ".cur.tmp", args.out + ".cur")
            run_case(mod, rec, name, fn, args.seed, idx, args.tier)
            done += 1
            if time.time() - last_ckpt > 5.0:
                checkpoint(args.out + ".part")
                last_ckpt = time.time()
        rec.note("cases_attempted", done)

    out = rec.dump()
    out["case_descs"] = rec.case_descs
    out["shard"] = args.shard
    tmp = args.out + ".tmp"
    with open(tmp, "w") as f:
        json.dump(out, f)
    os.replace(tmp, args.out)
    return 0


if __name__ == "__main__":
    sys.exit(main())
