"""pytest plugin (thorough tier): run the repository's own tests as an extra
workload with the monitors of one property installed.

Environment: QMON_PROP (e.g. C05), QMON_SUITE_OUT (directory; one JSON per
process), QMON_SEED.  The tests' own assertions are irrelevant here (their
outcome is ignored by check.py): what counts is what the monitors observe while
the tests drive the library.  Monitors never raise into the tests."""

import importlib
import json
import os

_REC = None
_MOD = None


def pytest_configure(config):
    global _REC, _MOD
    prop = os.environ.get("QMON_PROP")
    if not prop:
        return
    from qmon.core import Recorder
    _MOD = importlib.import_module(f"qmon.props.{prop.lower()}")
    _REC = Recorder(_MOD.PROP)
    _REC.case_descs = []
    _REC.case = {"prop": _MOD.PROP, "workload": "suite", "seed": int(os.environ.get("QMON_SEED", "0")),
                 "idx": -1, "tier": "thorough", "test": None}
    _MOD.install(_REC)


def pytest_runtest_setup(item):
    if _REC is not None:
        _REC.case = dict(_REC.case, test=item.nodeid)
        _REC.note("suite_tests")


def pytest_sessionfinish(session, exitstatus):
    if _REC is None:
        return
    outdir = os.environ.get("QMON_SUITE_OUT")
    if not outdir:
        return
    os.makedirs(outdir, exist_ok=True)
    out = _REC.dump()
    out["case_descs"] = []
    out["shard"] = "suite"
    wid = os.environ.get("PYTEST_XDIST_WORKER", "main")
    path = os.path.join(outdir, f"suite.{wid}.{os.getpid()}.json")
    with open(path + ".tmp", "w") as f:
        json.dump(out, f)
    os.replace(path + ".tmp", path)
