"""Attach layer: install monitor wrappers on real quimb callables and re-bind
every captured reference (partialmethods, partials, from-imports, registries,
class aliases) so internal calls hit the monitor too.
"""

import functools
import sys
import types

_INSTALLED = {}  # (id(owner), name) -> original


def _quimb_modules():
    for name, mod in list(sys.modules.items()):
        if mod is not None and (name == "quimb" or name.startswith("quimb.")):
            yield mod


def _quimb_classes():
    seen = set()
    for mod in _quimb_modules():
        for v in list(vars(mod).values()):
            if isinstance(v, type) and getattr(v, "__module__", "").startswith("quimb"):
                if id(v) not in seen:
                    seen.add(id(v))
                    yield v


def rebind(original, wrapper):
    """Replace every captured reference to ``original`` by ``wrapper``.
    Returns the number of re-bound references."""
    n = 0
    for mod in _quimb_modules():
        d = vars(mod)
        for k, v in list(d.items()):
            if v is original:
                d[k] = wrapper
                n += 1
            elif isinstance(v, functools.partial) and v.func is original:
                d[k] = functools.partial(wrapper, *v.args, **(v.keywords or {}))
                n += 1
            elif isinstance(v, dict) and not k.startswith("__"):
                try:
                    for kk, vv in list(v.items()):
                        if vv is original:
                            v[kk] = wrapper
                            n += 1
                except Exception:
                    pass
    for cls in _quimb_classes():
        for k, v in list(vars(cls).items()):
            try:
                if v is original:
                    setattr(cls, k, wrapper)
                    n += 1
                elif isinstance(v, functools.partialmethod) and v.func is original:
                    setattr(cls, k, functools.partialmethod(
                        wrapper, *v.args, **(v.keywords or {})))
                    n += 1
                elif isinstance(v, staticmethod) and v.__func__ is original:
                    setattr(cls, k, staticmethod(wrapper))
                    n += 1
                elif isinstance(v, classmethod) and v.__func__ is original:
                    setattr(cls, k, classmethod(wrapper))
                    n += 1
            except (AttributeError, TypeError):
                pass
    return n


def resolve(owner, name):
    """Return the raw function stored under owner.name (unwrapping
    staticmethod/classmethod) and its kind."""
    raw = vars(owner)[name] if isinstance(owner, type) else getattr(owner, name)
    if isinstance(raw, staticmethod):
        return raw.__func__, "static"
    if isinstance(raw, classmethod):
        return raw.__func__, "class"
    return raw, "plain"


def install(owner, name, make_wrapper):
    """owner: module or class; make_wrapper(original) -> wrapper (use
    functools.wraps).  Idempotent."""
    if isinstance(owner, type) and name not in vars(owner):
        # inherited: install on the class that defines it
        for base in owner.__mro__:
            if name in vars(base):
                owner = base
                break
    key = (id(owner), name)
    if key in _INSTALLED:
        return 0
    original, kind = resolve(owner, name)
    if isinstance(original, functools.partialmethod):
        raise TypeError(f"{name} is a partialmethod; wrap its target instead")
    wrapper = make_wrapper(original)
    wrapper.__qmon_original__ = original
    _INSTALLED[key] = original
    if kind == "static":
        setattr(owner, name, staticmethod(wrapper))
    elif kind == "class":
        setattr(owner, name, classmethod(wrapper))
    else:
        setattr(owner, name, wrapper)
    n = 1
    if isinstance(original, types.FunctionType):
        n += rebind(original, wrapper)
    return n


# numpy floating-point error state for the monitored library call itself (None =
# leave alone).  Set by a property module for interpreter-mode passes
# (NUMBA_DISABLE_JIT=1), where a division by zero inside a kernel silently gives
# NaN while the compiled kernel raises ZeroDivisionError: with
# {"divide": "raise", "invalid": "raise"} the interpreted pass fails as loudly as
# the compiled one instead of reporting values the compiled code never returns.
CALL_ERRSTATE = None
_PLAIN = {"divide": "warn", "invalid": "warn", "over": "warn", "under": "ignore"}


def _call(fn, a, k):
    if CALL_ERRSTATE is None:
        return fn(*a, **k)
    import numpy as np
    with np.errstate(**CALL_ERRSTATE):
        return fn(*a, **k)


def _oracle(fn, *a, **k):
    if CALL_ERRSTATE is None:
        return fn(*a, **k)
    import numpy as np
    with np.errstate(**_PLAIN):
        return fn(*a, **k)


def monitored(rec, entry, pre, post, fam="_", on_reject=None):
    """Build a make_wrapper for ``install``.

    pre(*a, **k) -> snapshot (anything; None = do not check this call)
    post(snapshot, result, *a, **k) -> None  (records through rec)
    Both run with rec.busy set so that oracle code calling quimb is not
    itself monitored.  Exceptions from the monitored call are recorded as
    ``rejected`` and re-raised unchanged; exceptions inside pre/post are
    recorded as monitor errors and swallowed.
    """

    def make(fn):
        @functools.wraps(fn)
        def wrapper(*a, **k):
            if not rec.enabled or rec.busy:
                return fn(*a, **k)
            snap = None
            rec.busy = True
            try:
                snap = _oracle(pre, *a, **k)
            except Exception as e:  # noqa
                rec.monitor_error(entry + ":pre", e)
                snap = None
            finally:
                rec.busy = False
            rec.push(fam)
            try:
                out = _call(fn, a, k)
            except BaseException as e:
                rec.pop(fam)
                rec.count(entry, "_call", "rejected")
                if on_reject is not None and snap is not None:
                    rec.busy = True
                    try:
                        _oracle(on_reject, snap, e, *a, **k)
                    except Exception as e2:  # noqa
                        rec.monitor_error(entry + ":reject", e2)
                    finally:
                        rec.busy = False
                raise
            rec.pop(fam)
            if snap is None:
                rec.count(entry, "_call", "unmonitored")
                return out
            rec.busy = True
            try:
                _oracle(post, snap, out, *a, **k)
            except Exception as e:  # noqa
                rec.monitor_error(entry + ":post", e)
            finally:
                rec.busy = False
            return out

        return wrapper

    return make
