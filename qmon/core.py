"""Event recorder, tolerance helpers and quimb <-> reference glue.

The recorder never raises into library code: monitors call ``rec.check`` /
``rec.note`` and return.
"""

import collections
import hashlib
import json
import os
import threading
import time
import traceback

import numpy as np

from .ref import value as refv

VERIF_ROOT = os.path.dirname(os.path.dirname(os.path.abspath(__file__)))
REPO_ROOT = os.environ.get("QUIMB_REPO", "/repo")


def jsonable(x, depth=0):
    if depth > 6:
        return repr(x)[:200]
    if isinstance(x, (str, int, bool)) or x is None:
        return x
    if isinstance(x, float):
        return x if np.isfinite(x) else repr(x)
    if isinstance(x, (np.integer,)):
        return int(x)
    if isinstance(x, (np.floating,)):
        return jsonable(float(x))
    if isinstance(x, complex) or isinstance(x, np.complexfloating):
        return {"re": jsonable(float(x.real)), "im": jsonable(float(x.imag))}
    if isinstance(x, np.ndarray):
        if x.size <= 16:
            return {"array": [jsonable(v) for v in x.ravel().tolist()],
                    "shape": list(x.shape), "dtype": str(x.dtype)}
        return {"array_shape": list(x.shape), "dtype": str(x.dtype)}
    if isinstance(x, dict):
        return {str(k): jsonable(v, depth + 1) for k, v in list(x.items())[:60]}
    if isinstance(x, (list, tuple, set, frozenset)):
        return [jsonable(v, depth + 1) for v in list(x)[:60]]
    return repr(x)[:200]


class Recorder:
    """Per-process monitor state."""

    def __init__(self, prop):
        self.prop = prop
        self.enabled = True
        self.tls = threading.local()
        self.lock = threading.Lock()
        # (entry, clause, kind) -> count ; kind in ok/violation/ambiguous/
        # unreferenced/rejected/out_of_domain/monitor_error
        self.counters = collections.Counter()
        self.violations = []
        self.samples = {}
        self.sigs = set()
        self.case = None  # replay handle of the case being driven
        self.notes = collections.Counter()
        self.errors = []
        self.max_violations = 200
        self.t0 = time.time()

    # -- thread-local helpers ------------------------------------------
    @property
    def busy(self):
        return getattr(self.tls, "busy", False)

    @busy.setter
    def busy(self, v):
        self.tls.busy = v

    def depth(self, fam="_"):
        return getattr(self.tls, "d_" + fam, 0)

    def push(self, fam="_"):
        setattr(self.tls, "d_" + fam, self.depth(fam) + 1)

    def pop(self, fam="_"):
        setattr(self.tls, "d_" + fam, self.depth(fam) - 1)

    # -- recording ------------------------------------------------------
    def note(self, key, n=1):
        with self.lock:
            self.notes[key] += n

    def count(self, entry, clause, kind, n=1):
        with self.lock:
            self.counters[(entry, clause, kind)] += n

    def sig(self, *parts):
        """register a distinct non-trivial case signature"""
        h = hashlib.sha1(repr(parts).encode()).hexdigest()[:16]
        with self.lock:
            self.sigs.add(h)

    def check(self, entry, clause, ok, mech=None, detail=None, sig=None):
        """ok: True (held), False (violated), None (ambiguous)."""
        if ok is not None:
            ok = bool(ok)  # numpy bools are not `is True` / `is False`
        kind = "ok" if ok is True else ("ambiguous" if ok is None else "violation")
        self.count(entry, clause, kind)
        if sig is not None and ok is True:
            self.sig(entry, clause, sig)
        if ok is False:
            ev = {
                "property": self.prop,
                "entry": entry,
                "clause": clause,
                "mech": mech or f"{entry}:{clause}",
                "detail": jsonable(detail),
                "case": jsonable(self.case),
            }
            with self.lock:
                if len(self.violations) < self.max_violations:
                    self.violations.append(ev)
        elif ok is True:
            key = (entry, clause)
            with self.lock:
                if key not in self.samples and len(self.samples) < 40:
                    self.samples[key] = {
                        "entry": entry, "clause": clause,
                        "case": jsonable(self.case),
                        "observed": jsonable(detail),
                    }
        return ok

    def monitor_error(self, entry, exc):
        self.count(entry, "_monitor", "monitor_error")
        tb = traceback.format_exc(limit=-4)
        with self.lock:
            if len(self.errors) < 30:
                self.errors.append({"entry": entry, "error": repr(exc)[:300],
                                    "tb": tb[-1500:], "case": jsonable(self.case)})

    def dump(self):
        return {
            "property": self.prop,
            "counters": [[*k, v] for k, v in sorted(self.counters.items())],
            "violations": self.violations,
            "samples": list(self.samples.values()),
            "sigs": sorted(self.sigs),
            "notes": dict(self.notes),
            "errors": self.errors,
            "wall_s": time.time() - self.t0,
        }


# ---------------------------------------------------------------------
# tolerances
# ---------------------------------------------------------------------

def eps_of(*dtypes):
    e = 2.3e-16
    for dt in dtypes:
        try:
            dt = np.dtype(dt)
        except TypeError:
            continue
        if dt.kind in "fc":
            e = max(e, float(np.finfo(dt).eps))
    return e


def dtypes_of(arrays):
    out = []
    for a in arrays:
        dt = getattr(a, "dtype", None)
        if dt is not None:
            out.append(str(dt))
    return out


def close(got, ref, scale, eps, factor=1e4, rel=0.0):
    """|got-ref|_max <= factor*eps*scale + rel*|ref|_max ; returns (ok, err, bound)"""
    got = np.asarray(got)
    ref = np.asarray(ref)
    if got.shape != ref.shape:
        return False, float("inf"), 0.0
    if got.size == 0:
        return True, 0.0, 0.0
    with np.errstate(all="ignore"):
        diff = np.abs(got.astype(np.complex128) - ref.astype(np.complex128))
        if not np.all(np.isfinite(diff)):
            # non-finite result where the reference is finite: a violation
            # unless the reference itself is near the overflow threshold of
            # the working precision (then the case is out of range: ambiguous)
            if np.all(np.isfinite(ref)):
                # (norms are computed as sqrt(sum |x|^2): squares overflow first)
                big = 1e15 if eps > 1e-10 else 1e150
                if max(float(np.abs(ref).max()), scale) > big:
                    return None, float("inf"), 0.0
                return False, float("inf"), 0.0
            return None, float("nan"), 0.0
        err = float(diff.max())
        refmax = float(np.abs(ref).max())
    bound = factor * eps * max(scale, refmax) + rel * refmax
    return bool(err <= bound), err, bound


# ---------------------------------------------------------------------
# quimb glue (attribute reads only)
# ---------------------------------------------------------------------

def to_numpy(x):
    if isinstance(x, np.ndarray):
        return x
    try:
        return np.asarray(x)
    except Exception:
        import autoray
        return autoray.to_numpy(x)


def ops_of(tn_or_tensors):
    """(array, inds) pairs from a TensorNetwork / Tensor / iterable of Tensors."""
    obj = tn_or_tensors
    if hasattr(obj, "tensor_map"):
        ts = list(obj.tensor_map.values())
    elif hasattr(obj, "inds") and hasattr(obj, "data"):
        ts = [obj]
    else:
        ts = list(obj)
    return [(to_numpy(t.data), tuple(t.inds)) for t in ts]


def exponent_of(obj):
    return float(getattr(obj, "exponent", 0.0) or 0.0)


def dense_of(obj, output=None, max_size=refv.MAX_REF, with_scale=True):
    """Reference dense value of a quimb object. Returns (V, scale, eps) or None
    if not referenceable (too big / non-numpy / inconsistent)."""
    try:
        ops = ops_of(obj)
        if len(ops) > 64:
            return None
        eps = eps_of(*[a.dtype for a, _ in ops])
        ex = exponent_of(obj)
        if abs(ex) > 250:
            return None
        if with_scale:
            v, s = refv.value_and_scale(ops, ex, output, max_size)
        else:
            v = refv.value(ops, ex, output, max_size)
            s = float(np.abs(v).max()) if v.size else 0.0
        return v, s, eps
    except (refv.TooBig, ValueError, TypeError, MemoryError):
        return None


def struct_sig(obj):
    """structural signature of a network for distinct-case counting"""
    try:
        ops = ops_of(obj)
        return tuple(sorted((a.shape, str(a.dtype)) for a, _ in ops)), len(
            refv.default_output(ops))
    except Exception:
        return None
