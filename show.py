import json, sys
r=json.load(open(sys.argv[1]))
for c in r['counters']: print(c)
print(r['notes'])
print('violations', len(r['violations']))
seen=set()
for v in r['violations']:
    if v['mech'] in seen: continue
    seen.add(v['mech']); print(json.dumps(v)[:1500])
for e in r['errors'][:8]: print(e['entry'], e['error'], e['tb'][-900:])
